"""C07 Slicing an observable behaves like slicing a list (exhaustive enumeration)."""
from __future__ import annotations

import itertools

from hypothesis import strategies as st

from reactivex import operators as ops

from vlib.core import FAIL, OK, Check
from vlib.lab import Lab
from vlib.values import FALSY_NAMES, NAMES, canon, val

PROPERTY_ID = "C07"
LEVEL = "exploration"
RULE = (
    "Enumerated: input length n in 0..N (N=6 quick, 8 thorough), start/stop in {None} u [-(n+2), n+2], "
    "step in {None} u 1..n+1, both source[a:b:c] and ops.slice(a,b,c), source ending in completion or in an "
    "error after k elements; integer form source[i] for i in [-(n+2), n+2]; plus generated large magnitudes (up to 10**9 and around / beyond the machine word: 2**31, 2**63-1 .. 2**70, both signs, slices and source[i]); plus a re-entrant Subject source whose next element is pushed by the slice's consumer from inside on_next (call-entry order is still 0,1,2,...); plus generated element VALUES (None, falsy, repeated, unhashable) under small slices, since slicing is positional. "
    "Oracle: list(range(n))[a:b:c] then completion; on error the emitted elements must be a prefix-consistent "
    "subsequence of the expected list followed by that error; the same sliced observable subscribed a second time must give the same result. Non-trivial: 0 < len(expected) < n or "
    "sign(start) != sign(stop). Distinct = distinct case JSON."
)
ASSUMPTIONS = [
    "elements are the integers 0..n-1 (enum, large) or arbitrary values incl. None / falsy / repeated / unhashable ones (values), emitted one per tick by a cold virtual-time source",
    "for erroring sources only the order/subset rule and the error pass-through are required",
]


def _run(case):
    n, a, b, c, form, err_at = case["n"], case["a"], case["b"], case["c"], case["form"], case["err"]
    lab = Lab()
    tl = []
    names = case.get("vals") or [f"n:{i}" for i in range(n)]
    for i in range(n):
        if err_at is not None and i == err_at:
            break
        tl.append([i + 1, "N", names[i]])
    if err_at is None:
        tl.append([n + 1, "C", None])
    else:
        tl.append([len(tl) + 1, "E", "boom"])
    src = lab.cold(tl)
    if form == "getitem":
        out = src[a:b:c]
    elif form == "op":
        out = src.pipe(ops.slice(a, b, c))
    elif form == "index":
        out = src[a]
    else:
        raise AssertionError(form)
    p = lab.probe()
    p.subscribe(out)
    inc = lab.run()
    if lab.escaped is not None:
        raise lab.escaped
    # the same sliced observable subscribed a second time (cold source) must give the same list again
    p2 = lab.probe("p2")
    p2.subscribe(out)
    lab.run()
    if lab.escaped is not None:
        raise lab.escaped
    full = [canon(val(x)) for x in names]
    if form == "index":
        try:
            expected = [full[a]]
        except IndexError:
            expected = []
        sigkind = "index"
    else:
        expected = full[a:b:c]
        sigkind = "slice"
    got = p.values()
    term = p.terminal()
    ok_g, msg = p.grammar_ok()
    if not ok_g:
        return FAIL(f"{sigkind}:grammar", msg)
    got2 = p2.values()
    term2 = p2.terminal()
    if got2 != p.values() or (term2 or [None, None])[1] != (p.terminal() or [None, None])[1]:
        return FAIL(f"{sigkind}:second-subscription-differs", f"case={case} first={[v[1] for v in p.values()]}/{p.terminal()} second={got2}/{term2}")
    nontrivial = (0 < len(expected) < n) or ((a is not None and b is not None) and ((a < 0) != (b < 0)))
    cls = []
    if any(isinstance(x, int) and abs(x) >= 2**63 for x in (a, b)):
        cls.append("index-magnitude>=2**63")
    if case.get("vals"):
        cls.append("arbitrary-element-values")
        if any(x in FALSY_NAMES for x in names):
            cls.append("falsy-element")
        if "none" in names and ["none"] in expected:
            cls.append("None-element-inside-the-slice")
    if a is not None and a < 0 and (b is None or b >= 0):
        cls.append("neg-start/nonneg-stop")
    if a is not None and b is not None and a >= 0 and b < 0:
        cls.append("nonneg-start/neg-stop")
    if err_at is None:
        if term is None or term[1] != "C":
            return FAIL(f"{sigkind}:no-completion", f"case={case} terminal={term}", classes=cls)
        if got != expected:
            # signature distinguishes the sign pattern so distinct root causes are bucketed apart
            pat = ("-" if (a or 0) < 0 else "+") + ("-" if (b is not None and b < 0) else "+")
            return FAIL(f"{sigkind}:values:{pat}", f"case={case} expected={expected} got={got}", classes=cls)
    else:
        k = len(tl) - 1  # elements emitted before the error
        if b is not None and (b == 0 or ((a is None or a >= 0) and 0 <= b <= k)) and term is not None and term[1] == "C":
            # the slice is decided by its first b elements, all of which precede the error:
            # completing without ever seeing the error is list-faithful.
            if got != expected:
                return FAIL(f"{sigkind}:values-early-complete", f"case={case} got={got}", classes=cls)
            return OK(nontrivial, cls + ["decided-before-error"])
        if term is None or term[1] != "E" or term[2] != ["exc", "boom"]:
            return FAIL(f"{sigkind}:error-not-passed", f"case={case} terminal={term}", classes=cls)
        # emitted before the error: must be a subsequence of the expected full-list slice, in order
        it = iter(expected)
        if not all(any(x == y for y in it) for x in got):
            return FAIL(f"{sigkind}:values-before-error", f"case={case} expected subseq of {expected} got={got}", classes=cls)
    return OK(nontrivial, cls)


def _enum(tier):
    N = 6 if tier == "quick" else 8
    for n in range(0, N + 1):
        rng = [None] + list(range(-(n + 2), n + 3))
        steps = [None] + list(range(1, n + 2))
        for a, b, c in itertools.product(rng, rng, steps):
            for form in ("getitem", "op"):
                yield {"n": n, "a": a, "b": b, "c": c, "form": form, "err": None}
            if n > 0 and (a is None or a % 2 == 0):
                yield {"n": n, "a": a, "b": b, "c": c, "form": "op", "err": (((a or 0) * 7 + (b or 0) * 3 + (c or 0)) % n)}
        for i in range(-(n + 2), n + 3):
            yield {"n": n, "a": i, "b": None, "c": None, "form": "index", "err": None}


# magnitudes up to and beyond the machine word: list slicing clamps indices of ANY size (no OverflowError)
_huge = st.sampled_from([2**31, 2**63 - 1, 2**63, 2**63 + 1, 2**64, 2**70]).flatmap(lambda m: st.sampled_from([m, -m]))
_big = st.one_of(st.none(), st.integers(-40, 40), st.integers(-(10**9), 10**9), _huge)
_gen = st.fixed_dictionaries(
    {
        "n": st.integers(0, 14),
        "a": _big,
        "b": _big,
        "c": st.one_of(st.none(), st.integers(1, 16)),
        "form": st.sampled_from(["getitem", "op"]),
        "err": st.none(),
    }
)
_gen_index = st.fixed_dictionaries(
    {
        "n": st.integers(0, 10),
        "a": st.one_of(st.integers(-(10**9), 10**9), _huge),
        "b": st.none(),
        "c": st.none(),
        "form": st.just("index"),
        "err": st.none(),
    }
)


def _run_reentrant(case):
    """The consumer of the slice makes the (Subject) source emit its next element from inside on_next: the sequence the
    slice sees is still 0,1,2,... in call-entry order, so the output must still be the list slice, in list order."""
    from reactivex.subject import Subject

    n, a, b, c, form = case["n"], case["a"], case["b"], case["c"], case["form"]
    fb = set(case["fb"])
    s = Subject()
    out = s[a:b:c] if form == "getitem" else s.pipe(ops.slice(a, b, c))
    state = {"next": 0, "nested": 0, "depth": 0}
    got, term = [], []

    def push():
        if state["next"] < n and not s.is_stopped:
            v = state["next"]
            state["next"] += 1
            s.on_next(v)

    def on_next(v):
        k = len(got)
        got.append(v)
        if k in fb and state["next"] < n and not s.is_stopped:
            state["nested"] += 1
            push()

    out.subscribe(on_next, lambda e: term.append(["E", repr(e)]), lambda: term.append(["C"]))
    while state["next"] < n and not s.is_stopped:
        push()
    s.on_completed()
    expected = list(range(n))[a:b:c]
    cls = ["reentrant-source"]
    if state["nested"]:
        cls.append("element-pushed-during-delivery")
    if c is not None and c > 1:
        cls.append("step>1")
    if term != [["C"]]:
        return FAIL("reentrant:terminal", f"case={case} terminal={term} got={got}", classes=cls)
    if got != expected:
        return FAIL("reentrant:values", f"case={case} expected={expected} got={got}", classes=cls)
    return OK(bool(state["nested"]) and 0 < len(expected) < n, cls)


def _reentrant_cases():
    @st.composite
    def build(draw):
        n = draw(st.integers(2, 10))
        idx = st.integers(-(n + 1), n + 1)
        return {
            "n": n,
            "a": draw(st.one_of(st.none(), idx)),
            "b": draw(st.one_of(st.none(), idx)),
            "c": draw(st.one_of(st.none(), st.integers(1, 4))),
            "form": draw(st.sampled_from(["getitem", "op"])),
            "fb": sorted(draw(st.sets(st.integers(0, n - 1), min_size=1, max_size=4))),
        }

    return build()


def _vals_cases():
    """Slicing is positional: the element VALUES must not matter (None, falsy, equal neighbours, unhashable)."""

    @st.composite
    def build(draw):
        n = draw(st.integers(1, 8))
        pool = draw(st.sampled_from([NAMES, FALSY_NAMES + ["i1", "sa"], ["none", "i1", "i0"]]))
        vals = draw(st.lists(st.sampled_from(pool), min_size=n, max_size=n))
        form = draw(st.sampled_from(["getitem", "op", "op", "index"]))
        idx = st.integers(-(n + 2), n + 2)
        if form == "index":
            return {"n": n, "a": draw(idx), "b": None, "c": None, "form": form, "err": None, "vals": vals}
        return {
            "n": n,
            "a": draw(st.one_of(st.none(), idx)),
            "b": draw(st.one_of(st.none(), idx)),
            "c": draw(st.one_of(st.none(), st.integers(1, n + 1))),
            "form": form,
            "err": None,
            "vals": vals,
        }

    return build()


def checks(tier):
    return [
        Check("reentrant", _run_reentrant, strategy=_reentrant_cases(), examples={"quick": 2500, "thorough": 16 * 15000}, shards={"quick": 4, "thorough": 16}),
        Check("values", _run, strategy=_vals_cases(), examples={"quick": 3000, "thorough": 16 * 20000}, shards={"quick": 4, "thorough": 16}),
        Check("enum", _run, cases=_enum, shards={"quick": 8, "thorough": 16}, exhaustive=True),
        Check("large", _run, strategy=st.one_of(_gen, _gen, _gen, _gen_index), examples={"quick": 800, "thorough": 16 * 4000}, shards={"quick": 1, "thorough": 16}),
    ]
