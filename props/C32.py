"""C32 observe_on / ScheduledObserver deliver every notification once, in order, serially (Engine DET)."""
from __future__ import annotations

from hypothesis import strategies as st

from vlib import conc, det
from vlib.core import Check, HarnessError

PROPERTY_ID = "C32"
LEVEL = "exploration"
RULE = (
    "A producer thread pushes a conforming sequence (<=6 notifications 'N'* then 'C', 'E' or nothing) into (a) a Subject "
    "piped through observe_on(S) with one downstream probe, or (b) a ReplaySubject(scheduler=S) with 1-2 probes that "
    "subscribe before the run ('pre'), from the producer thread before its j-th emission, or from their own thread "
    "('thr', racing the producer: subscribe-time replay + ensure_active against the producer's on_next + ensure_active). "
    "S = EventLoopScheduler, CatchScheduler(EventLoopScheduler) whose handler swallows the probe's exception (the loop "
    "survives, so has_faulted alone must silence the rest), NewThreadScheduler (every drain step on a new thread, so "
    "only the is_acquired handshake keeps deliveries serial) or ThreadPoolScheduler(2) (drain steps on pooled workers). A probe yields inside every callback and may raise at "
    "delivery k or dispose its own subscription from inside delivery k; the producer may dispose subscription 0 before emission j. The received list of a probe is logged by a "
    "recording subclass of ScheduledObserver/ObserveOnObserver at _on_next_core/_on_error_core/_on_completed_core. Engine DET (vlib/det.py) runs the real code "
    "with line-level yield points ('full': every reactivex line; 'focus': only scheduledobserver.py/observeonobserver.py/"
    "replaysubject.py lines + every lock/condition operation + probe yields). enum-k1: every schedule with <=1 "
    "preemption, full trace; enum-k2: every schedule with <=2 preemptions, focus trace (quick: 2-3 element programs; "
    "thorough adds full-trace K=2 and focus K=3); gen: generated programs with a drawn descent of <=3 effective "
    "preemptions (every prefix schedule is judged too). Oracle per probe, every run: the delivered list is a prefix of "
    "the received list (exactly once, in order); no callback starts while a callback of another thread is in flight; "
    "every delivery on a non-producer thread, for the event loop all on the TARGET loop's own thread, and never on the thread "
    "of a different scheduler handed to subscribe(observer, scheduler=X) (X = a second EventLoopScheduler or a "
    "CurrentThreadScheduler; X is only the default for operators without a scheduler of their own, the target stays the "
    "one given to observe_on / ReplaySubject); after a raising delivery k "
    "exactly k+1 deliveries; a dispose() issued from inside delivery k is generated but only prefix / order / no-overlap are judged after it (silence after dispose is C03's clause, stated for one thread); at quiescence delivered == received unless that probe raised, its subscription was disposed, "
    "or a raise killed the plain EventLoopScheduler thread; no deadlock; no exception other than the probe's own on a "
    "scheduler thread. Non-trivial: in some explored run a drain step (ScheduledObserver.run line or a delivery in "
    "progress, on a scheduler thread) executed between the entry and the return of a producer emission. "
    "Distinct = distinct case JSON."
)
ASSUMPTIONS = [
    "one producer per subject (Rx contract: a source emits serially); only producer, subscriber and scheduler threads race",
    "received list = what the ScheduledObserver/ObserveOnObserver itself was handed (logged by a recording subclass at _on_*_core); what the subject in front of it chooses to hand over is not judged",
    "CPython GIL-build atomicity: a source line is the unit of interleaving; locks/conditions/threads are the cooperative replacements of vlib/det.py",
    "bounds: <=6 notifications, <=2 subscribers, <=2 (quick) / <=3 (thorough) preemptions exhaustive, <=3 drawn; no unbounded model of the handshake",
    "what happens to queued notifications after a dispose() issued from another thread is not judged here (only: still a prefix, no overlap)",
    "a scheduler passed to subscribe() is only the default for operators without their own; the delivery target stays the scheduler given to observe_on / ReplaySubject (their docstrings: 'scheduler to observe on' / 'scheduler the observers are invoked on')",
]
TIMEOUT = {"quick": 300, "thorough": 3600}

ONS = ("loop", "catchloop", "newthread")


def _focus_kw():
    d = det.reactivex_dir()
    files = ("observer/scheduledobserver.py", "observer/observeonobserver.py", "subject/replaysubject.py")
    return dict(trace=False, extra_trace=tuple(d + f for f in files))


def _scheduler(on):
    from reactivex.scheduler import CatchScheduler, EventLoopScheduler, NewThreadScheduler, ThreadPoolScheduler

    if on == "loop":
        return EventLoopScheduler()
    if on == "catchloop":
        return CatchScheduler(EventLoopScheduler(), lambda e: isinstance(e, conc.Boom))
    if on == "newthread":
        return NewThreadScheduler()
    if on == "pool":
        return ThreadPoolScheduler(2)
    raise HarnessError(f"bad scheduler kind {on}")


def _other_scheduler(kind):
    """Subscribe-time scheduler (`subscribe(observer, scheduler=X)`): the default scheduler for operators that have none of
    their own.  It is NOT the target of observe_on / of the ReplaySubject, so no delivery may happen on it."""
    from reactivex.scheduler import CurrentThreadScheduler, EventLoopScheduler

    if kind is None:
        return None
    if kind == "loop":
        return EventLoopScheduler()
    if kind == "current":
        return CurrentThreadScheduler()
    raise HarnessError(f"bad sub_sched {kind}")


def _loop_tid(sch):
    """Logical thread id of an EventLoopScheduler's thread (None if it never started one); looks through CatchScheduler."""
    inner = getattr(sch, "_scheduler", sch)
    th = getattr(inner, "_thread", None)
    if th is None:
        return None
    ct = getattr(th, "_ct", None)
    if ct is None:
        raise HarnessError(f"cannot identify the thread of {inner!r} (det.CThread layout changed?)")
    return ct.tid


_REC = {}


def _recording_classes():
    """Subclasses of the two observers under test that log what they RECEIVE (after the Observer.is_stopped gate, i.e.
    at _on_*_core) into the `received` list of the probe they deliver to.  'Received' is therefore taken at the
    scheduled observer itself, not at the subject in front of it (a late subscriber racing the subject's on_error
    may legitimately be handed something else than the producer sent; that is the subject's business, not C32's)."""
    from reactivex.observer import ObserveOnObserver, ScheduledObserver

    key = (ScheduledObserver, ObserveOnObserver)
    if _REC.get("key") == key:
        return _REC["classes"]

    from typing import TypeVar

    T = TypeVar("T")

    def mixin(base):
        class Rec(base[T]):  # generic like its base: ReplaySubject evaluates cast(ScheduledObserver[_T], ...) at run time
            def __init__(self, scheduler, observer):
                super().__init__(scheduler, observer)
                probe = getattr(getattr(observer, "_on_next", None), "__self__", None)
                if not isinstance(probe, conc.Probe):
                    raise HarnessError(f"cannot find the probe behind {observer!r}")
                self._rec = probe.received = []

            def _on_next_core(self, value):
                self._rec.append(["N", value])
                super()._on_next_core(value)

            def _on_error_core(self, error):
                self._rec.append(["E", None])
                super()._on_error_core(error)

            def _on_completed_core(self):
                self._rec.append(["C", None])
                super()._on_completed_core()

        Rec.__name__ = Rec.__qualname__ = "Rec" + base.__name__
        return Rec

    _REC["key"] = key
    _REC["classes"] = (mixin(ScheduledObserver), mixin(ObserveOnObserver))
    return _REC["classes"]


class _recording:
    """Context manager: the operator / subject modules construct the recording subclasses."""

    def __enter__(self):
        import reactivex.operators._observeon as m1
        import reactivex.subject.replaysubject as m2

        rso, rooo = _recording_classes()
        self.saved = (m1.ObserveOnObserver, m2.ScheduledObserver)
        m1.ObserveOnObserver, m2.ScheduledObserver = rooo, rso

    def __exit__(self, *a):
        import reactivex.operators._observeon as m1
        import reactivex.subject.replaysubject as m2

        m1.ObserveOnObserver, m2.ScheduledObserver = self.saved
        return False


def _build(case):
    from reactivex import operators as ops
    from reactivex.subject import ReplaySubject, Subject

    conc.fresh_thread_state()
    seq, subs, on = case["seq"], case["subs"], case["on"]
    sch = _scheduler(on)
    disp = {}

    def disposer(i):
        def f():  # called from inside delivery number dispose_cb of probe i, on the delivering thread
            if i not in disp:
                return False  # subscribe() has not returned yet (replay to a racing subscriber): nothing to dispose with
            disp[i].dispose()
            return True

        return f

    probes = [conc.Probe(f"p{i}", raise_at=s.get("raise"), dispose_at=s.get("dispose_cb"), disposer=disposer(i)) for i, s in enumerate(subs)]
    others = [_other_scheduler(s.get("sub_sched")) for s in subs]  # the scheduler= argument of subscribe(), if any
    if case["target"] == "observe_on":
        subj = Subject()
        piped = subj.pipe(ops.observe_on(sch))

        def subscribe(i):
            disp[i] = piped.subscribe(probes[i], scheduler=others[i])

    else:
        subj = ReplaySubject(scheduler=sch)

        def subscribe(i):
            disp[i] = subj.subscribe(probes[i], scheduler=others[i])

    bad = det.audit_object(subj)
    if bad:
        raise HarnessError(f"object under test carries real locks: {bad}")
    for i, s in enumerate(subs):
        if s["at"] == "pre":
            subscribe(i)
    dispose_at = case.get("dispose")

    def producer():
        from vlib.values import Tagged

        for j in range(len(seq) + 1):
            for i, s in enumerate(subs):
                if s["at"] == j:
                    det.log("sub", i)
                    subscribe(i)
                    det.log("sub-ret", i)
            if dispose_at == j and 0 in disp:
                det.log("dispose")
                disp[0].dispose()
                det.log("dispose-ret")
            if j == len(seq):
                break
            det.log("emit", j)
            if seq[j] == "N":
                subj.on_next(j)
            elif seq[j] == "E":
                subj.on_error(Tagged("e"))
            else:
                subj.on_completed()
            det.log("emit-ret", j)

    def late(i):
        def body():
            det.log("sub", i)
            subscribe(i)
            det.log("sub-ret", i)

        return body

    threads = [producer] + [late(i) for i, s in enumerate(subs) if s["at"] == "thr"]
    return threads, {"probes": probes, "nprog": len(threads), "case": case, "target": sch, "others": others}


def _judge(ctx, res):
    case, probes, nprog = ctx["case"], ctx["probes"], ctx["nprog"]
    seq, on = case["seq"], case["on"]
    if res.deadlock:
        return "deadlock", repr(res.deadlock)
    for tid, e in sorted(res.exceptions.items()):
        if not (isinstance(e, conc.Boom) and tid >= nprog and on != "catchloop"):
            return f"escaped:{type(e).__name__}", f"thread {tid} ({res.names.get(tid)}): {e!r}"
    any_raise = any(p.raised for p in probes)
    for i, p in enumerate(probes):
        exp = getattr(p, "received", [])  # logged by the recording ScheduledObserver/ObserveOnObserver subclass
        got = [[k, v if k == "N" else None] for k, v, _ in p.events]
        tids = [t for _, _, t in p.events]
        tag = f"probe {i} delivered {got} for received {exp} (producer sent {seq!r})"
        if p.overlaps:
            return "overlap", f"{tag}: call {p.overlaps[0][:2]} started while {p.overlaps[0][2]} (kind, tid) in flight"
        if any(t is None or t < nprog for t in tids):
            return "wrong-thread", f"{tag}: delivered on program thread(s) {sorted(set(tids), key=str)}"
        if on in ("loop", "catchloop") and len(set(tids)) > 1:
            return "wrong-thread", f"{tag}: the event loop's deliveries came from threads {sorted(set(tids))}"
        if on in ("loop", "catchloop") and tids and set(tids) != {_loop_tid(ctx["target"])}:
            return "wrong-thread", f"{tag}: delivered on thread(s) {sorted(set(tids))}, the TARGET event loop's thread is {_loop_tid(ctx['target'])}"
        for o in ctx["others"]:  # a subscribe-time scheduler is not the target: nothing may be delivered on it
            ot = _loop_tid(o) if o is not None and hasattr(o, "_thread") else None
            if ot is not None and ot in tids:
                return "wrong-thread", f"{tag}: delivered on thread {ot}, the thread of the scheduler passed to subscribe(), not on the target scheduler"
        if got != exp[: len(got)]:
            dup = any(got.count(g) > 1 for g in got)
            return ("duplicate" if dup else "order"), tag
        if p.raised and len(got) != p.raised[0] + 1:
            return "delivered-after-raise", f"{tag}: delivery {p.raised[0]} raised"
        # A probe that disposed its subscription from inside delivery k: NOT judged beyond prefix / order / no overlap.
        # "Silence after dispose() returned" is C03's clause, which is stated for a single thread or virtual time only;
        # here the producer thread may be inside on_next/ensure_active while the loop thread disposes, and the C32
        # statement says nothing about dispose. (A stricter clause - exactly k+1 deliveries - was tried in the gap round
        # and failed on the unchanged tree in the thorough tier at two preemptions: over-reach, removed.)
        relaxed = bool(p.raised) or p.disposed_in_cb is not None or (i == 0 and case.get("dispose") is not None) or (any_raise and on == "loop")
        if res.complete and not relaxed and len(got) != len(exp):
            return "undelivered", f"{tag}: scheduler idle, {len(exp) - len(got)} received notification(s) never delivered"
    return None


def _nontrivial(ctx, res):
    nprog = ctx["nprog"]
    start = None
    for step, tid, pl in res.events:
        if tid == 0 and isinstance(pl, tuple) and pl[0] == "emit":
            start = step
        elif tid == 0 and isinstance(pl, tuple) and pl[0] == "emit-ret" and start is not None:
            for s in range(start, min(step, res.steps)):
                if res.owners[s] >= nprog and ("scheduledobserver.py" in res.labels[s] or res.labels[s].startswith("probe:")):
                    return True
            start = None
    return False


def _classes(ctx, res):
    case, probes = ctx["case"], ctx["probes"]
    cl = [case["target"], "on:" + case["on"], f"subs:{len(probes)}", "trace:" + ("focus" if case.get("focus") else "full")]
    if any(p.raised for p in probes):
        cl.append("raised")
        if any(p.raised and p.raised[0] + 1 < len(case["seq"]) for p in probes):
            cl.append("raised-with-more-received")
    for s in case["subs"]:
        if s.get("sub_sched"):
            cl.append("sub-sched:" + s["sub_sched"])
    if case.get("dispose") is not None:
        cl.append("disposed")
    if any(p.disposed_in_cb is not None for p in probes):
        cl.append("disposed-in-callback")
        if any(p.disposed_in_cb is not None and p.disposed_in_cb + 1 < len(getattr(p, "received", [])) for p in probes):
            cl.append("disposed-in-callback-with-more-received")
    if any(s["at"] == "thr" for s in case["subs"]):
        cl.append("late-thread-sub")
    if any(isinstance(s["at"], int) for s in case["subs"]):
        cl.append("mid-sub")
    if len(res.switches()) >= 3:
        cl.append("switches>=3")
    return cl


def run(case):
    kw = _focus_kw() if case.get("focus") else {}
    if case["on"] in ("newthread", "pool"):
        kw["max_steps"] = 20000
    culprit = "observe_on" if case["target"] == "observe_on" else "replay-scheduled-observer"
    if any(s["at"] == "thr" for s in case["subs"]):
        culprit += "+subscriber-thread"  # a second thread calls ensure_active on the same ScheduledObserver
    with _recording():
        return conc.drive(case, lambda: _build(case), _judge, culprit=culprit, kw=kw, nontrivial=_nontrivial, classes=_classes)


# ---------------------------------------------------------------------------------------------
# case spaces
# ---------------------------------------------------------------------------------------------
def _case(target, on, seq, subs, sched, focus=False, dispose=None):
    return {"target": target, "on": on, "seq": seq, "subs": subs, "dispose": dispose, "focus": focus, "sched": sched}


def _pre(raise_=None):
    return {"at": "pre", "raise": raise_}


def _thr(raise_=None):
    return {"at": "thr", "raise": raise_}


def _programs(small):
    """(target, on, seq, subs, dispose) tuples.  small=True: the 2-3 element programs used for K>=2."""
    seqs = ["NC", "NN", "NE", "NNC"] if small else ["C", "NC", "NE", "NN", "NNC", "NNNC"]
    out = []
    for on in ONS:
        for seq in seqs:
            out.append(("observe_on", on, seq, [_pre()], None))
            out.append(("replay", on, seq, [_pre()], None))
        for seq in ["NNC"]:
            out.append(("observe_on", on, seq, [_pre(0)], None))
            out.append(("observe_on", on, seq, [_pre(1)], None))
            out.append(("replay", on, seq, [_pre(0), _pre()], None))
            out.append(("replay", on, seq, [_pre(), _pre(1)], None))
            out.append(("replay", on, seq, [_thr()], None))
            out.append(("replay", on, seq, [_pre(), _thr()], None))
            out.append(("replay", on, seq, [{"at": 1, "raise": None}], None))
            out.append(("observe_on", on, seq, [_pre()], 1))
            out.append(("replay", on, seq, [_pre(), _pre()], 2))
        if not small:
            out.append(("replay", on, "NNE", [_thr(1), _thr()], None))
            out.append(("replay", on, "NNC", [{"at": 3, "raise": None}], None))
            out.append(("observe_on", on, "NNNE", [_pre(2)], None))
    return out


# quick K=2 (focus trace): the programs that exercise each part of the handshake with the fewest steps
_QUICK_K2 = [
    ("observe_on", "loop", "NN", [_pre()], None),  # producer append/ensure_active vs run's empty check + release
    ("observe_on", "loop", "NC", [_pre()], None),
    ("observe_on", "loop", "NE", [_pre()], None),
    ("observe_on", "loop", "NNC", [_pre()], None),
    ("observe_on", "newthread", "NN", [_pre()], None),  # serial delivery rests on is_acquired alone
    ("observe_on", "catchloop", "NNC", [_pre(0)], None),  # fault path, loop survives
    ("observe_on", "newthread", "NNC", [_pre(1)], None),
    ("observe_on", "loop", "NNC", [_pre()], 1),  # dispose racing the drain
    ("replay", "loop", "NN", [_pre()], None),
    ("replay", "loop", "NN", [_thr()], None),  # two ensure_active callers (subscriber, producer) + loop
    ("replay", "loop", "NC", [_pre(), _thr()], None),
    ("replay", "newthread", "NN", [_thr()], None),
    ("replay", "catchloop", "NC", [_pre(0), _pre()], None),
]


def _dcb(k, at="pre"):
    return {"at": at, "raise": None, "dispose_cb": k}


# gap round: ThreadPoolScheduler as the target scheduler; subscriptions disposed from inside a delivery
_EXTRA_K1 = [
    ("observe_on", "pool", "NNC", [_pre()], None),
    ("observe_on", "pool", "NNC", [_pre(0)], None),
    ("replay", "pool", "NNC", [_thr()], None),
    ("observe_on", "loop", "NNC", [_dcb(0)], None),
    ("observe_on", "loop", "NNNE", [_dcb(1)], None),
    ("observe_on", "newthread", "NNC", [_dcb(0)], None),
    ("observe_on", "pool", "NNC", [_dcb(1)], None),
    ("replay", "loop", "NNC", [_dcb(0), _pre()], None),
    ("replay", "catchloop", "NNE", [_pre(), _dcb(1)], None),
    ("replay", "loop", "NNC", [_dcb(0, "thr")], None),
]
def _ss(kind, at="pre"):
    return {"at": at, "raise": None, "sub_sched": kind}


# round 4: subscribe(observer, scheduler=X) with X different from the target
_EXTRA_K1 += [
    ("observe_on", "loop", "NNC", [_ss("loop")], None),
    ("observe_on", "catchloop", "NC", [_ss("current")], None),
    ("observe_on", "newthread", "NC", [_ss("loop")], None),
    ("replay", "loop", "NC", [_ss("loop"), _pre()], None),
    ("replay", "pool", "NC", [_ss("current", "thr")], None),
]
_EXTRA_K2 = [
    ("observe_on", "pool", "NN", [_pre()], None),
    ("observe_on", "loop", "NN", [_dcb(0)], None),
    ("replay", "loop", "NN", [_dcb(0, "thr")], None),
]


def _quick_k1_keep(target, on, seq, subs, dispose):
    """quick tier: NewThreadScheduler programs cost 5-10x the event-loop ones (a thread per drain step); keep the short ones"""
    if on != "newthread":
        return True
    if len(subs) == 1 and subs[0]["at"] == "pre" and subs[0]["raise"] is None and dispose is None:
        return seq in ("NC", "NN", "NNC")
    return seq == "NNC" and dispose is None and [s["at"] for s in subs] in (["pre"], ["thr"], ["pre", "thr"])


def _enum_k1(tier):
    for extra, (target, on, seq, subs, dispose) in [(False, p) for p in _programs(small=False)] + [(True, p) for p in _EXTRA_K1]:
        if tier == "quick" and not extra and not _quick_k1_keep(target, on, seq, subs, dispose):
            continue
        m = 4 if (on == "newthread" and len(subs) > 1) else 1  # spread the big explorations over several cases
        for i in range(m):
            yield _case(target, on, seq, subs, conc.sched_all(1, [i, m] if m > 1 else None), False, dispose)
    if tier == "thorough":  # two preemptions at full line granularity: single-subscriber 2-element programs on the event loop
        for target, on, seq, subs, dispose in _programs(small=True):
            if on == "newthread" or len(seq) > 2 or len(subs) > 1:
                continue
            m = 16
            for i in range(m):
                yield _case(target, on, seq, subs, conc.sched_all(2, [i, m]), False, dispose)


def _enum_k2(tier):
    m = 8
    for target, on, seq, subs, dispose in (_QUICK_K2 if tier == "quick" else _programs(small=True)) + _EXTRA_K2:
        for i in range(m):
            yield _case(target, on, seq, subs, conc.sched_all(2, [i, m]), True, dispose)
    if tier == "thorough":  # three preemptions (focus trace) on the 2-element programs
        k3 = [p for p in _programs(small=True) if p[1] != "newthread" and len(p[2]) <= 2 and len(p[3]) == 1]
        k3 += [("replay", "loop", "NN", [_thr()], None), ("observe_on", "newthread", "NN", [_pre()], None)]
        for target, on, seq, subs, dispose in k3:
            for i in range(32):
                yield _case(target, on, seq, subs, conc.sched_all(3, [i, 32]), True, dispose)


_seq = st.builds(lambda n, t: "N" * n + t, st.integers(0, 5), st.sampled_from(["C", "E", "", "C"])).filter(lambda s: 1 <= len(s) <= 6)


def _subs(target, n):
    raise_ = st.one_of(st.none(), st.none(), st.integers(0, n - 1))
    dcb = st.one_of(st.none(), st.none(), st.none(), st.integers(0, n - 1))
    ss = st.sampled_from([None, None, "loop", "current"])
    if target == "observe_on":
        return st.lists(st.fixed_dictionaries({"at": st.just("pre"), "raise": raise_, "dispose_cb": dcb, "sub_sched": ss}), min_size=1, max_size=1)
    at = st.one_of(st.just("pre"), st.just("pre"), st.just("thr"), st.just("thr"), st.integers(0, n))
    return st.lists(st.fixed_dictionaries({"at": at, "raise": raise_, "dispose_cb": dcb, "sub_sched": ss}), min_size=1, max_size=2)


_gen = st.tuples(st.sampled_from(["observe_on", "replay", "replay"]), _seq).flatmap(
    lambda ts: st.fixed_dictionaries(
        {
            "target": st.just(ts[0]),
            "on": st.sampled_from(["loop", "catchloop", "newthread", "loop", "catchloop", "pool"]),
            "seq": st.just(ts[1]),
            "subs": _subs(ts[0], len(ts[1])),
            "dispose": st.one_of(st.none(), st.none(), st.none(), st.integers(0, len(ts[1]))),
            "focus": st.sampled_from([False, False, True]),
            "sched": conc.sched_walks(3),
        }
    )
)


def checks(tier):
    return [
        Check("enum-k1", run, cases=lambda tier: conc.scaled(_enum_k1(tier), tier), shards={"quick": 8, "thorough": 16}, exhaustive=True),
        Check("enum-k2", run, cases=lambda tier: conc.scaled(_enum_k2(tier), tier), shards={"quick": 8, "thorough": 16}, exhaustive=True),
        Check("gen", run, strategy=_gen, examples={"quick": 640, "thorough": 16 * 4000}, shards={"quick": 8, "thorough": 16}),
    ]
