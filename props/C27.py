"""C27 RefCountDisposable releases its resource only after all dependents (HIST model + DET schedules)."""
from __future__ import annotations

from hypothesis import strategies as st

from vlib import disp
from vlib.core import Check

PROPERTY_ID = "C27"
LEVEL = "exploration"
RULE = (
    "The underlying resource is a counting item ('plain' or a falsy empty CompositeDisposable; in the one-thread histories also "
    "'reenter' = its dispose() calls the RefCountDisposable's dispose() and every dependent's dispose() again, 'reenter-get' = "
    "its dispose() requests a new dependent and disposes it, 'raises' = it raises after counting and the history goes on; "
    "the clause stays: disposed at most once ever, exactly once when released). "
    "hist/hist-enum: one-thread command lists over get-dependent / dispose-dependent(ref) / dispose-primary, generated "
    "(<=25 commands) and exhaustively enumerated (all lists of <=5 (quick) / <=6 (thorough) commands over get, dep0, dep1, dep2, "
    "primary); a model (primary flag, set of live dependents, released flag) is stepped alongside and after EVERY command the "
    "underlying dispose count must be 1 iff primary was disposed and no live dependent remains, else 0 (never 2); disposing a "
    "dependent twice or a dependent obtained after the release changes nothing. "
    "det-enum/det-gen: a shared RefCountDisposable with 0-2 dependents handed out beforehand and 2-3 logical threads with 1-3 "
    "commands (primary / dep(i) / get-and-keep / get-then-dispose) under Engine DET (vlib/det.py; line-level yield points, "
    "per-bytecode in the RefCountDisposable methods where 'opcodes' is set so that `count -= 1` is split); det-enum explores "
    "every schedule with <=1 (quick) / <=2 (thorough) preemptions for all programs with <=3 commands, det-gen draws programs "
    "and <=3 preemption points. Oracle on the sequentially consistent event log: underlying disposed at most once; at the "
    "moment it is disposed the primary dispose() has been called, every pre-handed dependent's dispose() has been called, and "
    "every dependent whose getter had returned by then has had dispose() called; if primary and all dependents were disposed "
    "and nothing was kept, the underlying is disposed at the end; no deadlock, no escaped exception. "
    "Non-trivial: hist = the release happened with at least one dependent handed out, or a dependent was disposed twice/after "
    "release; det = two threads' calls overlapped in at least one explored schedule. Distinct = distinct case JSON."
)
ASSUMPTIONS = [
    "C-level atomicity of CPython (GIL build): a source line (or a bytecode where opcodes are enabled) is the unit of interleaving",
    "DET bounds: <=3 threads, <=3 commands per thread, <=2 dependents handed out before the threads start, <=3 preemptions",
    "bounded histories only; the 'abstract model over unbounded histories' of the quantifier is not built (that is model checking)",
]

_kind = st.sampled_from(disp.KINDS)
_OPC = ["RefCountDisposable.release", "RefCountDisposable.disposable", "RefCountDisposable.dispose", "RefCountDisposable.InnerDisposable.dispose"]

_hist = st.fixed_dictionaries(
    {
        "item": st.sampled_from(disp.REFCOUNT_KINDS),
        "cmds": st.lists(
            st.one_of(st.just(["get"]), st.just(["get"]), st.tuples(st.just("dep"), st.integers(0, 5)).map(list), st.tuples(st.just("dep"), st.integers(0, 5)).map(list), st.just(["primary"])),
            min_size=1,
            max_size=25,
        ),
    }
)


def _hist_enum(tier):
    n = 5 if tier == "quick" else 6
    alpha = [("get",), ("dep", 0), ("dep", 1), ("dep", 2), ("primary",)]
    for kind in disp.REFCOUNT_KINDS:
        for cmds in disp.sequences(alpha, n if kind in disp.KINDS else n - 1):
            if kind in disp.KINDS or any(c[0] == "primary" for c in cmds):  # the behaviours only show at a release
                yield {"item": kind, "cmds": cmds}


def _alpha(deps):
    return [("primary",), ("get",), ("getdisp",)] + [("dep", j) for j in range(deps)]


def _det_enum(tier):
    K = 1 if tier == "quick" else 2
    for deps in (0, 1, 2):
        for threads in disp.programs(_alpha(deps), [(1, 1), (1, 2), (2, 1), (1, 1, 1)]):
            if not any(c[0] == "primary" for t in threads for c in t):
                continue  # without a primary dispose nothing may ever be released; covered by hist and det-gen
            yield {"cls": "refcount", "deps": deps, "item": "plain", "threads": threads, "sched": {"mode": "all", "K": K}}
    if tier != "quick":  # deeper programs: 2||2 with <=2 preemptions, 1||1||2 with <=1
        for deps in (1, 2):
            for threads in disp.programs(_alpha(deps), [(2, 2)]):
                if any(c[0] == "primary" for t in threads for c in t):
                    yield {"cls": "refcount", "deps": deps, "item": "plain", "threads": threads, "sched": {"mode": "all", "K": 2}}
            for threads in disp.programs(_alpha(deps), [(1, 1, 2)]):
                if any(c[0] == "primary" for t in threads for c in t):
                    yield {"cls": "refcount", "deps": deps, "item": "plain", "threads": threads, "sched": {"mode": "all", "K": 1}}
    # bytecode granularity inside the RefCountDisposable methods (splits `self.count -= 1`): ~4x more steps, so
    # K=2 only for two single-command threads
    shapes = [((1, 1), K)] if tier == "quick" else [((1, 1), 2), ((1, 2), 1), ((1, 1, 1), 1)]
    for deps in (1, 2):
        for shape, k in shapes:
            for threads in disp.programs(_alpha(deps), [shape]):
                yield {"cls": "refcount", "deps": deps, "item": "empty", "threads": threads, "opcodes": _OPC, "sched": {"mode": "all", "K": k}}


def _cmd():
    return st.one_of(st.just(["primary"]), st.just(["get"]), st.just(["getdisp"]), st.tuples(st.just("dep"), st.integers(0, 3)).map(list), st.tuples(st.just("dep"), st.integers(0, 3)).map(list))


_det_gen = st.integers(0, 2).flatmap(
    lambda deps: st.fixed_dictionaries(
        {
            "cls": st.just("refcount"),
            "deps": st.just(deps),
            "item": _kind,
            "threads": disp.program_strategy(_cmd() if deps else st.sampled_from([["primary"], ["get"], ["getdisp"]])),
            "opcodes": st.sampled_from([[], [], _OPC]),
            "sched": disp.sched_strategy(3),
        }
    )
)


def hist_run(case):
    return disp.hist_refcount(case)


def checks(tier):
    return [
        Check("hist-enum", hist_run, cases=_hist_enum, shards={"quick": 4, "thorough": 16}, exhaustive=True),
        Check("hist", hist_run, strategy=_hist, examples={"quick": 1200, "thorough": 16 * 20000}, shards={"quick": 4, "thorough": 16}),
        Check("det-enum", disp.det_run, cases=_det_enum, shards={"quick": 8, "thorough": 16}, exhaustive=True),
        Check("det-gen", disp.det_run, strategy=_det_gen, examples={"quick": 2000, "thorough": 16 * 8000}, shards={"quick": 8, "thorough": 16}),
    ]
