"""C11 Merging keeps each inner order and completes when all complete."""
from __future__ import annotations

from hypothesis import strategies as st

import reactivex
from reactivex import operators as ops

from vlib.core import FAIL, OK, SKIP, Check, HarnessError
from vlib.hoc import POLICIES, IterInner, TSource, all_subs, compare_union, exact_trace, draw_outer, draw_second, inner_specs, max_overlap, saturated_case, second_tick, simulate, subs_cover
from vlib.lab import Lab

PROPERTY_ID = "C11"
LEVEL = "exploration"
RULE = (
    "Generated: 1-4 (thorough 1-5) inner traced sources (cold / synchronous / hot / hot backed by a real Subject, whose late subscribers get its terminal at once / subsched = time-based inner that runs on the scheduler handed down by subscribe(scheduler=...), as reactivex.timer/interval do; 0-4 (thorough 0-6) distinct ints each so every element names its "
    "inner, gaps 0-3, terminal completion / error / none = never completes) and an outer timeline (cold / synchronous / "
    "hot, 0-5 (thorough 0-7) elements selecting inners, possibly the same inner several times, terminal completion / error / none); "
    "forms merge_all, merge(max_concurrent=1..4), flat_map (mapper and constant-observable forms), flat_map_indexed, "
    "concat_map (in a third of the flat_map / flat_map_indexed cases the mapper returns a lazy iterable - a generator that yields "
    "1-3 items and then raises or ends - for some inners: its items must appear, in order, before its error; in a fifth of the mapper cases the mapper raises for one outer element: the output must terminate with that "
    "exception at the element's arrival instant, also while earlier inners occupy the concurrency slot), and the n-ary reactivex.merge(...) / ops.merge(...) forms (outer = the argument list); subscribed at a "
    "generated tick on the virtual scheduler (TestScheduler, one case in five on a HistoricalScheduler with 1 ms ticks; n-ary forms also through the default trampoline); half of the 'limited' "
    "cases use a saturation shape (slow inners fill max_concurrent, queued inners that complete synchronously inside "
    "their own subscribe, outer completing early). Oracle: an independent "
    "discrete-event reference (plain Python, own priority queue) of 'merge with optional concurrency limit and FIFO "
    "queue' gives the expected elements with ticks, terminal and inner subscription instants; the real trace must contain "
    "per instant exactly the expected multiset with each inner's own order kept, the expected terminal kind at the "
    "expected tick (completion only after the outer and all subscribed inners completed, first error terminates; at an "
    "error instant other inners' same-instant elements are optional); from the logs: inner subscriptions (before the "
    "terminal) happen in the expected order at the expected ticks (arrival order for queued inners) and at most "
    "max_concurrent are active at once. Queued same-instant ties are accepted under any of the consistent orders "
    "fifo / outer-first / inner-first. In about a third of the cases (all sources cold/synchronous) the SAME built "
    "observable is subscribed a second time - after the first subscription terminated, or overlapping it - and the second "
    "probe (and the first) is judged by the same oracle with its own subscribe tick. Non-trivial: >= 2 inner subscriptions with overlapping lifetimes, or an inner was queued."
)
ASSUMPTIONS = [
    "an inner given as a lazy iterable (flat_map accepts Mapper[T, Iterable]) is the sequence of the items it yields followed by completion, or by on_error with the exception it raises; all of it at the arrival instant; it has no subscription log",
    "a subsched inner that is not handed the scheduler the top-level subscription was made with would run on the library default (real time); in virtual time none of its notifications is ever seen - emulated by the traced source staying silent (no real timers are started)",
    "a Subject-backed inner (kind subject) delivers its terminal at once to a subscriber that arrives after, or during the dispatch of, that terminal (documented Subject behaviour)",
    "inner sources are conforming; a subscription counts as active until its own terminal was delivered or it was unsubscribed",
    "subscriptions opened after the output already terminated (a synchronous outer still unwinding) are not judged here (C02/C03)",
    "mapper functions are total and pure, except that in a share of the flat_map / flat_map_indexed / concat_map cases the mapper raises for one outer element; the projection is applied when the outer element arrives (flat_map = map + merge_all; concat_map is documented as map + merge(max_concurrent=1)), so that exception is the first error at the arrival instant",
]

FORMS_OUTER = ["merge_all", "merge_mc", "flat_map", "flat_map_const", "flat_map_indexed", "concat_map"]
FORMS_NARY = ["merge_factory", "merge_op"]


def _resolver(case):
    n = len(case["inners"])
    form = case["form"]
    if form == "flat_map_indexed":
        return lambda p, j: (int(p[2:]) + j) % n
    if form == "flat_map_const":
        return lambda p, j: case["const"] % n
    return lambda p, j: int(p[2:]) % n


def _outer_spec(case):
    if case["form"] in FORMS_NARY:
        return {"kind": "sync", "tl": [[0, "N", f"n:{i}"] for i in case["sel"]] + [[0, "C", None]]}
    return case["outer"]


def _maxc(case):
    if case["form"] == "merge_mc":
        return case["maxc"]
    if case["form"] == "concat_map":
        return 1
    return None


def build(case, lab, inners):
    form = case["form"]
    n = len(inners)
    res = _resolver(case)
    if form in FORMS_NARY:
        seq = [inners[i % n] for i in case["sel"]]
        if form == "merge_factory":
            return reactivex.merge(*seq), None
        return seq[0].pipe(ops.merge(*seq[1:])), None
    if form in ("merge_all", "merge_mc"):
        outer = TSource(lab, case["outer"], "outer", decode=lambda name: inners[int(name[2:]) % n])
        return outer.pipe(ops.merge_all() if form == "merge_all" else ops.merge(max_concurrent=case["maxc"])), outer
    outer = TSource(lab, case["outer"], "outer")
    def pick(i):
        x = inners[i % n]
        return x.make() if isinstance(x, IterInner) else x

    if form == "flat_map":
        op = ops.flat_map(lab.fn("mapper", lambda x: pick(x)))
    elif form == "flat_map_const":
        op = ops.flat_map(inners[case["const"] % n])
    elif form == "flat_map_indexed":
        op = ops.flat_map_indexed(lab.fn("mapper", lambda x, i: pick(x + i)))
    elif form == "concat_map":
        op = ops.concat_map(lab.fn("mapper", lambda x: inners[x % n]))
    else:
        raise HarnessError(form)
    return outer.pipe(op), outer


def _judge(case, op, p, subs, maxc, logs=True):
    """Compare one reference outcome with the real run. Returns None or (clause, message).
    subs: the inner subscriptions attributable to this top-level subscription (logs=True) or all of them (logs=False:
    overlapping top-level subscriptions, only 'every expected inner subscription happened' is required)."""
    bad = compare_union(op, case["inners"], p.events, lambda c: c[1] // 100)
    if bad:
        return bad
    if not logs:
        return subs_cover(op, subs)
    tseq = p.terminal()[3] if p.terminal() else None
    before = [d for d in subs if tseq is None or d["sub_seq"] < tseq]
    got = [(d["src"], d["sub"]) for d in before]
    exp = [(op.arrivals[j]["src"], op.arrivals[j]["sub"]) for j in op.started if case["inners"][op.arrivals[j]["src"]]["kind"] != "iter"]
    if got != exp:
        if sorted(got) == sorted(exp):
            clause = "queue-order" if maxc is not None else "subscription-order"
        elif [x[0] for x in got] == [x[0] for x in exp]:
            clause = "subscribe-tick"
        elif len(got) < len(exp):
            clause = "inner-not-subscribed"
        else:
            clause = "subscribed-set"
        return ("subs:" + clause, f"expected inner (src, tick) {exp} got {got}")
    if maxc is not None:
        m = max_overlap(before)
        if m > maxc:
            return ("subs:max-concurrent-exceeded", f"{m} inner subscriptions active at once with max_concurrent={maxc}: {[(d['src'], d['sub'], d['unsub']) for d in before]}")
    return None


def _run(case):
    form = case["form"]
    maxc = _maxc(case)
    t0 = case["t0"]
    sec = case.get("second")
    mode2 = t2 = None
    if sec:
        ref = simulate(_outer_spec(case), case["inners"], _resolver(case), t0, "fifo", "merge", maxc, case.get("raise_at"))
        mode2, t2 = second_tick(sec, t0, ref.term[0] if ref.term else None)
    lab = Lab("hist", tick_s=0.001) if case.get("clock") == "hist" else Lab()
    inners = [IterInner(spec, f"i{i}") if spec["kind"] == "iter" else TSource(lab, spec, f"i{i}") for i, spec in enumerate(case["inners"])]
    o, outer = build(case, lab, inners)
    p = lab.probe()
    sch = "lab" if case.get("sched", "lab") == "lab" else None
    lab.expect_sched = sch == "lab"
    if case.get("raise_at") is not None:
        lab.arm = {"mapper": {case["raise_at"]}}
    lab.at(t0, lambda: p.subscribe(o, scheduler=sch))
    p2 = None
    s2 = [None]
    if sec:
        p2 = lab.probe("p2")

        def sub2():
            s2[0] = lab.next_seq()
            p2.subscribe(o, scheduler=sch)

        lab.at(t2, sub2)
    lab.run()
    if lab.inconclusive:
        return SKIP(lab.inconclusive)
    if lab.escaped is not None:
        raise lab.escaped
    who = form
    for q in (p, p2):
        if q is not None:
            ok_g, msg = q.grammar_ok()
            if not ok_g:
                return FAIL(f"grammar|{who}", f"{msg} case={case}")
    subs = all_subs(inners)
    separable = True
    if sec:
        # the log can be attributed per top-level subscription only if the first one was over before the second began
        separable = mode2 == "after" and p.terminal() is not None and p.terminal()[3] < s2[0]
    plan = [(p, t0, [d for d in subs if not sec or not separable or d["sub_seq"] < s2[0]], "" if not sec else ":1st-of-2-subscriptions")]
    if sec:
        plan.append((p2, t2, [d for d in subs if not separable or d["sub_seq"] > s2[0]], ":2nd-subscription"))
    chosen = None
    for q, tq, qsubs, suffix in plan:
        first_bad = None
        got_ok = None
        for pol in POLICIES:
            op = simulate(_outer_spec(case), case["inners"], _resolver(case), tq, pol, "merge", maxc, case.get("raise_at"))
            bad = _judge(case, op, q, qsubs, maxc, logs=separable)
            if bad is None:
                got_ok = (pol, op)
                break
            if first_bad is None:
                first_bad = (bad, op)
        if got_ok is None:
            (clause, msg), op = first_bad
            lost = [x.name for x in inners if x.lost_sched]
            if lost:
                clause = "inner-not-run-on-subscription-scheduler:" + clause
                msg = f"inner(s) {lost} were subscribed without the scheduler the subscription was made with; " + msg
            return FAIL(f"{clause}|{who}{suffix}", f"{msg}; expected trace {exact_trace(op)} got {q.trace()} (subscribed at {tq}) case={case}")
        if chosen is None:
            chosen = got_ok
    pol, op = chosen

    # evidence classes
    cls = [form, "policy:" + pol, "clock:" + case.get("clock", "test")]
    if case.get("raise_at") is not None and op.term is not None and op.term[1] == "E" and str(op.term[2]).startswith("inj:"):
        cls.append("mapper-raises")
        if op.raised_while_busy:
            cls.append("mapper-raises:while-slot-occupied" if maxc is not None else "mapper-raises:while-inner-active")
    it = [op.arrivals[j] for j in op.started if case["inners"][op.arrivals[j]["src"]]["kind"] == "iter"]
    if it:
        cls.append("iter-inner")
        if any(any(m[1] == "E" for m in case["inners"][a["src"]]["tl"]) and any(m[1] == "N" for m in case["inners"][a["src"]]["tl"]) for a in it):
            cls.append("iter-inner:raises-after-items")
    tsrc = [i for i, x in enumerate(op.inners) if x.kind == "subsched" and x.handles]
    if tsrc:
        cls.append("subsched-inner")
        if any(op.arrivals[j]["src"] in tsrc and op.arrivals[j]["sub"] is not None and op.arrivals[j].get("dequeued") for j in op.started):
            cls.append("subsched-inner:started-from-queue")
    ssrc = [x for x in op.inners if x.kind == "subject" and x.handles]
    if ssrc:
        cls.append("subject-inner")
        if any(x.sub_during_own_terminal for x in ssrc):
            cls.append("subject-inner:subscribed-during-its-own-terminal-dispatch")
        if any(x.late_subs for x in ssrc):
            cls.append("subject-inner:late-subscriber-gets-terminal")
    if sec:
        cls.append("2nd-subscription:" + mode2 + ("" if separable or mode2 == "overlap" else "(first-still-running)"))
        if p2.events:
            cls.append("2nd-subscription:saw-events")
    if exact_trace(op) == p.trace():
        cls.append("exact-order")
    started = [op.arrivals[j] for j in op.started]
    overl = 0
    for i, a in enumerate(started):
        for b in started[i + 1 :]:
            ea = a["h"].end if a["h"].end is not None else 10**9
            ea = min(ea, a["h"].term if a["h"].term is not None else 10**9)
            if b["sub"] < ea:
                overl += 1
    queued = getattr(op, "queued_ever", 0)
    if overl:
        cls.append("overlapping-inners")
    if queued:
        cls.append("queued-inner")
    if getattr(op, "sync_dequeue", 0):
        cls.append("dequeued-inner-completes-in-subscribe")
    if getattr(op, "sync_dequeue_after_outer_done", 0):
        cls.append("dequeued-inner-completes-in-subscribe:outer-done+queue-empty")
    if maxc is not None:
        cls.append(f"maxc={maxc}")
        if max_overlap(plan[0][2]) == maxc:
            cls.append("limit-reached")
    if op.term is None:
        cls.append("ends-open")
    else:
        cls.append("ends-" + op.term[1] + (":outer" if op.term[3] == "outer" else (":inner" if op.term[1] == "E" else "")))
        if op.term[1] == "C":
            last_inner = max([a["h"].term for a in started if a["h"].term is not None] or [-1])
            cls.append("C:outer-last" if op.oh.term is not None and op.oh.term >= last_inner else "C:inner-last")
    by_tick = {}
    for t, _, _, j, _ in op.out:
        by_tick.setdefault(t, set()).add(j)
    if any(len(v) > 1 for v in by_tick.values()):
        cls.append("same-instant-different-inners")
    kinds = set(case["inners"][a["src"]]["kind"] for a in started)
    for k in sorted(kinds):
        cls.append("inner:" + k)
    if any(a["h"].term is None for a in started):
        cls.append("inner-never-completes")
    if len(set(a["src"] for a in started)) < len(started):
        cls.append("same-inner-twice")
    nontrivial = (len(started) >= 2 and overl > 0) or queued > 0
    return OK(nontrivial, cls)


# ---------------------------------------------------------------------------------------


_KINDS = ("cold", "cold", "sync", "hot", "subject", "subsched")


def _clock(draw, c):
    if draw(st.integers(0, 4)) == 0:
        c["clock"] = "hist"
    return c


@st.composite
def _cases(draw, forms, big=False):
    inn = draw(inner_specs(max_inners=5, max_len=6, kinds=_KINDS) if big else inner_specs(kinds=_KINDS))
    form = draw(st.sampled_from(forms))
    c = {"form": form, "inners": inn, "t0": draw(st.integers(0, 3))}
    if form in FORMS_NARY:
        k = draw(st.sampled_from([2, 3, 1, 4, 2, 3, 5] if form == "merge_factory" else [2, 3, 1, 4, 2, 3]))
        if form == "merge_factory" and draw(st.integers(0, 19)) == 0:
            k = 0
        c["sel"] = [draw(st.integers(0, len(inn) - 1)) for _ in range(k)]
        c["sched"] = draw(st.sampled_from(["lab", "none"]))
    else:
        c["outer"] = draw_outer(draw, len(inn), max_len=7 if big else 5)
        if form == "merge_mc":
            c["maxc"] = draw(st.sampled_from([1, 2, 2, 3, 1, 4]))
        if form == "flat_map_const":
            c["const"] = draw(st.integers(0, len(inn) - 1))
        if form in ("flat_map", "flat_map_indexed") and draw(st.integers(0, 2)) == 0:
            # the mapper returns a lazy iterable (generator) for some inners: k items, then it raises (or ends)
            for i, spec in enumerate(inn):
                if i == 0 or draw(st.booleans()):
                    k = draw(st.sampled_from([1, 2, 3]))
                    term = draw(st.sampled_from(["E", "E", "E", "C"]))
                    inn[i] = {"kind": "iter", "tl": [[0, "N", f"n:{100 * i + q}"] for q in range(k)] + [[0, term, f"e{i}" if term == "E" else None]]}
        if form in ("flat_map", "flat_map_indexed", "concat_map") and draw(st.integers(0, 4)) == 0:
            c["raise_at"] = draw(st.sampled_from([1, 2, 0, 3]))
            return _clock(draw, c)
    return _clock(draw, draw_second(draw, c))


@st.composite
def _saturated(draw):
    sc = draw(saturated_case())
    form = draw(st.sampled_from(["merge_mc", "concat_map", "merge_mc"]))
    c = {"form": form, "inners": sc["inners"], "t0": draw(st.integers(0, 3)), "outer": sc["outer"]}
    if form == "merge_mc":
        c["maxc"] = sc["maxc"]
    elif draw(st.integers(0, 2)) == 0:
        n_out = sum(1 for m in c["outer"]["tl"] if m[1] == "N")
        c["raise_at"] = draw(st.integers(1, max(1, n_out - 1)))  # the projection raises for a later outer element
        return _clock(draw, c)
    return _clock(draw, draw_second(draw, c))


def checks(tier):
    ex = lambda q: {"quick": q, "thorough": 16 * 10 * q}  # noqa: E731
    sh = {"quick": 4, "thorough": 16}
    big = tier == "thorough"
    return [
        Check("unbounded", _run, strategy=_cases(["merge_all", "flat_map", "flat_map_indexed", "flat_map_const", "merge_all", "flat_map"], big), examples=ex(1600), shards=sh),
        Check("limited", _run, strategy=st.one_of(_cases(["merge_mc", "merge_mc", "concat_map"], big), _saturated()), examples=ex(2000), shards=sh),
        Check("nary", _run, strategy=_cases(FORMS_NARY, big), examples=ex(800), shards=sh),
    ]
