"""C40 Resources and finally-actions are released exactly once; do_* variants are transparent."""
from __future__ import annotations

from hypothesis import strategies as st

import reactivex
from reactivex import abc
from reactivex import operators as ops
from reactivex.disposable import Disposable as _LibDisposable
from reactivex.operators import _do as _do_mod

from vlib.core import FAIL, OK, SKIP, Check, HarnessError
from vlib.lab import Lab, Probe, timelines
from vlib.values import Tagged

PROPERTY_ID = "C40"
LEVEL = "fault_enumeration"
RULE = (
    "Scenario = one logged virtual-time inner source (cold / synchronous / hot, conforming timeline of 0..5 elements ending "
    "in C, E or nothing) wrapped by (a) reactivex.using(resource_factory, observable_factory) with a logging resource whose KIND is generated "
    "(plain DisposableBase object; falsy via __len__==0 like an empty CompositeDisposable; falsy via __bool__; __eq__ always True "
    "(so `r != None` is False) / always False; a subclass of the library's Disposable; list / tuple / dict SUBCLASSES with a "
    "dispose() method, empty (falsy) and non-empty (members are inert disposables using() does not own, never judged); or None): "
    "the oracle is the same for every kind -- 'the resource it created' is whatever object the factory returned, (b) ops.finally_action / _do.do_finally with a logging action, (c) one of do_action (every subset of the three "
    "callbacks), do(observer), fluent .do, do_after_next, do_on_subscribe, do_on_dispose, do_on_terminate, "
    "do_after_terminate; optionally followed by take(n) / repeat(2) / retry(2); 1-2 subscriptions at generated ticks, each "
    "with a dispose point: none, a tick before / exactly at / after the terminal's instant (scheduled before or after the "
    "source's messages of that instant), or from inside the probe's k-th callback. Faults: for every scenario the run first "
    "counts the calls of every fault slot (resource factory, observable factory, each do_* callback) and then re-executes "
    "the scenario once per (slot, call index) with exactly that call raising -- all single-fault positions of the scenario "
    "are enumerated. Oracles: using -> factory called once per subscription, each resource disposed exactly once iff the "
    "subscription terminated or was disposed, at tick min(terminal, disposal), and exactly once at the subscription tick "
    "when the observable factory raised (probe gets on_error(that exception)); finally -> action count 1 per subscription "
    "iff terminated/disposed, at tick min(terminal, disposal), after the terminal event reached the probe; with "
    "repeat/retry: one resource/action per inner subscription and its tick equals that subscription's end; do_* -> probe "
    "trace (ticks, values) equals the trace of the same scenario without the operator, callbacks saw exactly the "
    "notifications of that trace in order; with a raising callback the trace is the bare trace up to that notification "
    "followed by on_error(that exception) at the same tick. Non-trivial: terminal and disposal within one tick of each "
    "other, or a factory/callback fault was injected and reached. Check `teardown`: the same scenarios with something "
    "UPSTREAM of the judged finally_action / do_finally raising from dispose() during teardown (a source whose unsubscribe "
    "raises, an inner finally_action whose action raises, a raising do_on_dispose callback, a using() resource whose "
    "dispose raises); that exception may come out of dispose()/subscribe() or escape into the emitter and is tolerated "
    "(draining continues); the judged action must still run exactly once per terminated/disposed subscription at tick "
    "min(terminal, disposal); non-trivial there: the upstream teardown actually raised. Check `do2`: two subscriptions (generated subscribe ticks and "
    "dispose points each) to ONE application of a do_* operator (do(observer) excluded: the Observer object is user-owned "
    "and stops itself); each subscription's trace equals the bare one, the callbacks saw the notifications of both "
    "subscriptions in global order, and with a single raising callback only the subscription whose notification it was gets "
    "on_error while the other trace is unchanged. Distinct = distinct case JSON."
)
ASSUMPTIONS = [
    "raising teardown: only exceptions raised UPSTREAM of the judged finally operator are injected and judged; a judged finally action that itself raises is not generated (unspecified). For using() a resource left undisposed after its inner subscription's dispose() raised is recorded as a class, not judged (only a double release fails)",
    "finally actions, do_on_subscribe, do_on_dispose and do_after_terminate callbacks do not raise (the property text does not say what happens then)",
    "resource kinds: every generated non-None resource implements DisposableBase.dispose(); container-typed resources (list/tuple/dict subclasses) are legal resources (using() documents `abc.DisposableBase | None`, nothing about the object's other base classes); what happens to the MEMBERS of such a container is not judged",
    "the resource's own dispose() is counted per call (a second call is a violation even though library disposables are idempotent)",
    "do_finally, do_after_next, do_on_* are taken from reactivex.operators._do (they are not exported through reactivex.operators)",
    "inner sources are conforming; sources ignore the scheduler argument and run on the lab's virtual-time scheduler",
]

_DO = {n: getattr(_do_mod, n, None) for n in ("do_after_next", "do_on_subscribe", "do_on_dispose", "do_on_terminate", "do_after_terminate", "do_finally")}


class XProbe(Probe):
    """Probe that also records the seq at which the *effective* dispose started.

    A dispose requested from inside a callback while subscribe() has not returned yet cannot take effect before
    subscribe() returns (the probe has no disposable yet); its start is recorded when it is actually performed."""

    def __init__(self, *a, **kw):
        super().__init__(*a, **kw)
        self.dispose_start_seq = None

    def dispose(self):
        if self.disposable is not None and self.dispose_start_seq is None:
            self.dispose_start_seq = self.lab.next_seq()
        super().dispose()

    def subscribe(self, obs, scheduler="lab"):
        self.sub_tick = self.lab.now()
        sch = self.lab.sched if scheduler == "lab" else scheduler
        d = obs.subscribe(self.on_next, self.on_error, self.on_completed, scheduler=sch)
        self.disposable = d
        if self._pending_dispose:
            self.dispose_start_seq = self.lab.next_seq()
            d.dispose()
            self.disposed_seq = self.lab.next_seq()
        return d


def _probe(lab, name, **kw):
    p = XProbe(lab, name, **kw)
    lab.probes.append(p)
    return p


class Res(abc.DisposableBase):
    def __init__(self, lab, idx):
        self.lab = lab
        self.idx = idx
        self.disposed = []  # [tick, seq]

    def dispose(self):
        self.lab.step()
        self.disposed.append([self.lab.now(), self.lab.next_seq()])


class FalsyRes(Res):
    """A resource that is falsy (like an empty CompositeDisposable, which defines __len__)."""

    def __len__(self):
        return 0


# ---- resource KINDS (round 8): the property says "the resource it created", whatever object the factory returned.
# Every kind below is a DisposableBase with a counting dispose(); they differ in what ELSE the object is.


class BoolFalseRes(Res):
    """Falsy through __bool__ (no __len__)."""

    def __bool__(self):
        return False


class EqTrueRes(Res):
    """Compares equal to everything (also to None): `r != None` is False although r is not None."""

    def __eq__(self, other):
        return True

    __hash__ = object.__hash__


class EqFalseRes(Res):
    """Compares unequal to everything, itself included."""

    def __eq__(self, other):
        return False

    def __ne__(self, other):
        return True

    __hash__ = object.__hash__


class LibRes(_LibDisposable):
    """A subclass of the library's own Disposable (is_disposed flag, action) whose dispose() calls are counted."""

    def __init__(self, lab, idx):
        super().__init__()
        self.lab = lab
        self.idx = idx
        self.disposed = []

    def dispose(self):
        self.lab.step()
        self.disposed.append([self.lab.now(), self.lab.next_seq()])
        super().dispose()


class ListRes(list, Res):
    """A pool written as a list subclass with dispose() (members are inert disposables that using() does not own)."""

    def __init__(self, lab, idx, items=()):
        list.__init__(self, items)
        Res.__init__(self, lab, idx)


class TupleRes(tuple, Res):
    def __new__(cls, lab, idx, items=()):
        return tuple.__new__(cls, items)

    def __init__(self, lab, idx, items=()):
        Res.__init__(self, lab, idx)


class DictRes(dict, Res):
    def __init__(self, lab, idx, items=()):
        dict.__init__(self, items)
        Res.__init__(self, lab, idx)


def _members(lab, n):
    return [Res(lab, -1 - i) for i in range(n)]


_RES_KINDS = {
    "disp": lambda lab, i: Res(lab, i),
    "falsy": lambda lab, i: FalsyRes(lab, i),
    "none": lambda lab, i: None,
    "boolfalse": lambda lab, i: BoolFalseRes(lab, i),
    "eq_true": lambda lab, i: EqTrueRes(lab, i),
    "eq_false": lambda lab, i: EqFalseRes(lab, i),
    "lib": lambda lab, i: LibRes(lab, i),
    "list0": lambda lab, i: ListRes(lab, i),
    "list2": lambda lab, i: ListRes(lab, i, _members(lab, 2)),
    "tuple0": lambda lab, i: TupleRes(lab, i),
    "tuple2": lambda lab, i: TupleRes(lab, i, _members(lab, 2)),
    "dict0": lambda lab, i: DictRes(lab, i),
    "dict1": lambda lab, i: DictRes(lab, i, [("member", _members(lab, 1)[0])]),
}
_RES_NEW = [k for k in _RES_KINDS if k not in ("disp", "falsy", "none")]


# ---------------------------------------------------------------------------------------
# scenario execution


def _post(o, post):
    if post is None:
        return o
    k, n = post
    if k == "take":
        return o.pipe(ops.take(n))
    if k == "repeat":
        return o.pipe(ops.repeat(n))
    if k == "retry":
        return o.pipe(ops.retry(n))
    raise HarnessError(f"post {post}")


def _drive(lab, obs_for, subs):
    """subs: [{"at": tick, "disp": None | ["t", delta, late] | ["cb", k]}]. obs_for(i) -> Observable for probe i."""
    probes = []
    for i, s in enumerate(subs):
        d = s["disp"]
        p = _probe(lab, f"p{i}", dispose_at_cb=(d[1] if d and d[0] == "cb" else None))
        probes.append(p)

        def do_sub(p=p, i=i, d=d, s=s):
            p.subscribe(obs_for(i))
            if d and d[0] == "t" and d[2]:
                lab.at(s["at"] + d[1], p.dispose)

        lab.at(s["at"], do_sub)
        if d and d[0] == "t" and not d[2]:
            lab.at(s["at"] + d[1], p.dispose)
    lab.run()
    return probes


def _end_tick(p):
    """(tick, why) of min(termination seen by the probe, disposal) or (None, None)."""
    t = p.terminal()
    cands = []
    if t is not None:
        cands.append(t[0])
    if p.disposed_tick is not None:
        cands.append(p.disposed_tick)
    return min(cands) if cands else None


def _near(p):
    t = p.terminal()
    return t is not None and p.disposed_tick is not None and abs(t[0] - p.disposed_tick) <= 1


def _classes(probes, case):
    cls = []
    subs = case["subs"] if "subs" in case else [case["sub"]]
    term = [m[0] for m in case["src"]["tl"] if m[1] in ("E", "C")]
    for p, sb in zip(probes, subs):
        p.expect_term = None if not term else term[0] if case["src"]["kind"] == "hot" else term[0] + sb["at"]
        t = p.terminal()
        if t is not None and p.disposed_tick is not None:
            if t[0] == p.disposed_tick:
                cls.append("dispose-at-terminal-instant")
            elif p.disposed_tick < t[0]:
                cls.append("dispose-before-terminal")  # cannot happen: terminal not seen after dispose
            else:
                cls.append("dispose-after-terminal")
        elif p.disposed_tick is not None:
            cls.append("disposed-no-terminal")
            if getattr(p, "expect_term", None) == p.disposed_tick:
                cls.append("dispose-at-terminal-instant-before-it")
        elif t is not None:
            cls.append("terminal-only")
        else:
            cls.append("open")
        if p.dispose_at_cb is not None and p.disposed_tick is not None:
            cls.append("dispose-inside-callback")
    return cls


# ---------------------------------------------------------------------------------------
# (a) using


def _using_world(case, arm):
    lab = Lab()
    lab.arm = {arm[0]: {arm[1]}} if arm else {}
    resources = []  # per rf call that did not raise: Res | None
    of_args_ok = []
    inner = case["src"]
    hot = lab.source(inner) if inner["kind"] == "hot" else None
    made = []

    def rf():
        mk = _RES_KINDS.get(case["res"])
        if mk is None:
            raise HarnessError(f"resource kind {case['res']}")
        r = mk(lab, len(resources))
        resources.append(r)
        return r

    def of(r):
        of_args_ok.append(bool(resources) and r is resources[-1])
        s = hot if hot is not None else lab.source(inner)
        made.append(s)
        return s

    u = reactivex.using(lab.fn("rf", rf), lab.fn("of", of))
    o = _post(u, case.get("post"))
    probes = _drive(lab, lambda i: o, case["subs"])
    return lab, probes, resources, of_args_ok, made


def _using_check(case, arm, w):
    lab, probes, resources, of_ok, made = w
    tag = "using"
    if lab.escaped is not None:
        return FAIL(f"{tag}:escaped:{type(lab.escaped).__name__}", f"{lab.escaped!r} escaped the scheduler; case={case} arm={arm}")
    for p in probes:
        ok, msg = p.grammar_ok()
        if not ok:
            return FAIL(f"{tag}:grammar", f"{msg} case={case} arm={arm}")
    if not all(of_ok):
        return FAIL(f"{tag}:factory-arg", f"observable factory did not receive the resource just created; case={case}")
    post = case.get("post")
    nsub = len(probes)
    rf_calls = [e for e in lab.cb_log if e[2] == "rf"]
    of_calls = [e for e in lab.cb_log if e[2] == "of"]
    if post is None or post[0] == "take":
        if post is not None and post[1] == 0:
            return None  # take(0) never subscribes upstream; nothing to check
        # one using-subscription per probe, in subscription order
        if len(rf_calls) != nsub:
            return FAIL(f"{tag}:factory-count", f"resource factory called {len(rf_calls)} times for {nsub} subscriptions; case={case} arm={arm}")
        order = sorted(range(nsub), key=lambda i: (case["subs"][i]["at"], i))
        ri = 0
        for call_i, pi in enumerate(order):
            p = probes[pi]
            sub_tick = case["subs"][pi]["at"]
            if rf_calls[call_i][0] != sub_tick:
                return FAIL(f"{tag}:factory-time", f"resource factory call {call_i} at {rf_calls[call_i][0]} expected {sub_tick}; case={case}")
            if arm and arm[0] == "rf" and arm[1] == call_i:
                exp = [[sub_tick, "E", ["exc", f"inj:rf:{call_i}"]]]
                if p.trace() != exp and not (p.trace() == [] and p.disposed_tick == sub_tick):
                    return FAIL(f"{tag}:rf-fault-trace", f"got {p.trace()} expected {exp}; case={case} arm={arm}")
                continue
            r = resources[ri]
            ri += 1
            of_idx = ri - 1
            faulted_of = bool(arm and arm[0] == "of" and arm[1] == of_idx)
            if faulted_of:
                exp = [[sub_tick, "E", ["exc", f"inj:of:{of_idx}"]]]
                if p.trace() != exp and not (p.trace() == [] and p.disposed_tick == sub_tick):
                    return FAIL(f"{tag}:of-fault-trace", f"got {p.trace()} expected {exp}; case={case} arm={arm}")
                if r is not None and [d[0] for d in r.disposed] != [sub_tick]:
                    return FAIL(f"{tag}:of-fault-resource", f"observable factory raised at {sub_tick}; resource disposals {r.disposed} (expected exactly one at {sub_tick}); case={case} arm={arm}")
                continue
            if r is None:
                continue
            end = _end_tick(p)
            got = [d[0] for d in r.disposed]
            if end is None:
                if got:
                    return FAIL(f"{tag}:released-while-open", f"subscription {pi} neither terminated nor disposed but resource disposed at {got}; case={case}")
            else:
                if len(got) != 1:
                    return FAIL(f"{tag}:release-count", f"subscription {pi}: resource disposed {len(got)} times ({got}), expected once at {end}; case={case} arm={arm}")
                if got[0] != end:
                    return FAIL(f"{tag}:release-time", f"subscription {pi}: resource disposed at {got[0]}, expected min(terminal, disposal)={end}; case={case} arm={arm}")
        if len(of_calls) != ri:
            return FAIL(f"{tag}:of-count", f"observable factory called {len(of_calls)} times, expected {ri}; case={case} arm={arm}")
    else:
        # repeat / retry: one resource per inner subscription; lifetime coupled to the inner subscription
        if arm is not None:
            # faults under resubscription: only the count rule
            for r in resources:
                if r is not None and len(r.disposed) > 1:
                    return FAIL(f"{tag}:release-count", f"resource disposed {len(r.disposed)} times; case={case} arm={arm}")
            return None
        ends = []
        for s in _distinct(made):
            ends.extend(s.subs)
        if len(resources) != len(ends):
            return FAIL(f"{tag}:resub-count", f"{len(resources)} resources for {len(ends)} inner subscriptions; case={case}")
        if case["res"] != "none":
            exp = sorted(e[1] for e in ends if e[1] is not None)
            for r in resources:
                if len(r.disposed) > 1:
                    return FAIL(f"{tag}:release-count", f"resource disposed {len(r.disposed)} times; case={case}")
            got = sorted(r.disposed[0][0] for r in resources if r.disposed)
            if got != exp:
                return FAIL(f"{tag}:resub-release-time", f"resource disposals at {got}, inner subscriptions ended at {exp}; case={case}")
    return None


def _distinct(xs):
    out = []
    for x in xs:
        if not any(x is y for y in out):
            out.append(x)
    return out


def _run_using(case):
    w0 = _using_world(case, None)
    lab0 = w0[0]
    if lab0.inconclusive:
        return SKIP(lab0.inconclusive)
    r = _using_check(case, None, w0)
    if r is not None:
        return r
    cls = _classes(w0[1], case)
    nt = any(_near(p) for p in w0[1])
    faults = 0
    for slot in ("rf", "of"):
        for k in range(lab0.cb_count.get(slot, 0)):
            w = _using_world(case, (slot, k))
            if w[0].inconclusive:
                continue
            if not w[0].injected:
                return FAIL("using:fault-not-reached", f"harness: armed ({slot},{k}) not raised; case={case}")
            faults += 1
            r = _using_check(case, (slot, k), w)
            if r is not None:
                return r
    if faults:
        cls.append("factory-fault")
        nt = True
    if case["res"] != "disp":
        cls.append("resource-" + case["res"])
    if case.get("post"):
        cls.append("post:" + case["post"][0])
    return OK(nt, cls)


# ---------------------------------------------------------------------------------------
# (b) finally_action / do_finally


def _finally_world(case):
    lab = Lab()
    src_spec = case["src"]
    # one shared observable subscribed 1-2 times; cold/sync sources restart per subscription
    src = lab.source(src_spec)
    act = lab.fn("fin", lambda: None)
    if case["op"] == "finally_action":
        o = src.pipe(ops.finally_action(act))
    elif case["op"] == "finally_fluent":
        o = src.finally_action(act)
    elif case["op"] == "do_finally":
        o = src.pipe(_DO["do_finally"](act))
    else:
        raise HarnessError(case["op"])
    o = _post(o, case.get("post"))
    probes = _drive(lab, lambda i: o, case["subs"])
    return lab, probes, src


def _run_finally(case):
    if case["op"] == "do_finally" and _DO["do_finally"] is None:
        return SKIP("no-do_finally")
    lab, probes, src = _finally_world(case)
    if lab.inconclusive:
        return SKIP(lab.inconclusive)
    tag = case["op"]
    if lab.escaped is not None:
        return FAIL(f"{tag}:escaped:{type(lab.escaped).__name__}", f"{lab.escaped!r}; case={case}")
    for p in probes:
        ok, msg = p.grammar_ok()
        if not ok:
            return FAIL(f"{tag}:grammar", f"{msg} case={case}")
    calls = [e for e in lab.cb_log if e[2] == "fin"]  # [tick, seq, slot, args]
    post = case.get("post")
    cls = _classes(probes, case)
    if post:
        cls.append("post:" + post[0])
    if post is None or post[0] == "take":
        if post is not None and post[1] == 0:
            if calls:
                return FAIL(f"{tag}:action-without-subscription", f"{calls}; case={case}")
            return OK(False, cls)
        exp = []
        for p in probes:
            end = _end_tick(p)
            if end is not None:
                exp.append(end)
        got = sorted(c[0] for c in calls)
        if len(got) != len(exp):
            return FAIL(f"{tag}:action-count", f"action ran {len(got)} times at {got}; expected once per terminated/disposed subscription at {sorted(exp)}; case={case}")
        if got != sorted(exp):
            return FAIL(f"{tag}:action-time", f"action ran at {got}; expected {sorted(exp)} (min(terminal, disposal)); case={case}")
        # ordering: a terminal that reached a probe precedes (by seq) the action of that subscription.
        if len(probes) == 1:
            p = probes[0]
            t = p.terminal()
            if t is not None and calls:
                if (p.dispose_start_seq is None or p.dispose_start_seq > t[3]) and calls[0][1] < t[3]:
                    return FAIL(f"{tag}:action-before-terminal", f"action seq {calls[0][1]} before terminal event seq {t[3]}; case={case}")
            if t is None and p.disposed_seq is not None and calls:
                if not (p.dispose_start_seq < calls[0][1] < p.disposed_seq):
                    return FAIL(f"{tag}:action-not-at-disposal", f"action seq {calls[0][1]} outside dispose() [{p.dispose_start_seq},{p.disposed_seq}]; case={case}")
    else:
        ends = sorted(e[1] for e in src.subs if e[1] is not None)
        nopen = sum(1 for e in src.subs if e[1] is None)
        got = sorted(c[0] for c in calls)
        if got != ends:
            return FAIL(f"{tag}:resub-action", f"action ran at {got}; inner subscriptions ended at {ends} ({nopen} open); case={case}")
    nt = any(_near(p) for p in probes)
    return OK(nt, cls)


# ---------------------------------------------------------------------------------------
# (b') raising teardown: something UPSTREAM of the judged operator raises from dispose()


class BadRes(Res):
    """A resource whose dispose() raises after logging the call."""

    def dispose(self):
        super().dispose()
        raise Tagged(f"teardown:res{self.idx}")


def _tolerated(e):
    return isinstance(e, Tagged) and (e.tag.startswith("teardown:") or e.tag.startswith("inj:up"))


def _drive_tolerant(lab, obs, subs):
    """Like _drive, but the upstream teardown exception may come out of subscribe()/dispose() or escape into the
    emitter (and from there out of scheduler.start()): exactly those exceptions are tolerated and draining continues."""
    probes = []
    seen = []

    def guard(f):
        def g():
            try:
                f()
            except Tagged as e:
                if not _tolerated(e):
                    raise
                seen.append(e.tag)

        return g

    for i, s in enumerate(subs):
        d = s["disp"]
        p = _probe(lab, f"p{i}", dispose_at_cb=(d[1] if d and d[0] == "cb" else None))
        probes.append(p)

        def do_sub(p=p, d=d, s=s):
            if d and d[0] == "t" and d[2]:
                # registered first so that it exists even if subscribe() itself lets the teardown exception out
                pass
            try:
                p.subscribe(obs)
            finally:
                if d and d[0] == "t" and d[2]:
                    lab.at(s["at"] + d[1], guard(p.dispose))

        lab.at(s["at"], guard(do_sub))
        if d and d[0] == "t" and not d[2]:
            lab.at(s["at"] + d[1], guard(p.dispose))
    for _ in range(40):
        lab.run()
        if lab.escaped is not None and _tolerated(lab.escaped) and not lab.inconclusive:
            seen.append(lab.escaped.tag)
            lab.escaped = None
            continue
        break
    return probes, seen


def _teardown_world(case):
    lab = Lab()
    up = case["up"]
    spec = dict(case["src"])
    resources = []
    if up == "bad_src":
        spec["bad_dispose"] = True
    src = lab.source(spec)
    o = src
    if up == "chain":
        lab.arm["up_fin"] = set(range(64))
        o = o.pipe(ops.finally_action(lab.fn("up_fin", lambda: None)))
    elif up == "on_dispose":
        lab.arm["up_on_dispose"] = set(range(64))
        o = _DO["do_on_dispose"](o, lab.fn("up_on_dispose", lambda: None))
    elif up == "using":
        inner = o

        def rf():
            r = BadRes(lab, len(resources))
            resources.append(r)
            return r

        o = reactivex.using(rf, lambda r: inner)
    act = lab.fn("fin", lambda: None)
    j = case["op"]
    if j == "finally_action":
        o = o.pipe(ops.finally_action(act))
    elif j == "finally_fluent":
        o = o.finally_action(act)
    elif j == "do_finally":
        o = o.pipe(_DO["do_finally"](act))
    elif j == "using":
        inner2 = o

        def rf2():
            r = Res(lab, len(resources))
            resources.append(r)
            return r

        o = reactivex.using(rf2, lambda r: inner2)
    else:
        raise HarnessError(j)
    o = _post(o, case.get("post"))
    probes, seen = _drive_tolerant(lab, o, case["subs"])
    return lab, probes, seen, resources


def _run_teardown(case):
    if case["op"] == "do_finally" and _DO["do_finally"] is None or case["up"] == "on_dispose" and _DO["do_on_dispose"] is None:
        return SKIP("no-such-operator")
    lab, probes, seen, resources = _teardown_world(case)
    if lab.inconclusive:
        return SKIP(lab.inconclusive)
    tag = f"teardown:{case['op']}"
    if lab.escaped is not None:
        return FAIL(f"{tag}:escaped:{type(lab.escaped).__name__}", f"{lab.escaped!r} (not the upstream teardown exception) escaped; case={case}")
    post = case.get("post")
    cls = _classes(probes, case) + ["up:" + case["up"]]
    if seen:
        cls.append("teardown-raised")
    if post is not None and post[1] == 0:
        return OK(False, cls)
    exp = sorted(e for e in (_end_tick(p) for p in probes) if e is not None)
    if case["op"] == "using":
        judged = [r for r in resources if not isinstance(r, BadRes)]
        got = sorted(d[0] for r in judged for d in r.disposed)
        per = [len(r.disposed) for r in judged]
        what = "resource disposed"
    else:
        calls = [e for e in lab.cb_log if e[2] == "fin"]
        got = sorted(c[0] for c in calls)
        per = None
        what = "finally action ran"
    if case["op"] == "using" and seen and not any(n > 1 for n in per):
        # using() makes no visible promise for an inner subscription whose dispose() raises (its CompositeDisposable
        # walks its children unprotected): a missed release is recorded, not judged; a double release still fails.
        if len(got) != len(exp):
            cls.append("unjudged:using-resource-not-released-after-raising-inner-teardown")
        return OK(True, cls)
    if len(got) != len(exp) or (per is not None and any(n > 1 for n in per)):
        return FAIL(f"{tag}:count|up={case['up']}", f"{what} {len(got)} times at {got}; expected exactly once per terminated/disposed subscription at {exp} although upstream teardown raised {seen}; case={case}")
    if got != exp:
        return FAIL(f"{tag}:time|up={case['up']}", f"{what} at {got}; expected {exp}; upstream teardown raised {seen}; case={case}")
    return OK(bool(seen), cls)


# ---------------------------------------------------------------------------------------
# (c) do_* family

_DO_VARIANTS = ["do_action", "do_observer", "do_fluent", "do_action_fluent", "do_after_next", "do_on_subscribe", "do_on_dispose", "do_on_terminate", "do_after_terminate"]
_ARMABLE = {"on_next", "on_error", "on_completed", "after_next", "on_terminate"}


def _do_apply(lab, src, case):
    v = case["variant"]
    if v == "bare":
        return src
    m = case.get("mask", [True, True, True])
    n = lab.fn("on_next", lambda x: None) if m[0] else None
    e = lab.fn("on_error", lambda ex: None) if m[1] else None
    c = lab.fn("on_completed", lambda: None) if m[2] else None
    if v == "do_action":
        return src.pipe(ops.do_action(n, e, c))
    if v == "do_action_fluent":
        return src.do_action(on_next=n, on_error=e, on_completed=c)
    if v == "do_fluent":
        return src.do(n, e, c)
    if v == "do_observer":
        return src.pipe(ops.do(reactivex.Observer(n, e, c)))
    f = _DO[v]
    if f is None:
        return None
    slot = v[3:]
    return f(src, lab.fn(slot, lambda *a: None))


def _do_world(case, variant, arm):
    lab = Lab()
    lab.arm = {arm[0]: {arm[1]}} if arm else {}
    src = lab.source(case["src"])
    c2 = dict(case)
    c2["variant"] = variant
    o = _do_apply(lab, src, c2)
    if o is None:
        return None
    o = _post(o, case.get("post"))
    probes = _drive(lab, lambda i: o, [case["sub"]])
    return lab, probes[0], src


def _run_do(case):
    v = case["variant"]
    bare = _do_world(case, "bare", None)
    w = _do_world(case, v, None)
    if w is None:
        return SKIP("no-" + v)
    lab, p, src = w
    blab, bp, bsrc = bare
    if lab.inconclusive or blab.inconclusive:
        return SKIP(lab.inconclusive or blab.inconclusive)
    if blab.escaped is not None:
        raise HarnessError(f"bare world escaped {blab.escaped!r}")
    if lab.escaped is not None:
        return FAIL(f"{v}:escaped:{type(lab.escaped).__name__}", f"{lab.escaped!r}; case={case}")
    B = bp.trace()
    if p.trace() != B:
        return FAIL(f"{v}:trace-changed", f"with operator {p.trace()} != bare {B}; case={case}")
    if src.subs != bsrc.subs:
        return FAIL(f"{v}:subscription-changed", f"source subscriptions {src.subs} != bare {bsrc.subs}; case={case}")
    cls = _classes([p], case)
    mask = case.get("mask", [True, True, True])
    log = lab.cb_log
    Ns = [[e[0], [e[2]]] for e in B if e[1] == "N"]
    Es = [[e[0], [e[2]]] for e in B if e[1] == "E"]
    Cs = [[e[0], []] for e in B if e[1] == "C"]

    def calls(slot):
        return [[e[0], e[3]] for e in log if e[2] == slot]

    if case.get("post") is not None:
        # a downstream take(n) decides what passes the operator; only transparency is judged here
        cls.append("post:" + case["post"][0])
        return OK(_near(p) and len(B) >= 1, cls)
    if v in ("do_action", "do_observer", "do_fluent", "do_action_fluent"):
        for slot, on, exp in (("on_next", mask[0], Ns), ("on_error", mask[1], Es), ("on_completed", mask[2], Cs)):
            if on and calls(slot) != exp:
                return FAIL(f"{v}:callback-saw|{slot}", f"{slot} calls {calls(slot)} expected {exp}; case={case}")
        # order across slots: the callback log must follow the bare trace order
        name = {"N": "on_next", "E": "on_error", "C": "on_completed"}
        on = {"on_next": mask[0], "on_error": mask[1], "on_completed": mask[2]}
        exp_seq = [name[e[1]] for e in B if on[name[e[1]]]]
        seq = [e[2] for e in log]
        if seq != exp_seq:
            return FAIL(f"{v}:callback-order", f"callback order {seq} expected {exp_seq}; case={case}")
    elif v == "do_after_next":
        if calls("after_next") != Ns:
            return FAIL(f"{v}:callback-saw", f"after_next calls {calls('after_next')} expected {Ns}; case={case}")
    elif v in ("do_on_terminate", "do_after_terminate"):
        slot = v[3:]
        exp = [[e[0], []] for e in B if e[1] in ("E", "C")]
        if calls(slot) != exp:
            return FAIL(f"{v}:callback-saw", f"{slot} calls {calls(slot)} expected {exp}; case={case}")
    elif v == "do_on_subscribe":
        exp = [[s[0], []] for s in bsrc.subs]
        if calls("on_subscribe") != exp:
            return FAIL(f"{v}:callback-saw", f"on_subscribe calls {calls('on_subscribe')} expected {exp}; case={case}")
    elif v == "do_on_dispose":
        end = _end_tick(bp)
        exp = [[end, []]] if end is not None else []
        if calls("on_dispose") != exp:
            return FAIL(f"{v}:callback-saw", f"on_dispose calls {calls('on_dispose')} expected {exp}; case={case}")
    # ---- single-fault enumeration over every armable callback position
    faults = 0
    for slot in sorted(lab.cb_count):
        if slot not in _ARMABLE:
            continue
        for k in range(lab.cb_count[slot]):
            fw = _do_world(case, v, (slot, k))
            flab, fp, fsrc = fw
            if flab.inconclusive:
                continue
            if not flab.injected:
                return FAIL(f"{v}:fault-not-reached", f"harness: armed ({slot},{k}) did not raise; case={case}")
            faults += 1
            if flab.escaped is not None:
                return FAIL(f"{v}:fault-escaped|{slot}", f"{flab.escaped!r} escaped the scheduler instead of on_error; case={case} arm={[slot, k]}")
            # index in B of the notification whose callback raised
            if slot in ("on_next", "after_next"):
                idxs = [i for i, e in enumerate(B) if e[1] == "N"]
            elif slot == "on_error":
                idxs = [i for i, e in enumerate(B) if e[1] == "E"]
            elif slot == "on_completed":
                idxs = [i for i, e in enumerate(B) if e[1] == "C"]
            else:
                idxs = [i for i, e in enumerate(B) if e[1] in ("E", "C")]
            if k >= len(idxs):
                raise HarnessError(f"position ({slot},{k}) has no notification in bare trace {B}")
            j = idxs[k]
            raise_seq = [e[1] for e in flab.cb_log if e[2] == slot][k]
            exp = B[: j + 1] if slot == "after_next" else B[:j]
            exp = [list(e) for e in exp]
            if fp.dispose_start_seq is None or fp.dispose_start_seq > raise_seq:
                exp.append([B[j][0], "E", ["exc", f"inj:{slot}:{k}"]])
            if fp.trace() != exp:
                return FAIL(f"{v}:fault-trace|{slot}", f"callback {slot}#{k} raised: trace {fp.trace()} expected {exp} (bare {B}); case={case}")
            ok, msg = fp.grammar_ok()
            if not ok:
                return FAIL(f"{v}:fault-grammar|{slot}", f"{msg}; case={case} arm={[slot, k]}")
    if faults:
        cls.append("callback-fault")
    nt = _near(p) or faults > 0
    return OK(nt and len(B) >= 1, cls)


# ---------------------------------------------------------------------------------------
# (c') do_* family, two subscriptions to ONE operator application (per-subscription behaviour)


def _do2_world(case, variant, arm):
    lab = Lab()
    lab.arm = {arm[0]: {arm[1]}} if arm else {}
    src = lab.source(case["src"])
    c2 = dict(case)
    c2["variant"] = variant
    o = _do_apply(lab, src, c2)
    if o is None:
        return None
    probes = _drive(lab, lambda i: o, case["subs"])
    return lab, probes, src


def _run_do2(case):
    v = case["variant"]
    w = _do2_world(case, v, None)
    if w is None:
        return SKIP("no-" + v)
    blab, bps, bsrc = _do2_world(case, "bare", None)
    lab, ps, src = w
    if lab.inconclusive or blab.inconclusive:
        return SKIP(lab.inconclusive or blab.inconclusive)
    if blab.escaped is not None:
        raise HarnessError(f"bare world escaped {blab.escaped!r}")
    tag = v + ":2subs"
    if lab.escaped is not None:
        return FAIL(f"{tag}:escaped:{type(lab.escaped).__name__}", f"{lab.escaped!r}; case={case}")
    Bs = [bp.trace() for bp in bps]
    for i, p in enumerate(ps):
        if p.trace() != Bs[i]:
            return FAIL(f"{tag}:trace-changed", f"subscription {i}: with operator {p.trace()} != bare {Bs[i]}; case={case}")
    if src.subs != bsrc.subs:
        return FAIL(f"{tag}:subscription-changed", f"source subscriptions {src.subs} != bare {bsrc.subs}; case={case}")
    # all notifications of the bare world in global order: [seq, probe index, local index, tick, kind, payload]
    M = sorted([e[3], i, j, e[0], e[1], e[2]] for i, bp in enumerate(bps) for j, e in enumerate(bp.events))
    mask = case.get("mask", [True, True, True])
    log = lab.cb_log

    def calls(slot):
        return [[e[0], e[3]] for e in log if e[2] == slot]

    def want(kinds, with_arg=True):
        return [[m[3], [m[5]] if with_arg and m[4] != "C" else []] for m in M if m[4] in kinds]

    if v in ("do_action", "do_observer", "do_fluent", "do_action_fluent"):
        for slot, on, exp in (("on_next", mask[0], want("N")), ("on_error", mask[1], want("E")), ("on_completed", mask[2], want("C"))):
            if on and calls(slot) != exp:
                return FAIL(f"{tag}:callback-saw|{slot}", f"{slot} calls {calls(slot)} expected {exp}; case={case}")
    elif v == "do_after_next":
        if calls("after_next") != want("N"):
            return FAIL(f"{tag}:callback-saw", f"after_next calls {calls('after_next')} expected {want('N')}; case={case}")
    elif v in ("do_on_terminate", "do_after_terminate"):
        exp = want("EC", with_arg=False)
        if calls(v[3:]) != exp:
            return FAIL(f"{tag}:callback-saw", f"{v[3:]} calls {calls(v[3:])} expected {exp}; case={case}")
    elif v == "do_on_subscribe":
        exp = [[s_[0], []] for s_ in bsrc.subs]
        if calls("on_subscribe") != exp:
            return FAIL(f"{tag}:callback-saw", f"on_subscribe calls {calls('on_subscribe')} expected {exp}; case={case}")
    elif v == "do_on_dispose":
        exp = sorted([_end_tick(bp), []] for bp in bps if _end_tick(bp) is not None)
        if sorted(calls("on_dispose")) != exp:
            return FAIL(f"{tag}:callback-saw", f"on_dispose calls {calls('on_dispose')} expected {exp}; case={case}")
    # single-fault enumeration: the subscription whose notification it was gets on_error, the other one is untouched
    faults = 0
    kinds_of = {"on_next": "N", "after_next": "N", "on_error": "E", "on_completed": "C", "on_terminate": "EC"}
    for slot in sorted(lab.cb_count):
        if slot not in _ARMABLE:
            continue
        targets = [m for m in M if m[4] in kinds_of[slot]]
        for k in range(lab.cb_count[slot]):
            flab, fps, fsrc = _do2_world(case, v, (slot, k))
            if flab.inconclusive:
                continue
            if not flab.injected:
                return FAIL(f"{tag}:fault-not-reached", f"harness: armed ({slot},{k}) did not raise; case={case}")
            if k >= len(targets):
                raise HarnessError(f"position ({slot},{k}) has no notification in the bare world")
            faults += 1
            if flab.escaped is not None:
                return FAIL(f"{tag}:fault-escaped|{slot}", f"{flab.escaped!r} escaped instead of on_error; case={case} arm={[slot, k]}")
            _, pi, j, tick, _, _ = targets[k]
            raise_seq = [e[1] for e in flab.cb_log if e[2] == slot][k]
            for i, fp in enumerate(fps):
                if i != pi:
                    exp = Bs[i]
                else:
                    exp = [list(e) for e in (Bs[i][: j + 1] if slot == "after_next" else Bs[i][:j])]
                    if fp.dispose_start_seq is None or fp.dispose_start_seq > raise_seq:
                        exp.append([tick, "E", ["exc", f"inj:{slot}:{k}"]])
                if fp.trace() != exp:
                    which = "faulted" if i == pi else "other"
                    return FAIL(f"{tag}:fault-trace|{slot}|{which}", f"callback {slot}#{k} raised for subscription {pi}: subscription {i} saw {fp.trace()} expected {exp}; case={case}")
    cls = _classes(ps, case) + ["two-subscriptions"]
    overlap = len(bsrc.subs) == 2 and bsrc.subs[0][1] is not None and bsrc.subs[1][0] <= bsrc.subs[0][1] or (len(bsrc.subs) == 2 and bsrc.subs[0][1] is None)
    if overlap:
        cls.append("subscriptions-overlap")
    if faults:
        cls.append("callback-fault")
    return OK(all(len(b) >= 1 for b in Bs) and len(Bs) == 2, cls)


# ---------------------------------------------------------------------------------------
# strategies

_src = st.fixed_dictionaries(
    {
        "kind": st.sampled_from(["cold", "cold", "sync", "hot"]),
        "tl": timelines(max_len=5, max_dt=3, conforming=True),
    }
)


@st.composite
def _sub(draw, src):
    """A subscription: subscribe tick + dispose point (none | tick offset (+ before/after same-instant messages) | inside k-th callback)."""
    tl = src["tl"]
    at = draw(st.integers(0, 3))
    term = [m[0] for m in tl if m[1] in ("E", "C")]
    T = term[0] if term else (tl[-1][0] if tl else 0)
    mode = draw(st.sampled_from(["none", "t", "t", "t", "cb"]))
    if mode == "none":
        d = None
    elif mode == "t":
        # bias to the terminal's own instant and its neighbours
        delta = draw(st.one_of(st.sampled_from([T, T, max(T - 1, 0), T + 1, 0]), st.integers(0, T + 3)))
        if src["kind"] == "hot":  # hot timelines are absolute: aim at absolute tick `delta`
            delta = max(delta - at, 0)
        d = ["t", delta, draw(st.booleans())]
    else:
        d = ["cb", draw(st.integers(0, len(tl)))]
    return {"at": at, "disp": d}


_post_s = st.one_of(st.none(), st.none(), st.tuples(st.just("take"), st.integers(0, 4)).map(list), st.tuples(st.sampled_from(["repeat", "retry"]), st.integers(1, 2)).map(list))


@st.composite
def _using_cases(draw):
    src = draw(_src)
    post = draw(_post_s)
    n = draw(st.integers(1, 2))
    subs = [draw(_sub(src)) for _ in range(n)]
    if post and post[0] in ("repeat", "retry") and src["kind"] == "sync":
        # bound synchronous resubscription loops: repeat over a sync inner is fine (count bounded), keep as is
        pass
    return {"src": src, "res": draw(st.sampled_from(["disp", "disp", "disp", "falsy", "none", "none"] + _RES_NEW)), "post": post, "subs": subs}


@st.composite
def _finally_cases(draw):
    src = draw(_src)
    post = draw(_post_s)
    n = draw(st.integers(1, 2))
    subs = [draw(_sub(src)) for _ in range(n)]
    return {"op": draw(st.sampled_from(["finally_action", "finally_action", "finally_fluent", "do_finally", "do_finally"])), "src": src, "post": post, "subs": subs}


@st.composite
def _do_cases(draw):
    src = draw(_src)
    v = draw(st.sampled_from(_DO_VARIANTS))
    post = draw(st.one_of(st.none(), st.none(), st.none(), st.tuples(st.just("take"), st.integers(0, 4)).map(list)))
    case = {"variant": v, "src": src, "post": post, "sub": draw(_sub(src))}
    if v in ("do_action", "do_observer", "do_fluent", "do_action_fluent"):
        case["mask"] = draw(st.lists(st.booleans(), min_size=3, max_size=3))
    return case


@st.composite
def _teardown_cases(draw):
    src = draw(_src)
    post = draw(st.one_of(st.none(), st.none(), st.tuples(st.just("take"), st.integers(0, 4)).map(list)))
    n = draw(st.integers(1, 2))
    subs = [draw(_sub(src)) for _ in range(n)]
    return {
        "op": draw(st.sampled_from(["finally_action", "finally_action", "finally_fluent", "do_finally", "using"])),
        "up": draw(st.sampled_from(["bad_src", "chain", "on_dispose", "using"])),
        "src": src,
        "post": post,
        "subs": subs,
    }


@st.composite
def _do2_cases(draw):
    src = draw(_src)
    # do(observer) is excluded: the Observer object is user-owned and stops itself after its first terminal
    v = draw(st.sampled_from([x for x in _DO_VARIANTS if x != "do_observer"]))
    case = {"variant": v, "src": src, "post": None, "subs": [draw(_sub(src)), draw(_sub(src))]}
    if v in ("do_action", "do_observer", "do_fluent", "do_action_fluent"):
        case["mask"] = draw(st.lists(st.booleans(), min_size=3, max_size=3))
    return case


def checks(tier):
    return [
        Check("using", _run_using, strategy=_using_cases(), examples={"quick": 2400, "thorough": 16 * 20000}, shards={"quick": 4, "thorough": 16}),
        Check("finally", _run_finally, strategy=_finally_cases(), examples={"quick": 3000, "thorough": 16 * 20000}, shards={"quick": 4, "thorough": 16}),
        Check("teardown", _run_teardown, strategy=_teardown_cases(), examples={"quick": 1600, "thorough": 16 * 10000}, shards={"quick": 4, "thorough": 16}),
        Check("do2", _run_do2, strategy=_do2_cases(), examples={"quick": 1200, "thorough": 16 * 10000}, shards={"quick": 4, "thorough": 16}),
        Check("do", _run_do, strategy=_do_cases(), examples={"quick": 2400, "thorough": 16 * 20000}, shards={"quick": 4, "thorough": 16}),
    ]
