"""C05 Element-wise operators match their list semantics (closed-form list oracle, virtual time)."""
from __future__ import annotations

from hypothesis import strategies as st

from reactivex import operators as ops

from vlib.core import Check, HarnessError
from vlib.listsem import (
    END,
    ERR,
    N,
    draw_clock,
    draw_count,
    draw_name_or_absent,
    draw_pred,
    draw_resub,
    draw_src,
    draw_sub,
    dval,
    mk_eq,
    mk_key,
    mk_map,
    mk_pred,
    pooled,
    run_case,
)
from vlib.values import HASHABLE_NAMES, NAMES

PROPERTY_ID = "C05"
LEVEL = "exploration"
RULE = (
    "One operator form (uniformly chosen among the 36 forms listed in FORMS: map/filter/take/skip/take_while/skip_while "
    "plain+indexed+inclusive, distinct, distinct_until_changed, pairwise, start_with, default_if_empty, ignore_elements, "
    "take_last, skip_last, take_last_buffer, element_at(+_or_default), find, find_index, starmap (+ no mapper, + starmap_indexed), pluck(+pluck_attr), "
    "materialize, dematerialize) with generated parameters (counts 0..len+3 biased to 0/len-1/len/len+1, hash-based or "
    "truthiness predicates incl. constant ones and a predicate returning the element itself (non-bool, judged by truthiness), optional hash key mappers / key-equality comparers, defaults incl. None "
    "and absent) over one finite timeline of 0..8 (quick) / 0..14 (thorough) elements from the full value domain (half of "
    "the cases from a 1-4 value sub-pool so duplicates and 0/0.0/False clusters are frequent) ending in completion or an "
    "error, delivered by a cold, synchronous-cold or hot (subscribed mid-stream) virtual-time source; plus an exhaustive "
    "enumeration of the count-parameterised forms for n<=4. Oracle: a closed-form Python list computation gives the "
    "expected [(tick, kind, canon(value))]: each output stamped with the tick of the input that determines it, "
    "completion-determined outputs at the completion tick, source errors pass through at their tick and truncate; the "
    "recorded trace must equal it exactly (values by type-tagged canonical form, order, ticks, terminal). "
    "Non-trivial: the expected outputs are non-empty and differ from the input list, or a boundary class (b:*: count "
    "0/=len/>len, constant predicate, short-circuit hit/miss, default used, all-duplicates, notification terminal) is hit. "
    "About one case in eight runs on HistoricalScheduler (datetime clock) instead of TestScheduler. In about a third of the cases (also in the enumeration; hot sources: overlapping or after dispose only) the same built observable is subscribed a second time (after termination, "
    "overlapping at a later tick, or right after disposing the first subscription early: the disposed probe must hold a "
    "prefix of its expected trace containing everything before the dispose tick) and the same oracle, shifted to the "
    "second subscribe tick, is applied to the second probe (signature suffix :2nd-subscription). "
    "Distinct = distinct case JSON."
)
ASSUMPTIONS = [
    "user callbacks are total pure functions (hash-based predicates/keys, tuple-wrapping mappers); a predicate result is judged by truthiness (as the equivalent Python filter/takewhile computation does); comparers are symmetric equivalence relations (no docstring/test fixes the argument order of distinct/distinct_until_changed comparers)",
    "hot sources: events at or before the subscription tick are not part of the input (source created before the subscribing action)",
    "take(0) is expected to complete at the subscription tick; start_with values are expected at the subscription tick",
    "element_at out of range must terminate with an operator-created exception at the completion tick (type not constrained)",
    "pluck only receives dicts containing the key; starmap only receives tuples",
]

COUNT_FORMS = ["take", "skip", "take_last", "skip_last", "take_last_buffer", "element_at", "element_at_or_default"]
FORMS = [
    "map",
    "map_indexed",
    "filter",
    "filter_indexed",
    "take",
    "skip",
    "take_while",
    "take_while_inclusive",
    "take_while_indexed",
    "take_while_indexed_inclusive",
    "skip_while",
    "skip_while_indexed",
    "distinct",
    "distinct_key",
    "distinct_comparer",
    "distinct_until_changed",
    "distinct_until_changed_key",
    "distinct_until_changed_comparer",
    "pairwise",
    "start_with",
    "default_if_empty",
    "ignore_elements",
    "take_last",
    "skip_last",
    "take_last_buffer",
    "element_at",
    "element_at_or_default",
    "find",
    "find_index",
    "starmap",
    "starmap_none",
    "starmap_indexed",
    "pluck",
    "pluck_attr",
    "materialize",
    "dematerialize",
]


def _dflt(a):
    """args["default"] = ["absent"] | ["v", name] -> (has, value)"""
    d = a["default"]
    return (False, None) if d[0] == "absent" else (True, dval(d[1]))


# ---------------------------------------------------------------------------------------
# real operator


def _build(lab, form, a, second):
    if form == "map":
        return ops.map(mk_map(a["f"])) if a["f"] is not None else ops.map()
    if form == "map_indexed":
        return ops.map_indexed(mk_map(a["f"])) if a["f"] is not None else ops.map_indexed()
    if form == "filter":
        return ops.filter(mk_pred(a["p"]))
    if form == "filter_indexed":
        return ops.filter_indexed(mk_pred(a["p"])) if a["p"] is not None else ops.filter_indexed()
    if form == "take":
        return ops.take(a["n"])
    if form == "skip":
        return ops.skip(a["n"])
    if form == "take_while":
        return ops.take_while(mk_pred(a["p"]))
    if form == "take_while_inclusive":
        return ops.take_while(mk_pred(a["p"]), inclusive=True)
    if form == "take_while_indexed":
        return ops.take_while_indexed(mk_pred(a["p"]))
    if form == "take_while_indexed_inclusive":
        return ops.take_while_indexed(mk_pred(a["p"]), inclusive=True)
    if form == "skip_while":
        return ops.skip_while(mk_pred(a["p"]))
    if form == "skip_while_indexed":
        return ops.skip_while_indexed(mk_pred(a["p"]))
    if form == "distinct":
        return ops.distinct()
    if form == "distinct_key":
        return ops.distinct(mk_key(a["key"]))
    if form == "distinct_comparer":
        return ops.distinct(mk_key(a["key"]), mk_eq(a["cmp"]))
    if form == "distinct_until_changed":
        return ops.distinct_until_changed()
    if form == "distinct_until_changed_key":
        return ops.distinct_until_changed(mk_key(a["key"]))
    if form == "distinct_until_changed_comparer":
        return ops.distinct_until_changed(mk_key(a["key"]), mk_eq(a["cmp"]))
    if form == "pairwise":
        return ops.pairwise()
    if form == "start_with":
        return ops.start_with(*[dval(v) for v in a["vals"]])
    if form == "default_if_empty":
        has, d = _dflt(a)
        return ops.default_if_empty(d) if has else ops.default_if_empty()
    if form == "ignore_elements":
        return ops.ignore_elements()
    if form == "take_last":
        return ops.take_last(a["n"])
    if form == "skip_last":
        return ops.skip_last(a["n"])
    if form == "take_last_buffer":
        return ops.take_last_buffer(a["n"])
    if form == "element_at":
        return ops.element_at(a["n"])
    if form == "element_at_or_default":
        has, d = _dflt(a)
        return ops.element_at_or_default(a["n"], d) if has else ops.element_at_or_default(a["n"])
    if form in ("find", "find_index"):
        p = mk_pred(a["p"])
        if a["use_index"]:
            pred = lambda x, i, src: p(x, i)  # noqa: E731
        else:
            pred = lambda x, i, src: p(x)  # noqa: E731
        return ops.find(pred) if form == "find" else ops.find_index(pred)
    if form == "starmap":
        return ops.starmap(mk_map("tag"))
    if form == "starmap_none":
        return ops.starmap()
    if form == "starmap_indexed":
        return ops.starmap_indexed(mk_map("tag"))
    if form == "pluck":
        return ops.pluck(dval(a["key"]))
    if form == "pluck_attr":
        return ops.pluck_attr("a")
    if form == "materialize":
        return ops.materialize()
    if form == "dematerialize":
        return ops.dematerialize()
    raise HarnessError(f"form {form}")


# ---------------------------------------------------------------------------------------
# list oracle


def _count_class(n, k):
    if k == 0:
        return "b:count=0"
    if k == n:
        return "b:count=len"
    if k > n:
        return "b:count>len"
    return "count<len"


def _oracle(form, a, E, term, S, second):
    """E = [(tick, payload)], term = (tick, "C"|"E", tag). Returns ([expected], classes)."""
    xs = [dval(p) for _, p in E]  # the oracle works on its own fresh copies
    ts = [t for t, _ in E]
    n = len(xs)
    T, tk, _tag = term
    done = END(term)
    cls = []

    def same(vals=None):
        vals = xs if vals is None else vals
        return [N(t, v) for t, v in zip(ts, vals)] + done

    def first_fail(pred):
        for i, x in enumerate(xs):
            if not pred(x, i):
                return i
        return None

    def pred_class(res):
        if n and all(res):
            cls.append("b:pred-all-true")
        elif n and not any(res):
            cls.append("b:pred-all-false")

    if form == "map":
        f = mk_map(a["f"]) or (lambda x: x)
        if a["f"] is None:
            cls.append("b:mapper-absent")
        exp = same([f(x) for x in xs])
    elif form == "map_indexed":
        f = mk_map(a["f"]) or (lambda x, i: x)
        if a["f"] is None:
            cls.append("b:mapper-absent")
        exp = same([f(x, i) for i, x in enumerate(xs)])
    elif form == "filter":
        p = mk_pred(a["p"])
        res = [p(x) for x in xs]
        pred_class(res)
        exp = [N(t, x) for t, x, r in zip(ts, xs, res) if r] + done
    elif form == "filter_indexed":
        p = mk_pred(a["p"]) or (lambda x, i: True)
        if a["p"] is None:
            cls.append("b:pred-absent")
        res = [p(x, i) for i, x in enumerate(xs)]
        pred_class(res)
        exp = [N(t, x) for t, x, r in zip(ts, xs, res) if r] + done
    elif form == "take":
        k = a["n"]
        cls.append(_count_class(n, k))
        if k == 0:
            exp = [(S, "C", None)]
        elif k <= n:
            exp = [N(t, x) for t, x in zip(ts[:k], xs[:k])] + [(ts[k - 1], "C", None)]
        else:
            exp = same()
    elif form == "skip":
        k = a["n"]
        cls.append(_count_class(n, k))
        exp = [N(t, x) for t, x in zip(ts[k:], xs[k:])] + done
    elif form in ("take_while", "take_while_inclusive", "take_while_indexed", "take_while_indexed_inclusive"):
        p = mk_pred(a["p"])
        indexed = "indexed" in form
        k = first_fail((lambda x, i: p(x, i)) if indexed else (lambda x, i: p(x)))
        if k is None:
            cls.append("b:never-fails")
            exp = same()
        else:
            cls.append("b:fails-at-first" if k == 0 else ("b:fails-at-last" if k == n - 1 else "fails-mid"))
            stop = k + 1 if form.endswith("inclusive") else k
            exp = [N(t, x) for t, x in zip(ts[:stop], xs[:stop])] + [(ts[k], "C", None)]
    elif form in ("skip_while", "skip_while_indexed"):
        p = mk_pred(a["p"])
        indexed = "indexed" in form
        k = first_fail((lambda x, i: p(x, i)) if indexed else (lambda x, i: p(x)))
        if k is None:
            cls.append("b:skips-all")
            exp = done
        else:
            cls.append("b:skips-none" if k == 0 else "skips-some")
            exp = [N(t, x) for t, x in zip(ts[k:], xs[k:])] + done
    elif form.startswith("distinct"):
        key = mk_key(a.get("key")) or (lambda x: x)
        eq = mk_eq(a.get("cmp")) or (lambda u, v: u == v)
        until = "until_changed" in form
        seen = []
        out = []
        for t, x in zip(ts, xs):
            kx = key(x)
            if until:
                dup = bool(seen) and bool(eq(seen[-1], kx))
            else:
                dup = any(eq(s, kx) for s in seen)
            if not dup:
                seen.append(kx)
                out.append(N(t, x))
        if n >= 2 and len(out) == 1:
            cls.append("b:all-duplicates")
        elif len(out) < n:
            cls.append("some-duplicates")
        exp = out + done
    elif form == "pairwise":
        exp = [N(ts[i], (xs[i - 1], xs[i])) for i in range(1, n)] + done
        if n == 1:
            cls.append("b:single-element")
    elif form == "start_with":
        vals = [dval(v) for v in a["vals"]]
        if not vals:
            cls.append("b:no-start-values")
        exp = [N(S, v) for v in vals] + same()
    elif form == "default_if_empty":
        has, d = _dflt(a)
        if n == 0 and tk == "C":
            cls.append("b:default-used")
            cls.append("default-absent" if not has else ("default-none" if d is None else "default-value"))
            exp = [N(T, d), (T, "C", None)]
        else:
            exp = same()
    elif form == "ignore_elements":
        exp = done
    elif form == "take_last":
        k = a["n"]
        cls.append(_count_class(n, k))
        exp = [N(T, x) for x in (xs[n - k :] if k < n else xs)] + done if tk == "C" else done
    elif form == "skip_last":
        k = a["n"]
        cls.append(_count_class(n, k))
        exp = [N(ts[i], xs[i - k]) for i in range(k, n)] + done
    elif form == "take_last_buffer":
        k = a["n"]
        cls.append(_count_class(n, k))
        exp = [N(T, list(xs[n - k :] if k < n else xs))] + done if tk == "C" else done
    elif form in ("element_at", "element_at_or_default"):
        k = a["n"]
        cls.append(_count_class(n, k))
        if k < n:
            exp = [N(ts[k], xs[k]), (ts[k], "C", None)]
        elif tk == "E":
            exp = done
        elif form == "element_at":
            cls.append("b:out-of-range")
            exp = [ERR(T, None)]
        else:
            has, d = _dflt(a)
            cls.append("b:default-used")
            cls.append("default-absent" if not has else ("default-none" if d is None else "default-value"))
            exp = [N(T, d), (T, "C", None)]
    elif form in ("find", "find_index"):
        p = mk_pred(a["p"])
        hit = None
        for i, x in enumerate(xs):
            if p(x, i) if a["use_index"] else p(x):
                hit = i
                break
        if hit is not None:
            cls.append("b:hit-first" if hit == 0 else "hit-later")
            exp = [N(ts[hit], xs[hit] if form == "find" else hit), (ts[hit], "C", None)]
        elif tk == "C":
            cls.append("b:miss")
            exp = [N(T, None if form == "find" else -1), (T, "C", None)]
        else:
            exp = done
    elif form in ("starmap", "starmap_indexed"):
        # starmap_indexed: "input already indexed as flat tuples (*values, index)": mapper(*values, index)
        f = mk_map("tag")
        if any(len(x) != 2 for x in xs):
            cls.append("arity!=2")
        exp = same([f(*x) for x in xs])
    elif form == "starmap_none":
        exp = same()
    elif form == "pluck":
        key = dval(a["key"])
        exp = same([x[key] for x in xs])
    elif form == "pluck_attr":
        exp = same([x.a for x in xs])
    elif form == "materialize":
        exp = [(t, "N", ["N", N(t, x)[2]]) for t, x in zip(ts, xs)]
        exp.append((T, "N", ["C"] if tk == "C" else ["E", ["exc", _tag]]))
        exp.append((T, "C", None))
    elif form == "dematerialize":
        exp = []
        ended = False
        for t, p in E:
            if p[0] == "on":
                exp.append(N(t, dval(p[1])))
            elif p[0] == "oe":
                exp.append((t, "E", ["exc", p[1]]))
                cls.append("b:notification-error")
                ended = True
                break
            elif p[0] == "oc":
                exp.append((t, "C", None))
                cls.append("b:notification-completed")
                ended = True
                break
            else:
                raise HarnessError(f"dematerialize payload {p}")
        if not ended:
            exp += done
    else:
        raise HarnessError(f"form {form}")
    return [exp], cls


def _run(case):
    return run_case(case, _build, _oracle)


# ---------------------------------------------------------------------------------------
# generator


def _value_strategy(draw, form):
    if form in ("starmap", "starmap_none"):
        inner = pooled(draw, NAMES)
        return st.lists(inner, min_size=0, max_size=3).map(lambda l: ["tup", l])
    if form == "starmap_indexed":
        inner = pooled(draw, NAMES)
        return st.tuples(st.lists(inner, min_size=0, max_size=3), st.sampled_from(["n:0", "n:1", "n:2", "n:7"])).map(lambda t: ["tup", t[0] + [t[1]]])
    if form == "pluck":
        return None  # needs the key: built in _case
    if form == "pluck_attr":
        return pooled(draw, NAMES).map(lambda v: ["obj", v])
    if form == "dematerialize":
        inner = pooled(draw, NAMES)
        return st.one_of(
            inner.map(lambda v: ["on", v]),
            inner.map(lambda v: ["on", v]),
            inner.map(lambda v: ["on", v]),
            inner.map(lambda v: ["on", v]),
            inner.map(lambda v: ["on", v]),
            st.sampled_from([["oe", "n1"], ["oc"]]),
        )
    return pooled(draw, NAMES)


def _args(draw, form, n):
    if form in ("map", "map_indexed"):
        return {"f": draw(st.sampled_from([None, "tag", "tag", {"m": 3}]))}
    if form == "filter":
        return {"p": draw_pred(draw)}
    if form == "filter_indexed":
        return {"p": draw_pred(draw, allow_none=True)}
    if form in COUNT_FORMS:
        a = {"n": draw_count(draw, n)}
        if form == "element_at_or_default":
            a["default"] = draw_name_or_absent(draw)
        return a
    if form.startswith("take_while") or form.startswith("skip_while"):
        return {"p": draw_pred(draw)}
    if form in ("distinct", "distinct_until_changed"):
        return {}
    if form in ("distinct_key", "distinct_until_changed_key"):
        return {"key": {"m": draw(st.integers(1, 4))}}
    if form in ("distinct_comparer", "distinct_until_changed_comparer"):
        return {"key": draw(st.sampled_from([None, "ident", {"m": 5}])), "cmp": {"m": draw(st.integers(1, 3))}}
    if form == "start_with":
        return {"vals": draw(st.lists(st.sampled_from(NAMES), min_size=0, max_size=3))}
    if form == "default_if_empty":
        return {"default": draw_name_or_absent(draw)}
    if form in ("find", "find_index"):
        return {"p": draw_pred(draw), "use_index": draw(st.booleans())}
    return {}


@st.composite
def _cases(draw, max_len, forms=tuple(FORMS)):
    form = draw(st.sampled_from(list(forms)))
    ml = max_len
    if form == "default_if_empty" and draw(st.integers(0, 1)):
        ml = 0  # the default only matters on empty input
    if form == "pluck":
        key = draw(st.sampled_from(HASHABLE_NAMES))
        inner = pooled(draw, NAMES)
        other = st.sampled_from([k for k in HASHABLE_NAMES if dval(k) != dval(key)])
        vs = st.tuples(inner, st.lists(st.tuples(other, inner), max_size=2)).map(
            lambda t: ["dct", [[key, t[0]]] + [list(kv) for kv in t[1]]]
        )
    else:
        vs = _value_strategy(draw, form)
    src = draw_src(draw, vs, ml)
    n = len(src["tl"]) - 1
    args = _args(draw, form, n)
    if form == "pluck":
        args = {"key": key}
    sub = draw_sub(draw, src)
    case = {"form": form, "args": args, "sub": sub, "src": src}
    rs = draw_resub(draw, src)
    if rs is not None:
        case["resub"] = rs
    ck = draw_clock(draw)
    if ck is not None:
        case["clock"] = ck
    return case


def _enum(tier):
    """Exhaustive: count-parameterised forms, n in 0..4, count in 0..n+1, C/E end, cold and hot(miss 1)."""
    names = ["none", "i0", "false", "i1", "l"]
    for form in COUNT_FORMS:
        for n in range(0, 5):
            for k in range(0, n + 2):
                for end in ("C", "E"):
                    for kind, sub in (("cold", 0), ("sync", 2), ("hot", 0), ("hot", 1)):
                        tl = [[i, "N", names[i]] for i in range(n)] + [[n, end, "e1" if end == "E" else None]]
                        a = {"n": k}
                        if form == "element_at_or_default":
                            a["default"] = ["v", "none"] if (n + k) % 2 else ["absent"]
                        base = {"form": form, "args": a, "sub": sub, "src": {"kind": kind, "tl": tl}}
                        yield base
                        # the same observable subscribed a second time
                        if kind == "cold":
                            for mode, d in (("after", 0), ("overlap", 0), ("overlap", 2), ("dispose", 1), ("dispose", 3)):
                                yield dict(base, resub={"mode": mode, "d": d})
                        elif kind == "hot" and sub == 0 and n >= 1:
                            for mode, d in (("overlap", 0), ("overlap", 1), ("dispose", 2)):
                                yield dict(base, resub={"mode": mode, "d": d})


def checks(tier):
    ml = 8 if tier == "quick" else 14
    return [
        Check("enum-counts", _run, cases=_enum, shards={"quick": 2, "thorough": 2}, exhaustive=True),
        Check(
            "forms",
            _run,
            strategy=_cases(ml),
            examples={"quick": 7000, "thorough": 16 * 50000},
            shards={"quick": 8, "thorough": 16},
        ),
    ]
