"""C14 Early termination cancels synchronous infinite sources."""
from __future__ import annotations

import itertools
import os
import sys
import threading
import time

from hypothesis import strategies as st

import reactivex
from reactivex import operators as ops
from reactivex.scheduler import CurrentThreadScheduler, ImmediateScheduler
from reactivex.subject import Subject

from vlib.core import FAIL, OK, Check, HarnessError, case_hash
from vlib.lab import BudgetExceeded

PROPERTY_ID = "C14"
LEVEL = "exploration"
RULE = (
    "Shapes = infinite synchronous source {from_iterable(counting count()), range(0, 10**15), repeat_value(5), "
    "generate(0, True, +1), of(1).pipe(repeat())} -> 0..3 element-wise operators {map, alternating filter, "
    "filter_indexed, skip(k), do_action, scan, pairwise, map_indexed, default_if_empty, as_observable, take(10**6)} -> "
    "optional wrapper {merge(never) op/fn, flat_map(of) / as inner of flat_map, concat prefix/suffix, switch_map(of) / as "
    "inner of switch_map, share, amb(never) op/fn, with_latest_from(of), combine_latest(of, src) / (src, of), "
    "merge(max_concurrent=k) over from_iterable([finite inners.., src, ..]) with k in {1, 2} and 0-2 finite inners (of(-1) / "
    "empty()) in front of src, so that src is either given a free slot directly or has to wait in merge's queue and is "
    "subscribed later from the on_completed of an earlier inner (classes mc-inner-started-from-queue / -directly)} -> "
    "terminator {take(k), first, first(pred), take_while (incl.), element_at, take_until(subject fired synchronously "
    "at the j-th element / trigger emitting inside subscribe), find, find_index, some, contains, is_empty, first_or_default, "
    "all, element_at_or_default, slice / source[a:b], skip+first, skip_last+take, buffer_with_count+first, "
    "zip_with_iterable(finite)} x "
    "scheduler configuration {default, CurrentThreadScheduler.singleton() | fresh CurrentThreadScheduler() | "
    "ImmediateScheduler() passed to the source factory or to subscribe()}. 'product' enumerates the full product with "
    "one element-wise sample per cell (wrappers include variants whose partner / inner observable is itself a "
    "never-ending counted generate()); 'stacked' enumerates all ordered pairs of two wrappers under the default "
    "scheduler; 'deep' draws random shapes/parameters (optionally two wrappers). Every producer loop iteration pulls from "
    "a counted object (counting iterator, counting generate condition, counting stand-ins for the builtin range and for "
    "internal.utils.infinite inside the library modules); pull number B+1, B = 50*need + 1000 (need = source elements the "
    "terminator needs), raises BudgetExceeded(BaseException). Oracle: subscribe() returns without BudgetExceeded / "
    "RecursionError, the subscriber got on_completed (and the element count the terminator implies), at most "
    "2 pulls happen after the subscriber's terminal, and the pull counter stays frozen after disposing and flushing "
    "the trampolines. For about a quarter of the shapes the SAME pipeline object is subscribed a second and third "
    "time after the previous subscription returned (fresh counter/budget and fresh harness predicates per subscription; "
    "from_iterable gets a re-iterable counting iterable) and each subscription must satisfy the same oracle; a failure "
    "of a later subscription carries the suffix ':2nd-subscription' / ':3rd-subscription'. About a quarter of the shapes "
    "(a third in 'deep') are subscribed on a real worker threading.Thread (fresh thread per subscription, joined; budget "
    "and oracle unchanged, the second look runs on that thread); a failure that does not occur when the same shape is "
    "subscribed on the main thread carries the suffix ':worker-thread-only'. Non-trivial: the terminator needs >= 1 source element. Distinct = distinct case JSON."
)
ASSUMPTIONS = [
    "one thread at a time (main thread or a joined worker thread; no concurrency), real CurrentThread/Immediate schedulers (no virtual time); partner sources (of, never) are finite or silent",
    "scheduler configurations listed as open findings in known_findings.json are excluded by construction except for a thin sample (simple shapes + 1/48) and counted; likewise listed starvation call sites (source|wrapper), sample 1/8",
    "stacks of two wrappers exclude switch_map behind a wrapper that interleaves several never-ending producers (every trampolined inner is legitimately pre-empted, termination is not determined)",
    "a per-case process watchdog (240 one-second wake-ups without progress, then stack dump and os._exit) exists only as a backstop; its trip is a harness error, never a verdict",
    "merge(max_concurrent=k) shapes: the outer observable is a finite from_iterable list without an explicit scheduler; a terminator that is satisfied by the finite inners alone never subscribes the never-ending inner (counted as held, trivial with respect to that inner); the quick product uses every other terminator for these six wrappers and two of them in 'stacked'",
    "'at source' configurations only exist for factories that accept a scheduler (from_iterable, range, the of(1) inside repeat)",
    "RecursionError (escaping or delivered as on_error) counts as unbounded work just like BudgetExceeded",
]

SLACK = 2  # pulls tolerated after the subscriber's terminal notification

# Scheduler configurations whose failure is one root cause each ("the subscription disposable is not assigned before
# emission").  When the maintainer lists such a signature as an *open* finding in known_findings.json the region is
# excluded by construction: only a thin deterministic sample of it (simple shapes + 1/48 of the rest) is still executed,
# the rest is counted under the class "excluded-known-config:<kind>".
CFG_SIG = {
    "immediate": "no-return|immediate-scheduler",
    "ct_fresh": "no-return|fresh-current-thread-scheduler",
}


def _open_known_sigs():
    import json

    p = os.environ.get("VERIF_FINDINGS") or os.path.join(
        os.path.dirname(os.path.dirname(os.path.abspath(__file__))), "known_findings.json"
    )
    try:
        with open(p) as fh:
            fs = json.load(fh).get("findings", [])
    except OSError:
        return set()
    return {f.get("sig") for f in fs if f.get("property") == PROPERTY_ID and f.get("status") == "open" and f.get("sig")}


_OPEN = _open_known_sigs()

SOURCES = ["from_iterable", "range", "repeat_value", "generate", "of_repeat"]
SRC_TAKES_SCHED = {"from_iterable", "range", "of_repeat"}
CONFIGS = [
    "default",
    "ct_singleton@source",
    "ct_singleton@subscribe",
    "ct_fresh@source",
    "ct_fresh@subscribe",
    "immediate@source",
    "immediate@subscribe",
]
WRAPS = [
    None,
    "merge_never",
    "merge_fn",
    "flat_map_of",
    "flat_map_inner",
    "concat_prefix",
    "concat_suffix",
    "switch_map_of",
    "switch_map_inner",
    "share",
    "amb_never",
    "amb_fn",
    "with_latest_from_of",
    "combine_latest_of_first",
    "combine_latest_src_first",
]
# wrappers whose partner / inner observable is itself a never-ending synchronous source (a counted generate(), which
# yields to the trampoline after every element); the statement still demands that subscribe() returns
WRAPS_INF = [
    "merge_inf",
    "flat_map_inf",
    "concat_inf_suffix",
    "switch_map_inf",
    "amb_inf",
    "with_latest_from_inf",
    "combine_latest_inf_first",
    "combine_latest_src_first_inf",
]
# merge(max_concurrent=k) over an outer from_iterable([...inners...]) (the max_concurrent overload has its own code: a
# waiting queue of inner observables that are subscribed later, from the on_completed of an earlier inner).  "S" is the
# never-ending source under test, "of" = of(-1), "empty" = empty().  name -> (k, inners, S is started from the queue)
MC_SHAPES = {
    "merge_mc1_after_empty": (1, ["empty", "S"], True),
    "merge_mc1_after_of": (1, ["of", "S"], True),
    "merge_mc2_after_two": (2, ["of", "empty", "S"], True),
    "merge_mc1_after_two": (1, ["empty", "of", "S", "of"], True),
    "merge_mc2_direct": (2, ["of", "S"], False),
    "merge_mc1_first": (1, ["S", "of"], False),
}
WRAPS_MC = list(MC_SHAPES)
WRAPS_MC_STACKED = ["merge_mc1_after_of", "merge_mc2_after_two"]
EW_SAMPLES = [
    [],
    [["map"]],
    [["filter_alt"], ["map"]],
    [["skip", 2]],
    [["scan"], ["filter_indexed"]],
    [["pairwise"]],
    [["do_action"], ["map_indexed"], ["filter_alt"]],
    [["as_observable"], ["default_if_empty"]],
    [["take", 1000000]],
]
TERMS_QUICK = [
    ["take", 3],
    ["take", 0],
    ["first"],
    ["first_pred", 3],
    ["take_while", 3],
    ["element_at", 2],
    ["take_until_at", 2],
    ["take_until_now"],
    ["find", 2],
    ["some", 2],
    ["contains", 2],
    ["is_empty"],
    ["first_or_default", 2],
    ["all", 2],
    ["slice", 2],
    ["buffer_first", 2],
    ["zip_with_iterable", 2],
]
TERMS_MORE = [
    ["element_at_or_default", 1],
    ["find_index", 2],
    ["getitem", 2],
    ["skip_first", 2],
    ["skip_last_take", 2],["take", 1], ["take_while_incl", 1], ["take_while", 1], ["element_at", 0], ["some_any"], ["take_until_at", 1], ["first_or_default_any"]]


# ---------------------------------------------------------------------------------------
# watchdog (backstop only)

_WD = {"thread": None, "gen": 0, "active": False, "case": None}
_WD_LIMIT = 240  # consecutive 1 s watchdog wake-ups during which one case made no progress


def _wd_loop():
    seen, ticks = -1, 0
    while True:
        time.sleep(1.0)
        # counts wake-ups rather than wall time so that a paused / starved machine does not trip it
        if _WD["active"] and _WD["gen"] == seen:
            ticks += 1
            if ticks > _WD_LIMIT:
                sys.stderr.write(f"HARNESS-ERROR: C14 watchdog: case wedged for >{_WD_LIMIT}s: {_WD['case']}\n")
                sys.stderr.flush()
                try:
                    import faulthandler

                    faulthandler.dump_traceback(file=sys.stderr, all_threads=True)
                except Exception:  # noqa
                    pass
                os._exit(3)
        else:
            seen, ticks = _WD["gen"], 0


def _quiet_unraisable(unraisable):
    # generator finalisers hitting RecursionError while a runaway case unwinds: noise, not a verdict
    try:
        if isinstance(unraisable.exc_value, (RecursionError, BudgetExceeded)):
            return
        sys.__unraisablehook__(unraisable)
    except RecursionError:
        pass


def _wd_enter(case):
    if _WD["thread"] is None:
        sys.unraisablehook = _quiet_unraisable
        t = threading.Thread(target=_wd_loop, daemon=True, name="c14-watchdog")
        _WD["thread"] = t
        t.start()
    _WD["case"] = case
    _WD["gen"] += 1
    _WD["active"] = True


def _wd_leave():
    _WD["active"] = False
    _WD["gen"] += 1


# ---------------------------------------------------------------------------------------
# counting


class Budget:
    def __init__(self, limit):
        self.n = 0
        self.limit = limit
        self.tripped = False

    def pull(self):
        self.n += 1
        if self.n > self.limit:
            self.tripped = True
            raise BudgetExceeded()

    def reset(self):
        self.n = 0
        self.tripped = False


_ARRIVED = [0]  # elements that reached the terminator in the current subscription
_RESETS = []  # reset functions of the harness' own stateful callbacks (cleared per case, run before every subscription)


class CountingCount:
    """Re-iterable infinite iterable: every subscription iterates a fresh counting count()."""

    def __init__(self, bud):
        self.bud = bud

    def __iter__(self):
        return _CountingIter(self.bud, itertools.count())


class _CountingIter:
    """Plain iterator objects (no generators: nothing to finalise while a runaway case unwinds)."""

    def __init__(self, bud, it):
        self.bud = bud
        self.it = it

    def __iter__(self):
        return self

    def __next__(self):
        self.bud.pull()
        return next(self.it)


def _counting_range(bud):
    class CountingRange:
        def __init__(self, *a):
            self.r = range(*a)

        def __iter__(self):
            return _CountingIter(bud, iter(self.r))

    return CountingRange


def _counting_infinite(bud):
    def infinite():
        return _CountingIter(bud, itertools.repeat(0))

    return infinite


class CountingOne:
    """The iterable behind of(1): every (re)iteration is a pull."""

    def __init__(self, bud):
        self.bud = bud

    def __iter__(self):
        self.bud.pull()
        return iter((1,))


def _nth(j):
    """Predicate that is False for its first j-1 calls and True from the j-th call on."""
    c = [0]

    def pred(*a):
        c[0] += 1
        return c[0] >= j

    _RESETS.append(lambda: c.__setitem__(0, 0))
    return pred


class Rec:
    def __init__(self, bud):
        self.bud = bud
        self.ev = []  # [kind, pulls, detail]

    def on_next(self, v):
        self.ev.append(["N", self.bud.n, None])

    def on_error(self, e):
        self.ev.append(["E", self.bud.n, type(e).__name__])

    def on_completed(self):
        self.ev.append(["C", self.bud.n, None])

    def terminal(self):
        for e in self.ev:
            if e[0] != "N":
                return e
        return None


# ---------------------------------------------------------------------------------------
# building


def _schedulers(cfg):
    if cfg == "default":
        return None, None, None
    kind, where = cfg.split("@")
    if kind == "ct_singleton":
        s = CurrentThreadScheduler.singleton()
    elif kind == "ct_fresh":
        s = CurrentThreadScheduler()
    elif kind == "immediate":
        s = ImmediateScheduler()
    else:
        raise HarnessError(f"cfg {cfg}")
    return (s, None, s) if where == "source" else (None, s, s)


def _source(name, bud, sch):
    if name == "from_iterable":
        return reactivex.from_iterable(CountingCount(bud), scheduler=sch)
    if name == "range":
        return reactivex.range(0, 10**15, scheduler=sch)
    if name == "repeat_value":
        return reactivex.repeat_value(5)
    if name == "generate":

        def cond(x):
            bud.pull()
            return True

        return reactivex.generate(0, cond, lambda x: x + 1)
    if name == "of_repeat":
        return reactivex.from_iterable(CountingOne(bud), scheduler=sch).pipe(ops.repeat())
    raise HarnessError(f"source {name}")


def _ew(op):
    k = op[0]
    if k == "map":
        return ops.map(lambda x: (x,))
    if k == "filter_alt":
        c = [0]

        def alt(x):
            c[0] += 1
            return c[0] % 2 == 1

        _RESETS.append(lambda: c.__setitem__(0, 0))
        return ops.filter(alt)
    if k == "filter_indexed":
        return ops.filter_indexed(lambda x, i: i % 2 == 0)
    if k == "skip":
        return ops.skip(op[1])
    if k == "do_action":
        return ops.do_action(lambda x: None)
    if k == "scan":
        return ops.scan(lambda acc, x: acc + 1, 0)
    if k == "pairwise":
        return ops.pairwise()
    if k == "map_indexed":
        return ops.map_indexed(lambda x, i: i)
    if k == "default_if_empty":
        return ops.default_if_empty(-7)
    if k == "as_observable":
        return ops.as_observable()
    if k == "take":
        return ops.take(op[1])
    raise HarnessError(f"ew {op}")


def _need_through(ew, n):
    """Upper bound of source elements needed so that the element-wise chain delivers n elements."""
    if n == 0:
        return 0
    for op in reversed(ew):
        if op[0] in ("filter_alt", "filter_indexed"):
            n = 2 * n
        elif op[0] == "skip":
            n = n + op[1]
        elif op[0] == "pairwise":
            n = n + 1
    return n


def _wrap(name, s, bud=None):
    of, never = reactivex.of, reactivex.never
    if name is None:
        return s

    def inf():
        def cond(x):
            bud.pull()
            return True

        return reactivex.generate(0, cond, lambda x: x + 1)

    if name in MC_SHAPES:
        k, inners, _queued = MC_SHAPES[name]
        items = [s if i == "S" else (of(-1) if i == "of" else reactivex.empty()) for i in inners]
        return reactivex.from_iterable(items).pipe(ops.merge(max_concurrent=k))
    if name == "merge_inf":
        return s.pipe(ops.merge(inf()))
    if name == "flat_map_inf":
        return s.pipe(ops.flat_map(lambda x: inf()))
    if name == "concat_inf_suffix":
        return s.pipe(ops.concat(inf()))
    if name == "switch_map_inf":
        return s.pipe(ops.switch_map(lambda x: inf()))
    if name == "amb_inf":
        return s.pipe(ops.amb(inf()))
    if name == "with_latest_from_inf":
        return s.pipe(ops.with_latest_from(inf()))
    if name == "combine_latest_inf_first":
        return reactivex.combine_latest(inf(), s)
    if name == "combine_latest_src_first_inf":
        return s.pipe(ops.combine_latest(inf()))
    if name == "merge_never":
        return s.pipe(ops.merge(never()))
    if name == "merge_fn":
        return reactivex.merge(never(), s)
    if name == "flat_map_of":
        return s.pipe(ops.flat_map(lambda x: of(x)))
    if name == "flat_map_inner":
        return of(1).pipe(ops.flat_map(lambda _: s))
    if name == "concat_prefix":
        return reactivex.concat(of(-1), s)
    if name == "concat_suffix":
        return s.pipe(ops.concat(of(-1)))
    if name == "switch_map_of":
        return s.pipe(ops.switch_map(lambda x: of(x)))
    if name == "switch_map_inner":
        return of(1).pipe(ops.switch_map(lambda _: s))
    if name == "share":
        return s.pipe(ops.share())
    if name == "amb_never":
        return s.pipe(ops.amb(never()))
    if name == "amb_fn":
        return reactivex.amb(never(), s)
    if name == "with_latest_from_of":
        return s.pipe(ops.with_latest_from(of(7)))
    if name == "combine_latest_of_first":
        return reactivex.combine_latest(of(7), s)
    if name == "combine_latest_src_first":
        return s.pipe(ops.combine_latest(of(7)))
    raise HarnessError(f"wrap {name}")


def _term(t, s):
    """Returns (observable, elements needed from its input, number of elements it emits before completing)."""
    k = t[0]
    a = t[1] if len(t) > 1 else None
    if k == "take":
        return s.pipe(ops.take(a)), a, a
    if k == "first":
        return s.pipe(ops.first()), 1, 1
    if k == "first_pred":
        return s.pipe(ops.first(_nth(a))), a, 1
    if k == "take_while":
        p = _nth(a)
        return s.pipe(ops.take_while(lambda x: not p(x))), a, a - 1
    if k == "take_while_incl":
        p = _nth(a)
        return s.pipe(ops.take_while(lambda x: not p(x), inclusive=True)), a, a
    if k == "element_at":
        return s.pipe(ops.element_at(a)), a + 1, 1
    if k == "take_until_at":
        trig = Subject()
        p = _nth(a)
        c = [False]

        def fire(x):
            if p(x) and not c[0]:
                c[0] = True
                trig.on_next(0)

        _RESETS.append(lambda: c.__setitem__(0, False))

        return s.pipe(ops.do_action(fire), ops.take_until(trig)), a, a - 1
    if k == "take_until_now":

        def sub(o, sch=None):
            o.on_next(0)

        return s.pipe(ops.take_until(reactivex.create(sub))), 0, 0
    if k == "find":
        return s.pipe(ops.find(_nth(a))), a, 1
    if k == "some":
        return s.pipe(ops.some(_nth(a))), a, 1
    if k == "some_any":
        return s.pipe(ops.some()), 1, 1
    if k == "contains":
        return s.pipe(ops.contains(None, comparer=_nth(a))), a, 1
    if k == "is_empty":
        return s.pipe(ops.is_empty()), 1, 1
    if k == "first_or_default":
        return s.pipe(ops.first_or_default(_nth(a), -1)), a, 1
    if k == "first_or_default_any":
        return s.pipe(ops.first_or_default(None, -1)), 1, 1
    if k == "all":
        p = _nth(a)
        return s.pipe(ops.all(lambda x: not p(x))), a, 1
    if k == "element_at_or_default":
        return s.pipe(ops.element_at_or_default(a, -1)), a + 1, 1
    if k == "find_index":
        return s.pipe(ops.find_index(_nth(a))), a, 1
    if k == "slice":
        return s.pipe(ops.slice(1, a + 1)), a + 1, a
    if k == "getitem":
        return s[0:a], a, a
    if k == "skip_first":
        return s.pipe(ops.skip(a), ops.first()), a + 1, 1
    if k == "skip_last_take":
        return s.pipe(ops.skip_last(2), ops.take(a)), a + 2, a
    if k == "buffer_first":
        return s.pipe(ops.buffer_with_count(a), ops.first()), a, 1
    if k == "zip_with_iterable":
        return s.pipe(ops.zip_with_iterable(list(range(a)))), a + 1, a
    raise HarnessError(f"term {t}")


def _term_need(t):
    k = t[0]
    a = t[1] if len(t) > 1 else None
    if k in ("take", "first_pred", "take_while", "take_while_incl", "take_until_at", "find", "some", "contains", "first_or_default", "all"):
        return a
    if k in ("find_index", "getitem", "buffer_first"):
        return a
    if k in ("element_at", "element_at_or_default", "slice", "skip_first", "zip_with_iterable"):
        return a + 1
    if k == "skip_last_take":
        return a + 2
    if k == "take_until_now":
        return 0
    return 1


def _patched_build(case, bud):
    rmod = sys.modules["reactivex.observable.range"]
    pmod = sys.modules["reactivex.operators._repeat"]
    had_range = "range" in rmod.__dict__
    old_inf = pmod.infinite
    rmod.range = _counting_range(bud)
    pmod.infinite = _counting_infinite(bud)
    try:
        src_s, sub_s, explicit = _schedulers(case["cfg"])
        o = _source(case["src"], bud, src_s)
        for op in case["ew"]:
            o = o.pipe(_ew(op))
        o = _wrap(case["wrap"], o, bud)
        o = _wrap(case.get("wrap2"), o, bud)
        # tap in front of the terminator: how many elements actually arrived there (starved vs. terminator at fault)
        del _ARRIVED[:]
        _ARRIVED.append(0)
        arrived = _ARRIVED

        def tap(x):
            arrived[0] += 1

        _RESETS.append(lambda: arrived.__setitem__(0, 0))
        o = o.pipe(ops.do_action(tap))
        o, need, emits = _term(case["term"], o)
        if need != _term_need(case["term"]):
            raise HarnessError(f"need mismatch for {case['term']}")
        return o, sub_s, explicit, emits
    finally:
        if not had_range:
            del rmod.range
        pmod.infinite = old_inf


# ---------------------------------------------------------------------------------------


def _noop(*a):
    return None


def _run(case):
    _wd_enter(case)
    try:
        return _run_inner(case)
    finally:
        _wd_leave()


def _run_inner(case, force=False):
    import reactivex.observable.range  # noqa: F401  (make sure the patched modules are loaded)
    import reactivex.operators._repeat  # noqa: F401

    src, cfg, term = case["src"], case["cfg"], case["term"]
    if cfg.endswith("@source") and src not in SRC_TAKES_SCHED:
        raise HarnessError(f"configuration {cfg} does not exist for source {src}")
    n = _term_need(term)
    kind = cfg.split("@")[0]
    if not force and CFG_SIG.get(kind) in _OPEN and (case["ew"] or case["wrap"] is not None):
        if int(case_hash("c14", case), 16) % 48 != 0:
            return OK(False, [f"excluded-known-config:{kind}"])
    if not force and n >= 1 and (case["ew"] or case.get("wrap2")):
        # call sites of a starvation that is listed as an open finding: excluded by construction in the same way
        # (simple single-wrapper shapes and a 1/8 sample still run, the rest is counted)
        listed = [w for w in (case["wrap"], case.get("wrap2")) if w and f"no-return:starved|{src}|{w}" in _OPEN]
        if listed and int(case_hash("c14", case), 16) % 8 != 0:
            return OK(False, [f"excluded-known-callsite:{src}|{listed[0]}"])
    if case["wrap"] == "concat_prefix":
        n_src = max(0, n - 1)
    else:
        n_src = n
    need = _need_through(case["ew"], n_src)
    bud = Budget(50 * need + 1000)
    del _RESETS[:]
    o, sub_s, explicit, emits = _patched_build(case, bud)
    resets = list(_RESETS)
    resub = int(case.get("resub") or 0)
    cls = [f"src={src}", f"cfg={cfg}", f"wrap={case['wrap']}", f"term={term[0]}", f"ew={len(case['ew'])}", f"resub={resub}"]
    cls.append("thread=" + (case.get("thread") or "main"))
    if case.get("wrap2"):
        cls.append(f"wrap2={case['wrap2']}")
        cls.append("stacked-wrappers")
    if case["wrap"] in WRAPS_INF or case.get("wrap2") in WRAPS_INF:
        cls.append("infinite-partner")
    for w in (case["wrap"], case.get("wrap2")):
        if w in MC_SHAPES:
            cls.append("merge-max-concurrent")
            cls.append("mc-inner-started-from-queue" if MC_SHAPES[w][2] else "mc-inner-started-directly")
    for k in range(1 + resub):
        # the SAME pipeline object is subscribed again after the previous subscription returned; every subscription
        # gets a fresh pull counter / budget and fresh harness predicates, and must satisfy the same oracle
        bud.reset()
        for f in resets:
            f()
        res = _one_subscription(case, o, sub_s, explicit, emits, bud, need, n, cls, k)
        if res is not None:
            return res
    return OK(n >= 1, cls)


_ORD = {1: "2nd", 2: "3rd"}


def _starving_wrapper(case):
    """Call site of a starvation. One wrapper: its name. Two stacked wrappers: found by ablation - the wrapper that
    starves on its own (so a listed single-wrapper call site is recognised inside a stack); 'w1+w2' if only the
    combination starves."""
    w1, w2 = case["wrap"], case.get("wrap2")
    if not w2:
        return w1 or "none"
    alone = []
    for w in (w1, w2):
        sub = dict(case, wrap=w, wrap2=None, resub=0)
        saved = list(_ARRIVED)
        r = _run_inner(sub, force=True)
        _ARRIVED[:] = saved
        if not r.ok and r.sig.startswith("no-return:starved|"):
            alone.append(w)
    return alone[0] if alone else f"{w1}+{w2}"


def _one_subscription(case, o, sub_s, explicit, emits, bud, need, n, cls, k):
    src, cfg, term = case["src"], case["cfg"], case["term"]
    rec = Rec(bud)
    st = {"status": "returned", "frozen": True, "pulls_ret": None, "exc": None}

    def body():
        d = None
        try:
            d = o.subscribe(rec.on_next, rec.on_error, rec.on_completed, scheduler=sub_s)
        except BudgetExceeded:
            st["status"] = "budget"
        except RecursionError:
            st["status"] = "recursion"
        except Exception as e:  # noqa  (re-raised on the calling thread so the runner can classify it)
            st["exc"] = e
            return
        st["pulls_ret"] = bud.n
        if st["status"] != "returned":
            return
        # second look (on the subscribing thread): dispose, flush the trampolines, the counter must not move
        try:
            if d is not None:
                d.dispose()
            CurrentThreadScheduler.singleton().schedule(_noop)
            if explicit is not None:
                explicit.schedule(_noop)
        except BudgetExceeded:
            st["frozen"] = False
        except Exception as e:  # noqa
            st["exc"] = e

    if case.get("thread") == "worker":
        # a real worker thread: the current-thread scheduler is per thread, so the trampoline that subscribe() sets up
        # must be the worker's own.  The budget (raised inside the worker) bounds the thread, the process watchdog
        # backs the join.
        t = threading.Thread(target=body, daemon=True, name="c14-worker")
        t.start()
        t.join()
    else:
        body()
    if st["exc"] is not None:
        raise st["exc"]
    status = st["status"]
    pulls_ret = st["pulls_ret"] if st["pulls_ret"] is not None else bud.n
    termev = rec.terminal()
    n_out = sum(1 for e in rec.ev if e[0] == "N")
    symptom = None
    runaway = False
    if status == "budget":
        runaway = True
        symptom = "budget-exceeded:" + ("after-terminal" if termev else ("starved" if n_out == 0 else "before-terminal"))
    elif status == "recursion":
        runaway = True
        symptom = "recursion-escaped"
    else:
        frozen = st["frozen"]
        if bud.n != pulls_ret:
            frozen = False
        if termev is None:
            symptom = "returned-without-terminal"
        elif termev[0] == "E":
            if termev[2] == "RecursionError":
                runaway = True
                symptom = "recursion-delivered"
            else:
                symptom = "error-terminal:" + termev[2]
        elif pulls_ret - termev[1] > SLACK:
            runaway = True
            symptom = "produced-after-terminal"
        elif not frozen:
            symptom = "not-frozen"
        elif n_out != emits or rec.ev[-1] is not termev:
            symptom = "output-mismatch"
    if symptom is not None and not runaway and bud.n > 2 * need + 10:
        # any other failure that comes with far more production than the terminator needs is the same family:
        # the producer was not stopped by the terminator but by accident (swallowed RecursionError)
        runaway = True
        symptom += "+overrun"
    if symptom is None:
        cls.append(f"post-terminal-pulls={pulls_ret - termev[1]}")
        if k:
            cls.append("resubscription-held")
        return None
    cls.append("symptom=" + symptom)
    detail = (
        f"{symptom} (subscription #{k + 1} of the same pipeline object): pulls={bud.n} budget={bud.limit} need={need} "
        f"outputs={n_out} (expected {emits}) reached-terminator={_ARRIVED[0]} (needs {n}) terminal={termev} "
        f"pulls_at_return={pulls_ret} case={case}"
    )
    if runaway:
        if cfg.startswith("immediate"):
            sig = "no-return|immediate-scheduler"
        elif cfg.startswith("ct_fresh"):
            sig = "no-return|fresh-current-thread-scheduler"
        elif termev is None and n >= 1 and _ARRIVED[0] >= n:
            # every element the terminator needs reached it, yet it never terminated
            sig = f"no-return:terminator-did-not-complete|{term[0]}"
        elif termev is None and n >= 1:
            # the budget ran out before the subscriber got its terminal and fewer elements than needed reached the
            # terminator: it was starved (with a terminal delivered it is the producer that was not cancelled)
            # call-site specific: the wrapper through which the producer starves is part of the root cause, so a listed
            # starvation (e.g. from_iterable under flat_map_of) cannot mask a new one (e.g. under with_latest_from_of)
            sig = f"no-return:starved|{src}|{_starving_wrapper(case)}"
        else:
            sig = f"no-return:not-cancelled|{src}"
    else:
        sig = f"{symptom}|{term[0]}"
    if k and not (runaway and (cfg.startswith("immediate") or cfg.startswith("ct_fresh"))):
        # a later subscription of the same object fails although the first one held: state shared between subscriptions
        sig = f"{sig.split('|')[0]}|{term[0]}:{_ORD.get(k, str(k + 1) + 'th')}-subscription"
    if case.get("thread") == "worker" and not (cfg.startswith("immediate") or cfg.startswith("ct_fresh")):
        # does the same shape hold when subscribed on the main thread?  then the thread is the root cause
        saved = list(_ARRIVED)
        r = _run_inner(dict(case, thread="main"), force=True)
        _ARRIVED[:] = saved
        if r.ok:
            sig += ":worker-thread-only"
    return FAIL(sig, detail, nontrivial=n >= 1, classes=cls)


# ---------------------------------------------------------------------------------------
# cases


def _configs_for(src):
    return [c for c in CONFIGS if not (c.endswith("@source") and src not in SRC_TAKES_SCHED)]


def _product(tier):
    terms = TERMS_QUICK if tier == "quick" else TERMS_QUICK + TERMS_MORE
    idx = 0
    for src in SOURCES:
        for wrap in WRAPS + WRAPS_INF + WRAPS_MC:
            for term in (terms[::2] if tier == "quick" and wrap in MC_SHAPES else terms):
                for cfg in _configs_for(src):
                    ews = [EW_SAMPLES[idx % len(EW_SAMPLES)]] if tier == "quick" else [EW_SAMPLES[idx % len(EW_SAMPLES)], EW_SAMPLES[(idx + 4) % len(EW_SAMPLES)]]
                    for ew in ews:
                        c = {"src": src, "ew": ew, "wrap": wrap, "term": term, "cfg": cfg}
                        if (idx + idx // 4 + idx // 28) % 4 == 0:
                            c["resub"] = 2
                        if (idx + idx // 3 + idx // 21) % 4 == 1:
                            c["thread"] = "worker"
                        yield c
                    idx += 1


# switch_map legitimately discards an inner observable that has not emitted when the next outer element arrives.  Behind a
# wrapper that interleaves two (or ever more) never-ending producers every trampolined inner is pre-empted before it can
# emit, so the terminator legitimately never receives an element: the statement does not determine termination there.
MULTI_PRODUCER = {"merge_inf", "flat_map_inf", "combine_latest_inf_first", "combine_latest_src_first_inf"}


def _stack_ok(w1, w2):
    return not (w2 in ("switch_map_of", "switch_map_inf") and w1 in MULTI_PRODUCER)


def _stacked(tier):
    """Two wrappers applied one after the other (all ordered pairs), default / singleton scheduler."""
    ws = [w for w in WRAPS if w is not None] + WRAPS_INF + (WRAPS_MC_STACKED if tier == "quick" else WRAPS_MC)
    terms = [["take", 3]] if tier == "quick" else [["take", 3], ["first"], ["take_while", 3]]
    cfgs = ["default"] if tier == "quick" else ["default", "ct_singleton@subscribe"]
    idx = 0
    for src in SOURCES:
        for w1 in ws:
            for w2 in ws:
                if not _stack_ok(w1, w2):
                    continue
                for term in terms:
                    for cfg in cfgs:
                        c = {"src": src, "ew": EW_SAMPLES[idx % len(EW_SAMPLES)], "wrap": w1, "wrap2": w2, "term": term, "cfg": cfg}
                        if idx % 5 == 0:
                            c["resub"] = 1
                        if idx % 4 == 2:
                            c["thread"] = "worker"
                        yield c
                        idx += 1


_ew_op = st.one_of(
    st.sampled_from([["map"], ["filter_alt"], ["filter_indexed"], ["do_action"], ["scan"], ["pairwise"], ["map_indexed"], ["default_if_empty"], ["as_observable"]]),
    st.integers(0, 4).map(lambda k: ["skip", k]),
    st.sampled_from([["take", 1000000], ["take", 10**9]]),
)
_TERM_PARAM = {
    "take": (0, 12),
    "element_at": (0, 9),
    "first": None,
    "is_empty": None,
    "some_any": None,
    "take_until_now": None,
    "first_or_default_any": None,
    "first_pred": (1, 9),
    "take_while": (1, 9),
    "take_while_incl": (1, 9),
    "take_until_at": (1, 9),
    "find": (1, 9),
    "some": (1, 9),
    "contains": (1, 9),
    "first_or_default": (1, 9),
    "all": (1, 9),
    "element_at_or_default": (0, 9),
    "find_index": (1, 9),
    "slice": (1, 9),
    "getitem": (1, 9),
    "skip_first": (0, 9),
    "skip_last_take": (1, 9),
    "buffer_first": (1, 9),
    "zip_with_iterable": (1, 9),
}


@st.composite
def _term_s(draw):
    name = draw(st.sampled_from(sorted(_TERM_PARAM)))
    rng = _TERM_PARAM[name]
    if rng is None:
        return [name]
    return [name, draw(st.integers(*rng))]


@st.composite
def _deep(draw):
    src = draw(st.sampled_from(SOURCES))
    cfgs = _configs_for(src)
    weighted = [c for c in cfgs for _ in range(3 if c == "default" else (2 if c.startswith("ct_singleton") else 1))]
    w1 = draw(st.sampled_from(WRAPS + WRAPS_INF + WRAPS_MC))
    w2 = draw(st.sampled_from([None, None] + WRAPS[1:] + WRAPS_INF + WRAPS_MC))
    if w1 is None or not _stack_ok(w1, w2):
        w2 = None
    return {
        "src": src,
        "ew": draw(st.lists(_ew_op, min_size=0, max_size=3)),
        "wrap": w1,
        "wrap2": w2,
        "term": draw(_term_s()),
        "cfg": draw(st.sampled_from(weighted)),
        "resub": draw(st.sampled_from([0, 0, 0, 0, 0, 0, 1, 2])),
        "thread": draw(st.sampled_from(["main", "main", "worker"])),
    }


def checks(tier):
    return [
        Check("product", _run, cases=_product, shards={"quick": 8, "thorough": 16}, exhaustive=True),
        Check("stacked", _run, cases=_stacked, shards={"quick": 8, "thorough": 16}, exhaustive=True),
        Check("deep", _run, strategy=_deep(), examples={"quick": 800, "thorough": 16 * 20000}, shards={"quick": 8, "thorough": 16}),
    ]
