"""C28 Virtual time runs actions in due order on a monotone clock (Engine HIST: command lists vs. explicit model)."""
from __future__ import annotations

from hypothesis import strategies as st

from reactivex.internal import ArgumentOutOfRangeException

from vlib.core import FAIL, OK, SKIP, Check
from vlib.vtsched import TEST_INTERNALS, Inconclusive, VTModel, clock_of, enc_abs, enc_rel, escaped, make

PROPERTY_ID = "C28"
LEVEL = "exploration"
RULE = (
    "Generated command lists (1..25 commands with 3 levels of action nesting quick / 1..120 commands with 4 levels thorough, decoded from a generated list of small integers) executed in lock-step on the real scheduler "
    "(VirtualTimeScheduler(0) with ms-granular - and, as kinds vtsus/histus, microsecond-granular - float/int/timedelta/datetime arguments, TestScheduler with integer ticks "
    "given as int/float/timedelta/datetime, HistoricalScheduler with datetime/timedelta/float arguments and an optional "
    "non-epoch initial clock) and on an explicit model (priority list ordered by (due, insertion seq) + clock). Commands: "
    "schedule / schedule_relative (incl. negative) / schedule_absolute (literal times incl. past and the TestScheduler "
    "harness instants 100/200/1000, or clock+offset), cancel (index modulo the disposables handed out so far), "
    "advance_to (clock+offset: backwards, zero, forwards) / advance_by / sleep (incl. negative) / start / stop; every "
    "action carries a finite program that schedules (through the scheduler handed to it), cancels, stops and makes re-entrant advance_to(now+k)/advance_by(k)/start() calls (k>0; ignored by the running scheduler, modelled as no-ops), cancels its own or an ancestor's handle while running, and may RETURN the handle of an action it scheduled (the scheduler item's handle then owns it: cancelling the parent's handle before, during or after its run cancels the not-yet-run child, transitively), nested to "
    "depth 3. After every command: action log [id, clock at invocation] equals the model's (order = (due, seq); clock at "
    "invocation = max(due, previous clock); cancelled never run; advance_* ran exactly the due set), the clock equals the "
    "model's (target after advance_*/sleep), every observed clock value is >= the previous one, and "
    "ArgumentOutOfRangeException is raised exactly for backwards moves, changing nothing. Cases reaching 90 dequeues at "
    "one clock value are discarded. Check 'long_start': 30..90 groups of 1..6 actions tied at one instant each (some scheduling a child at the current time), 1..3 units apart, optionally made partly past-due by a sleep or split over two start() runs - far more than 100 tie/past-due dequeues in one start() without ever 90 at one instant (same oracle; non-trivial there: > 100 such dequeues in one start()). Non-trivial: >=2 run actions share a due time, or an action scheduled/cancelled "
    "another from inside its body. Distinct = distinct case JSON."
)
ASSUMPTIONS = [
    "actions never sleep (a sleep inside an action under advance_to makes 'leave the clock at the target' and 'clock never "
    "moves backwards' contradict each other); their re-entrant advance_to/advance_by calls target a time after now and, like "
    "a re-entrant start(), are skipped once the same run was stopped by the action (they would then start a nested run)",
    "advance_to(now)/advance_by(0) is a no-op that runs nothing, as asserted by tests/test_scheduler/test_historicalscheduler.py",
    "stop() inside an action ends the current start()/advance_*() after that action; advance_* still leaves the clock at its target",
    "the clock after start() may or may not reflect a trailing dequeued cancelled item (property silent); both accepted",
    "TestScheduler.start() schedules three no-op harness actions at 100/200/1000 - modelled as unlogged entries",
    "time arguments are multiples of 1 ms or of 1 us (VirtualTimeScheduler, HistoricalScheduler) or whole ticks (TestScheduler); values below the 1 us resolution of datetime/timedelta are not explored",
]

ABS_FORMS = ("num", "int", "dt")
REL_FORMS = ("num", "int", "td")


class _World:
    """Shared bookkeeping of one execution (real or model): ids, log, disposables."""

    def __init__(self, kind):
        self.kind = kind
        self.log = []  # [id, clock at invocation]
        self.nid = 0
        self.handles = []
        self.flags = set()
        self.depth = 0
        self.max_depth = 0
        self.stopped_in_run = False
        self.stack = []  # ids of the actions currently running (innermost last)
        self.bodies = []  # per running action: ids of the actions it scheduled so far
        self.parent = {}  # id -> id of the action that scheduled it (None at top level)

    def run_body(self, aid, spec, sched):
        """Executes the action's program; returns the index of the child handle the action returns (or None)."""
        self.log.append([aid, self.clock()])
        self.depth += 1
        self.max_depth = max(self.max_depth, self.depth)
        self.stack.append(aid)
        self.bodies.append([])
        ret = None
        try:
            for op in spec:
                if op[0] == "ret":
                    mine = self.bodies[-1]
                    if mine:
                        ret = mine[op[1] % len(mine)]
                        self.flags.add("returns-child-handle")
                    break
                self.do(op, sched)
        finally:
            self.depth -= 1
            self.stack.pop()
            self.bodies.pop()
        return ret

    def new_id(self):
        aid = self.nid
        self.nid += 1
        self.parent[aid] = self.stack[-1] if self.stack else None
        if self.bodies:
            self.bodies[-1].append(aid)
        return aid

    def do(self, op, sched=None):
        k = op[0]
        if k == "sched":
            if self.depth:
                self.flags.add("nested-schedule")
            self.schedule(op[1], op[2], op[3], op[4], sched)
        elif k == "cancel":
            if self.handles:
                self.cancel_index(op[1] % len(self.handles))
        elif k == "canc":  # cancel the handle of the running action itself (up=0) or of an ancestor in the scheduling tree
            if self.stack:
                target = self.stack[-1]
                for _ in range(op[1]):
                    if self.parent.get(target) is None:
                        break
                    target = self.parent[target]
                self.flags.add("cancel-own-handle-while-running" if target in self.stack else "cancel-ancestor-handle")
                self.cancel_index(target)
        elif k == "stop":
            if self.depth:
                self.flags.add("stop-in-action")
                self.stopped_in_run = True
            self.stop()
        elif k in ("nadv", "nstart"):
            # re-entrant drive call from inside an action.  While the scheduler is running this is a guarded no-op
            # (advance_to: `if self.now == dt or self._is_enabled: return`, start: `if self._is_enabled: return`).
            # After a stop() in the same run it would start a nested run (and may contradict 'clock at target'): skipped.
            if self.depth and not self.stopped_in_run:
                self.flags.add("nested-advance" if k == "nadv" else "nested-start")
                self.nested(op, sched)
        else:
            raise AssertionError(op)


class _Real(_World):
    def __init__(self, kind, init):
        super().__init__(kind)
        self.s = make(kind, init)

    def clock(self):
        return clock_of(self.kind, self.s)

    def schedule(self, mode, t, form, spec, sched=None):
        s = sched if sched is not None else self.s
        aid = self.new_id()

        def action(scheduler, state=None):
            ret = self.run_body(aid, spec, scheduler)
            return None if ret is None else self.handles[ret]  # "return scheduler.schedule(next)" idiom

        if mode == "now":
            d = s.schedule(action)
        elif mode == "rel":
            d = s.schedule_relative(enc_rel(self.kind, t, form if form in REL_FORMS else "num"), action)
        elif mode == "abs":
            d = s.schedule_absolute(enc_abs(self.kind, t, form if form in ABS_FORMS else "num"), action)
        elif mode == "aoff":
            d = s.schedule_absolute(enc_abs(self.kind, max(0, self.clock() + t), form if form in ABS_FORMS else "num"), action)
        else:
            raise AssertionError(mode)
        self.handles.append(d)

    def nested(self, op, sched):
        s = sched if sched is not None else self.s
        if op[0] == "nstart":
            s.start()
        elif op[1] == "to":
            s.advance_to(enc_abs(self.kind, self.clock() + op[2], op[3]))
        else:
            s.advance_by(enc_rel(self.kind, op[2], op[3] if op[3] in REL_FORMS else "num"))

    def cancel_index(self, i):
        self.handles[i].dispose()

    def stop(self):
        self.s.stop()


class _Model(_World):
    def __init__(self, kind, init):
        super().__init__(kind)
        self.m = VTModel(kind, init, spin_limit=90)
        self.due = {}
        self.effective_cancels = 0
        self.dead = set()  # ids cancelled before they ran
        self.past = 0

    def clock(self):
        return self.m.clock

    def schedule(self, mode, t, form, spec, sched=None):
        aid = self.new_id()
        if mode == "now":
            due = self.m.clock
        elif mode == "rel":
            due = self.m.clock + t
        elif mode == "abs":
            due = t
        else:
            due = max(0, self.m.clock + t)
        if due < self.m.clock:
            self.past += 1
        self.due[aid] = due
        self.handles.append(self.m.schedule_absolute(due, (aid, spec)))

    def cancel_index(self, i):
        self._dispose(self.handles[i], False)

    def _dispose(self, e, cascaded):
        """Dispose the handle of entry e.  The handle is a single-assignment holder: it owns the handle the action
        returned (if any) and disposes it with itself; disposing twice is a no-op."""
        if e.cancelled:
            return
        if not e.done:
            self.effective_cancels += 1
            self.flags.add("cancel-from-action" if self.depth else "cancel-top-level")
            if cascaded:
                self.flags.add("cancel-reaches-returned-child")
            self.dead.add(e.payload[0])
        e.cancelled = True
        owned, e.owned = e.owned, None
        if owned is not None:
            self._dispose(owned, True)

    def stop(self):
        self.m.stop()

    def nested(self, op, sched):
        # the running scheduler ignores the call; TestScheduler.start() still queues its three harness actions first
        if op[0] == "nstart" and self.kind == "test":
            for t in TEST_INTERNALS:
                self.m.schedule_absolute(t, None, internal=True)

    def run(self, e):
        aid, spec = e.payload
        ret = self.run_body(aid, spec, None)
        if ret is not None:
            child = self.handles[ret]
            if e.cancelled:  # the item's handle was disposed while (or before) it ran: what it returns is disposed at once
                self.flags.add("handle-disposed-while-running-owns-child")
                self._dispose(child, True)
            else:
                e.owned = child


def _first_diff(a, b):
    for i in range(min(len(a), len(b))):
        if a[i] != b[i]:
            return i
    return min(len(a), len(b)) if len(a) != len(b) else None


def _run(case):
    kind, init, cmds = case["kind"], case.get("init", 0), case["cmds"]
    real = _Real(kind, init)
    model = _Model(kind, init)
    cls = [kind]
    last_clock = real.clock()
    if last_clock != init:
        return FAIL(f"initial-clock|{kind}", f"clock {last_clock} != {init} case={case}")
    forms = set()
    names = set()

    def fail(clause, cmd, msg):
        return FAIL(f"{clause}|{kind}.{cmd[0]}", f"{msg} cmd={cmd} real_log={real.log[-6:]} model_log={model.log[-6:]} case={case}", classes=cls)

    for cmd in cmds:
        k = cmd[0]
        names.add(k)
        raised = False
        real.stopped_in_run = model.stopped_in_run = False
        n_before = len(real.log)
        expect = None
        try:
            if k in ("sched", "cancel", "stop"):
                real.do(cmd)
                model.do(cmd)
                if k == "sched":
                    forms.add(cmd[3])
            elif k == "start":
                real.s.start()
                model.m.start(model.run)
            elif k == "advance_to":
                target = model.m.clock + cmd[1]
                expect = model.m.advance_to(target, model.run)
                forms.add(cmd[2])
                try:
                    real.s.advance_to(enc_abs(kind, target, cmd[2]))
                except ArgumentOutOfRangeException:
                    raised = True
            elif k == "advance_by":
                expect = model.m.advance_to(model.m.clock + cmd[1], model.run)
                forms.add(cmd[2])
                try:
                    real.s.advance_by(enc_rel(kind, cmd[1], cmd[2]))
                except ArgumentOutOfRangeException:
                    raised = True
            elif k == "sleep":
                expect = model.m.sleep(cmd[1])
                forms.add(cmd[2])
                try:
                    real.s.sleep(enc_rel(kind, cmd[1], cmd[2]))
                except ArgumentOutOfRangeException:
                    raised = True
            else:
                raise AssertionError(cmd)
        except Inconclusive:
            return SKIP("spin>=90-at-one-instant")
        except Exception as e:  # noqa: BLE001 - nothing but ArgumentOutOfRangeException may escape a scheduler call
            return escaped(e, f"{kind}.{k}", f"cmd={cmd} case={case}", cls)
        if expect is not None:
            cls_name = {"range": "backwards-raises", "noop": "advance-zero-noop"}.get(expect)
            if cls_name:
                cls.append(cls_name)
            if raised != (expect == "range"):
                return fail("out-of-range", cmd, f"ArgumentOutOfRangeException raised={raised}, expected={expect == 'range'}")
        # --- invariants on the real run alone
        prev = last_clock
        for aid, c in real.log[n_before:]:
            if c < prev:
                return fail("clock-backwards", cmd, f"clock at invocation of action {aid} is {c} after {prev}")
            prev = c
        now = real.clock()
        if now < prev:
            return fail("clock-backwards", cmd, f"clock after command is {now} after {prev}")
        last_clock = now
        # --- agreement with the model
        if real.log != model.log:
            i = _first_diff(real.log, model.log)
            r = real.log[i] if i < len(real.log) else None
            m = model.log[i] if i < len(model.log) else None
            if r is not None and m is not None and r[0] == m[0]:
                clause = "clock-at-invocation"
            elif r is not None and r[0] in model.dead:
                clause = "cancelled-ran"
            elif k in ("advance_to", "advance_by"):
                clause = "advance-due-set"
            elif k == "sleep":
                clause = "sleep-ran-something"
            else:
                clause = "order"
            return fail(clause, cmd, f"log differs at #{i}: real={r} model={m}")
        if now != model.m.clock:
            if k == "start" and now == model.m.clock_lo:
                model.m.clock = now  # trailing cancelled item did not move the clock: also fine
            else:
                return fail("clock-after", cmd, f"clock {now} != model {model.m.clock}")
        if k == "start" and model.m.clock_lo != model.m.clock:
            cls.append("trailing-cancelled-item")
        model.m.clock_lo = model.m.clock

    # classes / non-trivial
    dues = [model.due[aid] for aid, _ in model.log]
    tie = len(set(dues)) < len(dues)
    nested = bool(model.flags & {"nested-schedule", "cancel-from-action"})
    if tie:
        cls.append("tie-same-due")
    if model.past:
        cls.append("past-due-time")
    if model.effective_cancels:
        cls.append("effective-cancel")
    cls.extend(sorted(model.flags))
    if len(forms - {None}) >= 2:
        cls.append("mixed-argument-types")
    for f in sorted(forms - {None}):
        cls.append("form:" + f)
    if sum(1 for c in cmds if c[0] in ("start", "advance_to", "advance_by")) >= 2:
        cls.append("several-runs")
    for n in ("advance_to", "advance_by", "sleep", "start", "stop"):
        if n in names:
            cls.append("cmd:" + n)
    if any(model.handles[aid].done and model.due[aid] < c for aid, c in model.log):
        cls.append("ran-late-at-current-clock")
    if model.m.pending():
        cls.append("left-pending")
    if model.max_depth:
        cls.append(f"action-nesting-levels:{model.max_depth}")
    if kind.endswith("us"):
        cls.append("microsecond-granular-times")
    if model.m.max_not_advancing > 100:
        cls.append("over-100-ties-in-one-start-spread-over-instants")
    if case.get("_long"):
        return OK(model.m.max_not_advancing > 100, cls)
    return OK(bool(model.log) and (tie or nested), cls)


def _expand_long(long):
    """Compact description of a long start() run -> ordinary command list."""
    cmds, t = [], 0
    forms = ("num", "int", "dt")
    for gi, (gap, size, child) in enumerate(long["groups"]):
        t += gap
        for j in range(size):
            spec = [["sched", "now", 0, None, []]] if (child and j == 0) else []
            cmds.append(["sched", "aoff", t, forms[(gi + j) % 3], spec])
        if long.get("split") and gi == long["split"]:
            cmds.append(["start"])  # two start() runs; the second one begins with past-due and future items
            t = 0
    if long.get("sleep"):
        cmds.append(["sleep", long["sleep"], "num"])  # the earliest groups become past-due
    cmds.append(["start"])
    return cmds


def _run_long(case):
    return _run({"kind": case["kind"], "init": case["init"], "cmds": _expand_long(case["long"]), "_long": True})


# ---------------------------------------------------------------------------------------------------------------
# strategy

# A history is decoded from a flat list of small integers (cheap to generate and to shrink: zeros decode to the
# simplest choice, a shorter list to a shorter history).  The decoded, JSON-able command list is the case.
_REL_T = [0, 1, 2, 0, 1, 3, -1, 5, 9, -3, 4, 7, 2, 6, 8, 1]
_ABS_T = [0, 1, 2, 3, 5, 8, 4, 6, 7, 9, 10, 11, 12, 20, 33, 40, 99, 100, 101, 199, 200, 201, 999, 1000, 1001, 15, 25, 3, 2, 1, 0, 5]
_OFF_T = [0, 1, 2, -1, 3, -2, 5, 10, -6, 4, 7, -3, 1, 2, 0, 8]
_NOPS = [0, 1, 0, 2, 1, 3, 0, 2]


class _Bytes:
    def __init__(self, data):
        self.data, self.i = data, 0

    def more(self):
        return self.i < len(self.data)

    def take(self, table=None):
        v = self.data[self.i] if self.i < len(self.data) else 0
        self.i += 1
        return v if table is None else table[v % len(table)]


def _dec_sched(b, depth):
    mode = b.take(["now", "rel", "abs", "aoff"])
    if mode == "now":
        t, form = 0, None
    elif mode == "rel":
        t, form = b.take(_REL_T), b.take(REL_FORMS)
    elif mode == "abs":
        t, form = b.take(_ABS_T), b.take(ABS_FORMS)
    else:
        t, form = b.take(_OFF_T), b.take(ABS_FORMS)
    return ["sched", mode, t, form, _dec_spec(b, depth)]


def _dec_spec(b, depth):
    ops = []
    for _ in range(b.take(_NOPS)):
        k = b.take() % 10
        if k < 3 and depth > 0:
            ops.append(_dec_sched(b, depth - 1))
        elif k < 5:
            ops.append(["cancel", b.take() % 31])
        elif k == 5:
            ops.append(["stop"])
        elif k == 6:
            how = b.take(["to", "by"])
            ops.append(["nadv", how, 1 + b.take() % 6, b.take(ABS_FORMS if how == "to" else REL_FORMS)])
        elif k == 7:
            ops.append(["nstart"])
        else:
            ops.append(["canc", 0 if k == 8 else b.take() % 3])
    if any(op[0] == "sched" for op in ops) and b.take() % 2:
        ops.append(["ret", b.take() % 3])  # the action returns the handle of one of the actions it scheduled
    return ops


def _decode(kind, init, data, max_cmds, depth=2):
    b = _Bytes(data)
    cmds = []
    end = b.take() % 6
    while b.more() and len(cmds) < max_cmds:
        c = b.take() % 16
        if c < 8:
            cmds.append(_dec_sched(b, depth))
        elif c == 8:
            cmds.append(["cancel", b.take() % 31])
        elif c in (9, 10):
            cmds.append(["advance_to", b.take(_OFF_T) if c == 9 else 1 + b.take() % 30, b.take(ABS_FORMS)])
        elif c == 11:
            cmds.append(["advance_by", b.take([0, 1, 2, 3, 4, -1, 6, 12, -2, 8]), b.take(REL_FORMS)])
        elif c == 12:
            cmds.append(["sleep", b.take([0, 1, 2, -1, 3, 8, -2, 5]), b.take(REL_FORMS)])
        elif c in (13, 14):
            cmds.append(["start"])
        else:
            cmds.append(["stop"])
    if end in (1, 2):
        cmds.append(["start"])
    elif end == 3:
        cmds.append(["advance_to", 1 + b.take() % 60, b.take(ABS_FORMS)])
    elif end == 4:
        cmds += [["advance_by", 1 + b.take() % 20, b.take(REL_FORMS)], ["start"]]
    if not cmds:
        cmds = [["start"]]
    return {"kind": kind, "init": init if kind in ("hist", "histus") else 0, "cmds": cmds}


def _cases(max_cmds, depth=2):
    return st.tuples(
        st.sampled_from(["vts", "test", "hist", "vtsus", "histus"]),
        st.sampled_from([0, 0, 5, 86_400_000]),
        st.one_of(
            st.lists(st.integers(0, 255), min_size=2, max_size=40),
            st.lists(st.integers(0, 255), min_size=40, max_size=8 * max_cmds),
            st.lists(st.integers(0, 255), min_size=4 * max_cmds, max_size=8 * max_cmds),
        ),
    ).map(lambda t: _decode(t[0], t[1], t[2], max_cmds, depth))


def _long_cases():
    group = st.tuples(st.integers(1, 3), st.one_of(st.integers(1, 6), st.sampled_from([2, 3, 4])), st.booleans()).map(list)

    def build(kind):
        init = st.just(0) if kind != "hist" else st.sampled_from([0, 0, 5, 86_400_000])
        long = st.fixed_dictionaries(
            {
                "groups": st.lists(group, min_size=30, max_size=90),
                "sleep": st.sampled_from([0, 0, 0, 2, 5]),
                "split": st.one_of(st.none(), st.none(), st.integers(1, 20)),
            }
        )
        return st.fixed_dictionaries({"kind": st.just(kind), "init": init, "long": long})

    return st.sampled_from(["vts", "test", "hist"]).flatmap(build)


def checks(tier):
    return [
        Check(
            "history",
            _run,
            strategy=_cases(25, 2) if tier == "quick" else _cases(120, 3),
            examples={"quick": 6000, "thorough": 16 * 12000},
            shards={"quick": 6, "thorough": 16},
        ),
        Check(
            "long_start",
            _run_long,
            strategy=_long_cases(),
            examples={"quick": 240, "thorough": 16 * 500},
            shards={"quick": 6, "thorough": 16},
        ),
    ]
