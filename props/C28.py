"""C28 Virtual time runs actions in due order on a monotone clock (Engine HIST: command lists vs. explicit model)."""
from __future__ import annotations

from hypothesis import strategies as st

from reactivex.internal import ArgumentOutOfRangeException

from vlib.core import FAIL, OK, SKIP, Check
from vlib.vtsched import Inconclusive, VTModel, clock_of, enc_abs, enc_rel, escaped, make

PROPERTY_ID = "C28"
LEVEL = "exploration"
RULE = (
    "Generated command lists (1..25 quick / 1..60 thorough) executed in lock-step on the real scheduler "
    "(VirtualTimeScheduler(0) with ms-granular float/int/timedelta/datetime arguments, TestScheduler with integer ticks "
    "given as int/float/timedelta/datetime, HistoricalScheduler with datetime/timedelta/float arguments and an optional "
    "non-epoch initial clock) and on an explicit model (priority list ordered by (due, insertion seq) + clock). Commands: "
    "schedule / schedule_relative (incl. negative) / schedule_absolute (literal times incl. past and the TestScheduler "
    "harness instants 100/200/1000, or clock+offset), cancel (index modulo the disposables handed out so far), "
    "advance_to (clock+offset: backwards, zero, forwards) / advance_by / sleep (incl. negative) / start / stop; every "
    "action carries a finite program that schedules (through the scheduler handed to it), cancels and stops, nested to "
    "depth 3. After every command: action log [id, clock at invocation] equals the model's (order = (due, seq); clock at "
    "invocation = max(due, previous clock); cancelled never run; advance_* ran exactly the due set), the clock equals the "
    "model's (target after advance_*/sleep), every observed clock value is >= the previous one, and "
    "ArgumentOutOfRangeException is raised exactly for backwards moves, changing nothing. Cases reaching 90 dequeues at "
    "one clock value are discarded. Non-trivial: >=2 run actions share a due time, or an action scheduled/cancelled "
    "another from inside its body. Distinct = distinct case JSON."
)
ASSUMPTIONS = [
    "actions do not call advance_to/advance_by/sleep/start themselves (only schedule*, cancel, stop); a sleep inside an "
    "action under advance_to makes 'leave the clock at the target' and 'clock never moves backwards' contradict each other",
    "advance_to(now)/advance_by(0) is a no-op that runs nothing, as asserted by tests/test_scheduler/test_historicalscheduler.py",
    "stop() inside an action ends the current start()/advance_*() after that action; advance_* still leaves the clock at its target",
    "the clock after start() may or may not reflect a trailing dequeued cancelled item (property silent); both accepted",
    "TestScheduler.start() schedules three no-op harness actions at 100/200/1000 - modelled as unlogged entries",
    "time arguments are multiples of 1 ms (VirtualTimeScheduler, HistoricalScheduler) or whole ticks (TestScheduler); float rounding below 1 us is not explored",
]

ABS_FORMS = ("num", "int", "dt")
REL_FORMS = ("num", "int", "td")


class _World:
    """Shared bookkeeping of one execution (real or model): ids, log, disposables."""

    def __init__(self, kind):
        self.kind = kind
        self.log = []  # [id, clock at invocation]
        self.nid = 0
        self.handles = []
        self.flags = set()
        self.depth = 0

    def run_body(self, aid, spec, sched):
        self.log.append([aid, self.clock()])
        self.depth += 1
        try:
            for op in spec:
                self.do(op, sched)
        finally:
            self.depth -= 1

    def do(self, op, sched=None):
        k = op[0]
        if k == "sched":
            if self.depth:
                self.flags.add("nested-schedule")
            self.schedule(op[1], op[2], op[3], op[4], sched)
        elif k == "cancel":
            self.cancel(op[1])
        elif k == "stop":
            if self.depth:
                self.flags.add("stop-in-action")
            self.stop()
        else:
            raise AssertionError(op)


class _Real(_World):
    def __init__(self, kind, init):
        super().__init__(kind)
        self.s = make(kind, init)

    def clock(self):
        return clock_of(self.kind, self.s)

    def schedule(self, mode, t, form, spec, sched=None):
        s = sched if sched is not None else self.s
        aid = self.nid
        self.nid += 1

        def action(scheduler, state=None):
            self.run_body(aid, spec, scheduler)

        if mode == "now":
            d = s.schedule(action)
        elif mode == "rel":
            d = s.schedule_relative(enc_rel(self.kind, t, form if form in REL_FORMS else "num"), action)
        elif mode == "abs":
            d = s.schedule_absolute(enc_abs(self.kind, t, form if form in ABS_FORMS else "num"), action)
        elif mode == "aoff":
            d = s.schedule_absolute(enc_abs(self.kind, max(0, self.clock() + t), form if form in ABS_FORMS else "num"), action)
        else:
            raise AssertionError(mode)
        self.handles.append(d)

    def cancel(self, ref):
        if self.handles:
            self.handles[ref % len(self.handles)].dispose()

    def stop(self):
        self.s.stop()


class _Model(_World):
    def __init__(self, kind, init):
        super().__init__(kind)
        self.m = VTModel(kind, init, spin_limit=90)
        self.due = {}
        self.effective_cancels = 0
        self.dead = set()  # ids cancelled before they ran
        self.past = 0

    def clock(self):
        return self.m.clock

    def schedule(self, mode, t, form, spec, sched=None):
        aid = self.nid
        self.nid += 1
        if mode == "now":
            due = self.m.clock
        elif mode == "rel":
            due = self.m.clock + t
        elif mode == "abs":
            due = t
        else:
            due = max(0, self.m.clock + t)
        if due < self.m.clock:
            self.past += 1
        self.due[aid] = due
        self.handles.append(self.m.schedule_absolute(due, (aid, spec)))

    def cancel(self, ref):
        if self.handles:
            e = self.handles[ref % len(self.handles)]
            if not e.done and not e.cancelled:
                self.effective_cancels += 1
                self.flags.add("cancel-from-action" if self.depth else "cancel-top-level")
                self.dead.add(e.payload[0])
            e.cancelled = True

    def stop(self):
        self.m.stop()

    def run(self, e):
        aid, spec = e.payload
        self.run_body(aid, spec, None)


def _first_diff(a, b):
    for i in range(min(len(a), len(b))):
        if a[i] != b[i]:
            return i
    return min(len(a), len(b)) if len(a) != len(b) else None


def _run(case):
    kind, init, cmds = case["kind"], case.get("init", 0), case["cmds"]
    real = _Real(kind, init)
    model = _Model(kind, init)
    cls = [kind]
    last_clock = real.clock()
    if last_clock != init:
        return FAIL(f"initial-clock|{kind}", f"clock {last_clock} != {init} case={case}")
    forms = set()
    names = set()

    def fail(clause, cmd, msg):
        return FAIL(f"{clause}|{kind}.{cmd[0]}", f"{msg} cmd={cmd} real_log={real.log[-6:]} model_log={model.log[-6:]} case={case}", classes=cls)

    for cmd in cmds:
        k = cmd[0]
        names.add(k)
        raised = False
        n_before = len(real.log)
        expect = None
        try:
            if k in ("sched", "cancel", "stop"):
                real.do(cmd)
                model.do(cmd)
                if k == "sched":
                    forms.add(cmd[3])
            elif k == "start":
                real.s.start()
                model.m.start(model.run)
            elif k == "advance_to":
                target = model.m.clock + cmd[1]
                expect = model.m.advance_to(target, model.run)
                forms.add(cmd[2])
                try:
                    real.s.advance_to(enc_abs(kind, target, cmd[2]))
                except ArgumentOutOfRangeException:
                    raised = True
            elif k == "advance_by":
                expect = model.m.advance_to(model.m.clock + cmd[1], model.run)
                forms.add(cmd[2])
                try:
                    real.s.advance_by(enc_rel(kind, cmd[1], cmd[2]))
                except ArgumentOutOfRangeException:
                    raised = True
            elif k == "sleep":
                expect = model.m.sleep(cmd[1])
                forms.add(cmd[2])
                try:
                    real.s.sleep(enc_rel(kind, cmd[1], cmd[2]))
                except ArgumentOutOfRangeException:
                    raised = True
            else:
                raise AssertionError(cmd)
        except Inconclusive:
            return SKIP("spin>=90-at-one-instant")
        except Exception as e:  # noqa: BLE001 - nothing but ArgumentOutOfRangeException may escape a scheduler call
            return escaped(e, f"{kind}.{k}", f"cmd={cmd} case={case}", cls)
        if expect is not None:
            cls_name = {"range": "backwards-raises", "noop": "advance-zero-noop"}.get(expect)
            if cls_name:
                cls.append(cls_name)
            if raised != (expect == "range"):
                return fail("out-of-range", cmd, f"ArgumentOutOfRangeException raised={raised}, expected={expect == 'range'}")
        # --- invariants on the real run alone
        prev = last_clock
        for aid, c in real.log[n_before:]:
            if c < prev:
                return fail("clock-backwards", cmd, f"clock at invocation of action {aid} is {c} after {prev}")
            prev = c
        now = real.clock()
        if now < prev:
            return fail("clock-backwards", cmd, f"clock after command is {now} after {prev}")
        last_clock = now
        # --- agreement with the model
        if real.log != model.log:
            i = _first_diff(real.log, model.log)
            r = real.log[i] if i < len(real.log) else None
            m = model.log[i] if i < len(model.log) else None
            if r is not None and m is not None and r[0] == m[0]:
                clause = "clock-at-invocation"
            elif r is not None and r[0] in model.dead:
                clause = "cancelled-ran"
            elif k in ("advance_to", "advance_by"):
                clause = "advance-due-set"
            elif k == "sleep":
                clause = "sleep-ran-something"
            else:
                clause = "order"
            return fail(clause, cmd, f"log differs at #{i}: real={r} model={m}")
        if now != model.m.clock:
            if k == "start" and now == model.m.clock_lo:
                model.m.clock = now  # trailing cancelled item did not move the clock: also fine
            else:
                return fail("clock-after", cmd, f"clock {now} != model {model.m.clock}")
        if k == "start" and model.m.clock_lo != model.m.clock:
            cls.append("trailing-cancelled-item")
        model.m.clock_lo = model.m.clock

    # classes / non-trivial
    dues = [model.due[aid] for aid, _ in model.log]
    tie = len(set(dues)) < len(dues)
    nested = bool(model.flags & {"nested-schedule", "cancel-from-action"})
    if tie:
        cls.append("tie-same-due")
    if model.past:
        cls.append("past-due-time")
    if model.effective_cancels:
        cls.append("effective-cancel")
    cls.extend(sorted(model.flags))
    if len(forms - {None}) >= 2:
        cls.append("mixed-argument-types")
    for f in sorted(forms - {None}):
        cls.append("form:" + f)
    if sum(1 for c in cmds if c[0] in ("start", "advance_to", "advance_by")) >= 2:
        cls.append("several-runs")
    for n in ("advance_to", "advance_by", "sleep", "start", "stop"):
        if n in names:
            cls.append("cmd:" + n)
    if any(model.handles[aid].done and model.due[aid] < c for aid, c in model.log):
        cls.append("ran-late-at-current-clock")
    if model.m.pending():
        cls.append("left-pending")
    return OK(bool(model.log) and (tie or nested), cls)


# ---------------------------------------------------------------------------------------------------------------
# strategy

_rel_t = st.one_of(st.sampled_from([0, 0, 1, 1, 2, 3]), st.integers(-3, 9))
_abs_t = st.one_of(st.integers(0, 12), st.integers(0, 40), st.sampled_from([99, 100, 101, 199, 200, 201, 999, 1000, 1001]))
_off_t = st.one_of(st.sampled_from([0, 1, 2]), st.integers(-6, 10))


def _sched_op(child):
    return st.one_of(
        st.tuples(st.just("sched"), st.just("now"), st.just(0), st.none(), child),
        st.tuples(st.just("sched"), st.just("rel"), _rel_t, st.sampled_from(REL_FORMS), child),
        st.tuples(st.just("sched"), st.just("abs"), _abs_t, st.sampled_from(ABS_FORMS), child),
        st.tuples(st.just("sched"), st.just("aoff"), _off_t, st.sampled_from(ABS_FORMS), child),
    ).map(list)


_cancel_op = st.tuples(st.just("cancel"), st.integers(0, 30)).map(list)
_stop_op = st.just(["stop"])


def _spec(depth):
    if depth == 0:
        return st.lists(st.one_of(_cancel_op, _cancel_op, _stop_op), max_size=1)
    child = _spec(depth - 1)
    op = st.one_of(_sched_op(child), _sched_op(child), _sched_op(child), _cancel_op, _cancel_op, _stop_op)
    return st.one_of(st.just([]), st.lists(op, max_size=3))


def _cmd():
    spec = _spec(2)
    sched = _sched_op(spec)
    return st.one_of(
        sched, sched, sched, sched, sched, sched,
        _cancel_op,
        st.tuples(st.just("advance_to"), _off_t, st.sampled_from(ABS_FORMS)).map(list),
        st.tuples(st.just("advance_to"), st.integers(1, 30), st.sampled_from(ABS_FORMS)).map(list),
        st.tuples(st.just("advance_by"), st.one_of(st.integers(-2, 12), st.integers(0, 4)), st.sampled_from(REL_FORMS)).map(list),
        st.tuples(st.just("sleep"), st.integers(-2, 8), st.sampled_from(REL_FORMS)).map(list),
        st.just(["start"]),
        st.just(["start"]),
        st.just(["stop"]),
    )


def _cases(max_cmds):
    def build(kind):
        init = st.just(0) if kind != "hist" else st.sampled_from([0, 0, 5, 86_400_000])
        end = st.one_of(
            st.just([]),
            st.just([["start"]]),
            st.just([["start"]]),
            st.tuples(st.just("advance_to"), st.integers(1, 60), st.sampled_from(ABS_FORMS)).map(lambda c: [list(c)]),
            st.tuples(st.just("advance_by"), st.integers(1, 20), st.sampled_from(REL_FORMS)).map(lambda c: [list(c), ["start"]]),
        )
        cmds = st.tuples(st.lists(_cmd(), min_size=1, max_size=max_cmds), end).map(lambda t: t[0] + t[1])
        return st.fixed_dictionaries({"kind": st.just(kind), "init": init, "cmds": cmds})

    return st.sampled_from(["vts", "test", "hist"]).flatmap(build)


def checks(tier):
    return [
        Check(
            "history",
            _run,
            strategy=_cases(25 if tier == "quick" else 60),
            examples={"quick": 3000, "thorough": 16 * 30000},
            shards={"quick": 4, "thorough": 16},
        ),
    ]
