"""C25 A disposable's action runs at most once (HIST models + DET schedules)."""
from __future__ import annotations

from hypothesis import strategies as st

from vlib import disp
from vlib.core import Check

PROPERTY_ID = "C25"
LEVEL = "exploration"
RULE = (
    "hist/hist-enum: one-thread command lists (dispose / read is_disposed / run the virtual scheduler) on Disposable(action) "
    "[action = counting, None, re-entrant (the action calls dispose() again) or raising (raises after counting; the history "
    "catches it and goes on)], BooleanDisposable, and ScheduledDisposable wrapping a counting item ('plain', a falsy empty "
    "CompositeDisposable, 'reenter' = its dispose() disposes the wrapper again, 'raises' = its dispose() raises after counting) "
    "on a TestScheduler or the ImmediateScheduler; "
    "generated (<=20 commands) and exhaustively enumerated (<=6 commands). Oracle after EVERY command: action count == "
    "min(1, #dispose) ; is_disposed is True after any dispose(); BooleanDisposable changes nothing but its flag; the wrapped "
    "resource of a ScheduledDisposable has dispose count 0 until its scheduler ran after a dispose(), then exactly 1, and was "
    "disposed from inside a scheduler action, and never twice whatever re-enters or raises (after a raise only 'at most once' "
    "and the count are judged, is_disposed only after a dispose() that returned). "
    "det-enum/det-gen: 2-3 logical threads each calling dispose() 1-3 times on one shared object under Engine DET "
    "(vlib/det.py; line-level yield points, optionally per-bytecode in Disposable.dispose); det-enum explores every schedule "
    "with <=2 (two threads) / <=1 (three threads) preemptions in quick and <=3 / <=2 in thorough; det-gen draws the shape and "
    "<=3 preemption points. ScheduledDisposable runs on ImmediateScheduler, on an EventLoopScheduler whose loop thread is a "
    "controlled thread and on the TimeoutScheduler whose timer threads are controlled threads on the fake clock (K<=1 for all "
    "shapes, K<=2 for 1||1 in quick and for 1||1, 2||1, 1||1||1 in thorough, cut into slices). Oracle: action/wrapped dispose count == 1, is_disposed True right after every dispose() that returned "
    "(Disposable, BooleanDisposable, ScheduledDisposable on ImmediateScheduler), event-loop / timer disposal happens on a "
    "scheduler thread (never on a program thread), no deadlock, no escaped exception. "
    "Non-trivial: hist = >=2 dispose calls (disposable), >=1 (boolean), dispose followed by a scheduler run (scheduled); det = "
    "two threads' dispose() calls overlapped in at least one explored schedule. Distinct = distinct case JSON."
)
ASSUMPTIONS = [
    "C-level atomicity of CPython (GIL build): a source line (or a bytecode where opcodes are enabled) is the unit of interleaving",
    "DET bounds: <=3 threads, <=3 dispose() calls per thread, <=3 preemptions",
    "ScheduledDisposable.is_disposed is only required after its scheduler ran the disposal (the text asks for disposal on the scheduler)",
]

_kind = st.sampled_from(disp.KINDS)
_OPC = ["Disposable.dispose"]


def _hist_cases():
    disposable = st.fixed_dictionaries(
        {
            "cls": st.just("disposable"),
            "action": st.sampled_from(["plain", "none", "reentrant", "raises"]),
            "cmds": st.lists(st.sampled_from([["dispose"], ["dispose"], ["read"]]), min_size=1, max_size=20),
        }
    )
    boolean = st.fixed_dictionaries({"cls": st.just("boolean"), "cmds": st.lists(st.sampled_from([["dispose"], ["read"]]), min_size=1, max_size=12)})
    scheduled = st.fixed_dictionaries(
        {
            "cls": st.just("scheduled"),
            "item": st.sampled_from(disp.HIST_KINDS),
            "on": st.sampled_from(["virtual", "virtual", "immediate"]),
            "cmds": st.lists(st.one_of(st.just(["dispose"]), st.tuples(st.just("run"), st.integers(1, 3)).map(list)), min_size=1, max_size=20),
        }
    )
    return st.one_of(disposable, boolean, scheduled)


def _hist_enum(tier):
    n = 6 if tier == "quick" else 8
    for action in ("plain", "none", "reentrant", "raises"):
        for cmds in disp.sequences([("dispose",), ("read",)], n):
            yield {"cls": "disposable", "action": action, "cmds": cmds}
    for cmds in disp.sequences([("dispose",), ("read",)], n):
        yield {"cls": "boolean", "cmds": cmds}
    for on in ("virtual", "immediate"):
        for kind in disp.HIST_KINDS:
            for cmds in disp.sequences([("dispose",), ("run", 1)], n):
                yield {"cls": "scheduled", "item": kind, "on": on, "cmds": cmds}


def _threads(shape):
    return [[["dispose"]] * n for n in shape]


def _det_enum(tier):
    k2, k3 = (2, 1) if tier == "quick" else (3, 2)
    two = [(1, 1), (1, 2), (2, 2), (3, 3)]
    three = [(1, 1, 1), (2, 1, 1), (2, 2, 2)]
    for shape in two + three:
        K = k2 if len(shape) == 2 else k3
        yield {"cls": "disposable", "threads": _threads(shape), "sched": {"mode": "all", "K": K}}
        yield {"cls": "disposable", "threads": _threads(shape), "opcodes": _OPC, "sched": {"mode": "all", "K": min(K, 2 if tier != "quick" else 1)}}
        yield {"cls": "boolean", "threads": _threads(shape), "sched": {"mode": "all", "K": K}}
        for kind in disp.KINDS:
            yield {"cls": "scheduled", "on": "immediate", "item": kind, "threads": _threads(shape), "sched": {"mode": "all", "K": min(K, 2)}}
    # ScheduledDisposable on schedulers with their own (controlled) threads: the EventLoopScheduler loop thread and the
    # TimeoutScheduler timer threads (fake clock).  K=2 explorations are cut into slices so that they spread over shards.
    for on in ("eventloop", "timeout"):
        for shape in [(1, 1), (2, 1)] + ([(1, 1, 1), (2, 2)] if tier != "quick" else []):
            yield {"cls": "scheduled", "on": on, "item": "plain", "threads": _threads(shape), "sched": {"mode": "all", "K": 1}}
        k2_shapes = [((1, 1), 8)] if tier == "quick" else [((1, 1), 16), ((2, 1), 32), ((1, 1, 1), 32)]
        for shape, m in k2_shapes:
            for i in range(m):
                yield {"cls": "scheduled", "on": on, "item": "empty" if i % 2 else "plain", "threads": _threads(shape), "slice": [i, m], "sched": {"mode": "all", "K": 2}}


_det_gen = st.one_of(
    st.fixed_dictionaries(
        {
            "cls": st.sampled_from(["disposable", "disposable", "boolean"]),
            "threads": disp.program_strategy(st.just(["dispose"])),
            "opcodes": st.sampled_from([[], [], _OPC]),
            "sched": disp.sched_strategy(3),
        }
    ),
    st.fixed_dictionaries(
        {"cls": st.just("scheduled"), "on": st.just("immediate"), "item": _kind, "threads": disp.program_strategy(st.just(["dispose"])), "sched": disp.sched_strategy(3)}
    ),
)


def checks(tier):
    return [
        Check("hist-enum", disp.hist_c25, cases=_hist_enum, shards={"quick": 4, "thorough": 16}, exhaustive=True),
        Check("hist", disp.hist_c25, strategy=_hist_cases(), examples={"quick": 800, "thorough": 16 * 10000}, shards={"quick": 4, "thorough": 16}),
        Check("det-enum", disp.det_run, cases=_det_enum, shards={"quick": 8, "thorough": 16}, exhaustive=True),
        Check("det-gen", disp.det_run, strategy=_det_gen, examples={"quick": 1600, "thorough": 16 * 8000}, shards={"quick": 8, "thorough": 16}),
    ]
