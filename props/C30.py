"""C30 Trampoline scheduling is same-thread, FIFO and never nested (single-thread trees + DET two-thread schedules)."""
from __future__ import annotations

import itertools
from datetime import timedelta, timezone

from hypothesis import strategies as st

from vlib import det, schedrun
from vlib.core import FAIL, OK, Check, HarnessError

PROPERTY_ID = "C30"
LEVEL = "exploration"
RULE = (
    "A program is a list of operation lists (one per thread); operations: ['s', on, kind, d, body] = call schedule / "
    "schedule_relative(d ms as float | timedelta) / schedule_absolute(EPOCH + d ms as an aware datetime, UTC or -05:30) on scheduler `on` ('c' = one "
    "CurrentThreadScheduler() instance used by every thread, 'g' = CurrentThreadScheduler.singleton() of the calling thread, "
    "'t' = one TrampolineScheduler() instance shared by all threads) with an action that logs start, executes `body` "
    "(more operations: nested schedules, cancels, work) and logs end; ['x', ref] = dispose the disposable returned for "
    "schedule operation number ref (if that call has returned); ['w', ms] = let ms of fake time pass; single-thread programs "
    "only: kind 'ens' = ensure_trampoline(action), ['q', on] = record schedule_required(), ['r'] / ['r', 'base' | 'exit' | 'gen'] = leave the "
    "action through an Exception / a BaseException subclass / SystemExit / GeneratorExit. "
    "Times are the "
    "Engine-DET fake clock (vlib/det.py); a timed wait of the trampoline advances it. "
    "tree-enum / tree: ONE thread, run in the calling thread (DET free mode): every ordered forest with <=3 (quick) / <=4 "
    "(thorough) schedule nodes over a small label alphabet with at most one cancel at any position, on each scheduler kind "
    "(exhaustive), plus generated trees (depth <=3, mixed scheduler kinds, work, past absolute times). "
    "det-enum / det-gen: TWO threads under Engine DET (line-level yield points in reactivex code, cooperative locks): every "
    "schedule with <=1 (quick) / <=2 (thorough) preemptions of a fixed list of small programs (shared trampoline from both "
    "threads, per-thread current-thread trampolines, timed entries, cross-thread cancels, mixed; three 3-thread programs; "
    "four more two-thread programs in thorough), plus generated programs (a third thread in ~20%) with <=3 drawn preemption "
    "points. A second enumerated single-thread family puts ensure_trampoline labels and a raise / schedule_required() at every "
    "position of every forest. "
    "Oracle over the event log (call/ret of every schedule call, start/end of every action, cancel issue/return, each with "
    "thread id and fake clock), per trampoline (= per calling thread for 'c'/'g', the instance for 't'): (1) an action never "
    "starts while another action of the same trampoline is open (nested on one thread / overlapping on two); (2) at most "
    "one start per action; (3) 'c'/'g' actions run on the thread that called schedule, 't' actions run on a thread that is "
    "inside a schedule call on that instance; (4) start clock >= due (call clock + max(0, d) | the absolute time); "
    "(5) order: if Y was certainly enqueued before X started (its call returned, or was made by the thread running X) and Y "
    "started after X then not key(Y) < key(X), key = (due, insertion) -- insertion compared only when certain (same thread "
    "or disjoint calls), and for absolute times already in the past only when (due, insertion) and (max(due, call clock), "
    "insertion) agree; (6) a cancelled action does not start when its dispose() returned before its due time or before "
    "the end of an earlier action of that trampoline (single thread: always the case); (7) nothing lost: when the call "
    "that found a 'c'/'g' (or, with one thread, 't') trampoline idle returns, every action enqueued there so far whose "
    "disposable was never disposed has finished; for the shared 't' with two threads the same at the end of the run; "
    "(8) no deadlock, no escaped exception; (9) single thread: schedule_required() is False exactly while an action of that "
    "trampoline is running (docstring); ensure_trampoline() called inside a running action of that trampoline runs its action "
    "inline before returning, otherwise it behaves like schedule(); an exception raised by an action (Exception or any other BaseException) reaches the outermost "
    "schedule call (repo tests), what was pending then is unconstrained, and afterwards the trampoline works again (the next "
    "outermost call runs its action before returning, schedule_required() is True). "
    "Non-trivial: single thread = a schedule call made from inside a running action; two threads = a schedule call on the "
    "shared trampoline made while another thread is inside its draining call, or both threads' current-thread trampolines "
    "active in overlapping intervals. Distinct = distinct case JSON."
)
ASSUMPTIONS = [
    "actions raise only in single-thread programs; what was pending when an action raised is not constrained (the library "
    "drops it; undocumented either way); raising with two threads on a shared trampoline is not generated",
    "C-level atomicity of CPython (GIL build): a source line of reactivex code is the unit of interleaving",
    "bounds: <=3 threads; trees of depth <=3; <=2 preemptions exhaustive, <=3 drawn",
    "a cancellation that races the drain loop between its is_cancelled() test and the invocation is 'best effort' (the "
    "docstrings say so) and is not constrained; only cancellations that certainly precede the test are",
    "a TrampolineScheduler instance may be shared between threads (its class docstring says so)",
]

TIMEOUT = {"quick": 400, "thorough": 3600}  # runner: wall-clock cap per shard (quick needs ~20 s of CPU per shard)
# absolute due times are aware datetimes: 'abs' in UTC, 'absw' the same instant expressed in the zone -05:30
ABS_TZ = {"abs": timezone.utc, "absw": timezone(timedelta(hours=-5, minutes=-30))}
ONS = ("c", "g", "t")
KINDS = ("now", "rel", "reltd", "abs")


# ---------------------------------------------------------------------------------------------
# program interpreter
# ---------------------------------------------------------------------------------------------
number, now_us = schedrun.number, schedrun.now_us


class Boom(Exception):
    """Raised by ['r'] inside an action."""


class BoomBase(BaseException):
    """Raised by ['r', 'base']: a BaseException that is not an Exception (like asyncio's CancelledError)."""


# what an action may leave through: ['r'] Exception, ['r', 'base'] a BaseException subclass, ['r', 'exit'] SystemExit (a
# worker calling sys.exit()), ['r', 'gen'] GeneratorExit
BOOM_KINDS = {"exc": Boom, "base": BoomBase, "exit": SystemExit, "gen": GeneratorExit}
BOOMS = tuple(BOOM_KINDS.values())


class World:
    """Fresh schedulers + event log for one run.  Build while det.patched()."""

    def __init__(self, case):
        from reactivex.scheduler import CurrentThreadScheduler, TrampolineScheduler

        self.case = case
        self.ids, self.meta = number(case["threads"])
        self.rec = []  # (kind, sid, tid, clock_us)
        self.disp = {}
        self.c = CurrentThreadScheduler()
        self.t = TrampolineScheduler()
        self._singleton = CurrentThreadScheduler.singleton
        # the first singleton() call of a process also creates the per-class map (library-global state): do that here,
        # in the controller thread, so that every run of a (program, schedule) pair executes the same lines
        g0 = CurrentThreadScheduler.singleton()
        schedrun.audit(self.c, self.t, self.t.get_trampoline(), g0, g0.get_trampoline())

    def _ev(self, kind, sid):
        tid = det.current_tid()
        self.rec.append((kind, sid, 0 if tid is None else tid, now_us()))

    def _sched(self, on):
        return self.c if on == "c" else self.t if on == "t" else self._singleton()

    def run_ops(self, ops, ids, depth=0):
        for op, idn in zip(ops, ids):
            k = op[0]
            if k == "s":
                sid, kid_ids = idn
                _, on, kind, d, body = op
                sch = self._sched(on)

                def action(sc, state, sid=sid, body=body, kid_ids=kid_ids, depth=depth):
                    self._ev("start", sid)
                    try:
                        self.run_ops(body, kid_ids, depth + 1)
                    except BOOMS:
                        self._ev("abort", sid)
                        raise
                    self._ev("end", sid)

                self._ev("call", sid)
                try:
                    if kind == "now":
                        dsp = sch.schedule(action)
                    elif kind == "rel":
                        dsp = sch.schedule_relative(d / 1000.0, action)
                    elif kind == "reltd":
                        dsp = sch.schedule_relative(timedelta(milliseconds=d), action)
                    elif kind in ABS_TZ:
                        dsp = sch.schedule_absolute((det.EPOCH + timedelta(milliseconds=d)).astimezone(ABS_TZ[kind]), action)
                    elif kind == "ens":
                        dsp = sch.ensure_trampoline(action)
                    else:
                        raise HarnessError(f"bad kind {kind}")
                except BOOMS:
                    if depth == 0:
                        self._ev("exc", sid)  # the exception of an action reached the outermost schedule call
                        continue
                    self._ev("excn", sid)
                    raise
                if hasattr(dsp, "dispose"):
                    self.disp[sid] = dsp
                self._ev("ret", sid)
            elif k == "x":
                if not self.meta:
                    continue
                target = op[1] % len(self.meta)
                dsp = self.disp.get(target)
                if dsp is None:
                    continue
                self._ev("cx", target)
                dsp.dispose()
                self._ev("cr", target)
            elif k == "w":
                det.CEvent().wait(op[1] / 1000.0)
            elif k == "r":
                if depth > 0:
                    kind = op[1] if len(op) > 1 else "exc"
                    self._ev("raise", kind)
                    raise BOOM_KINDS[kind]("boom")
            elif k == "q":
                self._ev("q", (op[1], bool(self._sched(op[1]).schedule_required())))
            else:
                raise HarnessError(f"bad op {op}")


def build(case):
    w = World(case)
    threads = [(lambda ops=ops, ids=ids: w.run_ops(ops, ids)) for ops, ids in zip(case["threads"], w.ids)]
    return threads, w


# ---------------------------------------------------------------------------------------------
# oracle
# ---------------------------------------------------------------------------------------------
def analyse(world, complete=True):
    """Returns (violation | None, facts).  violation = (clause, detail)."""
    rec, meta = world.rec, world.meta
    T = len(world.case["threads"])
    n = len(meta)
    call = [None] * n
    ret = [None] * n
    start = [None] * n
    end = [None] * n
    call_tid = [None] * n
    call_clk = [None] * n
    group = [None] * n
    due = [None] * n
    facts = set()
    open_act = {}  # group -> sid of the running action
    open_tcalls = {}  # tid -> number of open schedule calls on 't'
    ends_by_group = {}  # group -> [event index of action ends]
    outer = {}  # sid -> True if the call found its trampoline without a running action (per-thread groups)
    cancels = []  # (issue idx, return idx | None, target, clock at return)
    pending_cx = {}
    inline_exp = {}  # ensure_trampoline call made while an action of that trampoline runs: must run inline
    parent = {}  # inline action -> the action it interrupted
    excused = set()  # pending when an action's exception left the outermost call: unconstrained afterwards
    had_exc = False
    raised_kind = None
    in_flight = False  # an action raised and the exception has not reached the outermost call yet
    bad = None

    def fail(clause, detail):
        nonlocal bad
        if bad is None:
            bad = (clause, detail)

    for i, (kind, sid, tid, clk) in enumerate(rec):
        if kind == "call":
            on, k, d = meta[sid]
            call[sid], call_tid[sid], call_clk[sid] = i, tid, clk
            group[sid] = ("t",) if on == "t" else (on, tid)
            due[sid] = d * 1000 if k in ABS_TZ else clk + max(0, d) * 1000 if k in ("rel", "reltd") else clk
            if k == "ens":
                inline_exp[sid] = open_act.get(group[sid]) is not None
                facts.add("ensure-inline" if inline_exp[sid] else "ensure-scheduled")
            if on == "t":
                open_tcalls[tid] = open_tcalls.get(tid, 0) + 1
                if any(v > 0 for t2, v in open_tcalls.items() if t2 != tid):
                    facts.add("cross-while-draining")
            g = group[sid]
            if any(a is not None for a in open_act.values()):
                facts.add("nested-sched")
            if on != "t" or T == 1:
                outer[sid] = open_act.get(g) is None
                if outer[sid] and had_exc:
                    facts.add("outermost-call-after-raise")
                    facts.add("outermost-call-after-raise:" + str(raised_kind))
            if on != "t" and any(a is not None and gg[0] != "t" and gg != g and gg[1] != tid for gg, a in open_act.items()):
                facts.add("both-current-thread-active")
            if due[sid] > clk:
                facts.add("timed")
            if k in ABS_TZ and due[sid] < clk:
                facts.add("past-abs")
            if k == "absw":
                facts.add("abs-non-utc-zone")
        elif kind in ("ret", "exc", "excn"):
            if meta[sid][0] == "t":
                open_tcalls[call_tid[sid]] -= 1
            if kind == "exc":
                in_flight = False
                had_exc = True
                facts.add("raise-propagated")
                facts.add("raise-propagated:" + str(raised_kind))
                excused.update(y for y in range(n) if call[y] is not None and start[y] is None)
                continue
            if kind == "excn":
                continue
            ret[sid] = i
            if inline_exp.get(sid) and end[sid] is None:
                fail("ensure-not-inline", f"ensure_trampoline call #{sid} {meta[sid]} was made while action #{open_act.get(group[sid])} of that trampoline was running and returned without having run its action inline")
            if outer.get(sid) and in_flight:
                fail("exception-swallowed", f"an action raised inside the outermost schedule call #{sid} {meta[sid]}, which returned normally")
            if outer.get(sid):
                g = group[sid]
                for y in range(n):
                    if group[y] == g and call[y] is not None and call[y] < i and end[y] is None and y not in excused:
                        if not any(tg == y and ci < i for ci, _, tg, _ in cancels) and not any(k[0] == y for k in pending_cx):
                            fail("lost", f"action #{y} {meta[y]} was enqueued before the outermost call #{sid} returned, was never cancelled, and has not run")
        elif kind == "start":
            g = group[sid]
            if start[sid] is not None:
                fail("ran-twice", f"action #{sid} {meta[sid]} started twice")
            cur = open_act.get(g)
            if inline_exp.get(sid):
                if ret[sid] is not None or tid != call_tid[sid]:
                    fail("ensure-not-inline", f"action #{sid} {meta[sid]} of an ensure_trampoline call made inside a running action started after that call returned / on another thread")
                parent[sid] = cur
            elif cur is not None:
                same = rec[start[cur]][2] == tid
                fail("nested" if same else "overlap", f"action #{sid} started on thread {tid} while action #{cur} of the same trampoline was still running on thread {rec[start[cur]][2]}")
            open_act[g] = sid
            start[sid] = i
            if g[0] == "t":
                if open_tcalls.get(tid, 0) <= 0:
                    fail("wrong-thread", f"shared-trampoline action #{sid} ran on thread {tid}, which is not inside a schedule call on that scheduler")
                if tid != call_tid[sid]:
                    facts.add("ran-on-other-thread")
            elif tid != call_tid[sid]:
                fail("wrong-thread", f"current-thread action #{sid} scheduled on thread {call_tid[sid]} ran on thread {tid}")
            if clk < due[sid]:
                fail("early", f"action #{sid} {meta[sid]} due at {due[sid]}us started at {clk}us")
            if due[sid] > call_clk[sid]:
                facts.add("timed-ran")
        elif kind in ("end", "abort"):
            g = group[sid]
            if open_act.get(g) == sid:
                open_act[g] = parent.get(sid)
            end[sid] = i
            ends_by_group.setdefault(g, []).append(i)
        elif kind == "raise":
            in_flight = True
            raised_kind = sid
        elif kind == "q":
            on, result = sid
            busy = open_act.get(("t",) if on == "t" else (on, tid)) is not None
            facts.add("required-asked-busy" if busy else "required-asked-idle")
            if result == busy:
                fail("schedule-required", f"schedule_required() returned {result} on thread {tid} while {'an' if busy else 'no'} action of that trampoline was running (event {i})")
        elif kind == "cx":
            pending_cx[(sid, tid)] = i
        elif kind == "cr":
            cancels.append((pending_cx.pop((sid, tid)), i, sid, clk))
    if bad:
        return bad, facts

    # (6) cancelled actions
    for ci, ri, x, clk in cancels:
        if start[x] is None:
            if call[x] is not None and ci > call[x]:
                facts.add("cancel-effective")
            continue
        if start[x] < ri:
            continue  # already started when dispose() returned
        if clk < due[x]:
            return ("cancelled-ran", f"action #{x} {meta[x]} started at event {start[x]} although dispose() returned at {clk}us, before its due time {due[x]}us"), facts
        if any(ri < e < start[x] for e in ends_by_group.get(group[x], ())):
            return ("cancelled-ran", f"action #{x} {meta[x]} started at event {start[x]} although dispose() had returned (event {ri}) before an earlier action of the trampoline ended"), facts
        facts.add("cancel-raced")

    # (5) order
    started = [s for s in range(n) if start[s] is not None and not inline_exp.get(s)]
    for x in started:
        for y in started:
            if x == y or group[x] != group[y] or not start[x] < start[y]:
                continue
            run_tid = rec[start[x]][2]
            enq_before = (ret[y] is not None and ret[y] < start[x]) or (call_tid[y] == run_tid and call[y] < start[x])
            if not enq_before:
                continue
            y_first = (ret[y] is not None and ret[y] < call[x]) or (call_tid[y] == call_tid[x] and call[y] < call[x])
            x_first = (ret[x] is not None and ret[x] < call[y]) or (call_tid[y] == call_tid[x] and call[x] < call[y])
            if due[x] == due[y]:
                facts.add("tie")

            def less(ky, kx):
                return ky < kx or (ky == kx and y_first and not x_first)

            eff_x, eff_y = max(due[x], call_clk[x]), max(due[y], call_clk[y])
            if less(due[y], due[x]) and less(eff_y, eff_x):
                return ("order", f"action #{x} {meta[x]} (due {due[x]}us, call event {call[x]}) started before action #{y} {meta[y]} (due {due[y]}us, call event {call[y]}) which was already enqueued and sorts first"), facts

    # (7) nothing lost on the shared trampoline, two threads: at the end of a complete run
    if complete and T > 1:
        for y in range(n):
            if group[y] == ("t",) and call[y] is not None and ret[y] is not None and end[y] is None:
                if not any(tg == y for _, _, tg, _ in cancels):
                    return ("lost", f"shared-trampoline action #{y} {meta[y]} (schedule call returned at event {ret[y]}) was never cancelled and never ran although all threads finished"), facts
    return None, facts


def _fmt(rec):
    return " ".join(f"{k}{s}@T{t}/{c}" for k, s, t, c in rec)


def run_tree(case):
    """Single thread, DET free mode (patched namespaces, fake clock), in the calling thread."""
    if len(case["threads"]) != 1:
        raise HarnessError("run_tree wants one thread")
    w = None
    try:
        with schedrun.quiet_rx_log(), schedrun.patched(), schedrun.watchdog():
            w = World(case)
            w.run_ops(case["threads"][0], w.ids[0])
    except schedrun.Wedged as e:
        return FAIL(f"no-return|{_kinds(case)}", f"{e}; log so far={_fmt(w.rec) if w else ''}; case={case}")
    bad, facts = analyse(w)
    cl = sorted(facts) + [f"n:{min(len(w.meta), 8)}"]
    if bad:
        return FAIL(f"{bad[0]}|{_kinds(case)}", f"{bad[1]}; log={_fmt(w.rec)}; case={case}", classes=cl)
    ran = sum(1 for e in w.rec if e[0] == "start")
    return OK("nested-sched" in facts and ran >= 2, cl)


def _kinds(case):
    _, meta = number(case["threads"])
    return "+".join(sorted({{"c": "CurrentThreadScheduler", "g": "CurrentThreadScheduler.singleton", "t": "TrampolineScheduler"}[m[0]] for m in meta})) or "none"


def _judge(case, w, res):
    if res.deadlock:
        return "deadlock", repr(res.deadlock) + " log=" + _fmt(w.rec)
    if res.exceptions:
        tid, e = sorted(res.exceptions.items())[0]
        return f"escaped:{type(e).__name__}", f"thread {tid}: {e!r}"
    bad, _ = analyse(w, res.complete)
    if bad:
        return bad[0], bad[1] + "; log=" + _fmt(w.rec)
    return None


def _facts(case, w, res):
    return analyse(w, res.complete)[1] | {f"threads:{len(case['threads'])}"}


_NT2 = {"cross-while-draining", "both-current-thread-active"}



def run_det(case):
    # pooled OS threads are fine for every flavour: det.run_program resets reactivex's thread-keyed state (the
    # singleton's per-thread trampoline, the per-class singleton maps) at the start of each run with reuse_threads=True
    kw = dict(max_steps=6000, reuse_threads=True)
    return schedrun.drive(case, build, _judge, _facts, _NT2, kw, sig_suffix="|" + _kinds(case))


# ---------------------------------------------------------------------------------------------
# cases
# ---------------------------------------------------------------------------------------------
def _forests(n):
    """All ordered forests with exactly n nodes, as nested lists (a node = list of children)."""
    if n == 0:
        yield []
        return
    for k in range(1, n + 1):  # size of the first tree
        for kids in _forests(k - 1):
            for rest in _forests(n - k):
                yield [kids] + rest


def _label(forest, labels, on):
    it = iter(labels)

    def go(f):
        out = []
        for kids in f:
            kind, d = next(it)
            out.append(["s", on, kind, d, go(kids)])
        return out

    return go(forest)


def _positions(ops, path=()):
    """Every insertion point in every operation list of the tree: (path to list, index)."""
    for i in range(len(ops) + 1):
        yield path, i
    for j, op in enumerate(ops):
        if op[0] == "s":
            yield from _positions(op[4], path + (j,))


def _insert(ops, path, idx, new):
    if not path:
        return ops[:idx] + [new] + ops[idx:]
    j = path[0]
    op = ops[j]
    return ops[:j] + [[op[0], op[1], op[2], op[3], _insert(op[4], path[1:], idx, new)]] + ops[j + 1:]


def _tree_enum(tier):
    nmax = 3 if tier == "quick" else 4
    alpha = [("now", 0), ("rel", 2), ("absw", 1)] if tier == "quick" else [("now", 0), ("reltd", 2), ("absw", 1), ("rel", 0)]
    for on in ONS:
        for n in range(1, nmax + 1):
            for forest in _forests(n):
                for labels in itertools.product(alpha, repeat=n):
                    ops = _label(forest, labels, on)
                    yield {"threads": [ops]}
                    for path, idx in _positions(ops):
                        for target in range(n):
                            yield {"threads": [_insert(ops, path, idx, ["x", target])]}
                        if n <= 2:
                            yield {"threads": [_insert(ops, path, idx, ["w", 3])]}


def _tree_enum2(tier):
    """Second enumerated family: ensure_trampoline labels, a raise / schedule_required() / cancel at every position."""
    nmax = 3 if tier == "quick" else 4
    for on in ONS:
        for n in range(1, nmax + 1):
            alpha = [("now", 0), ("ens", 0), ("rel", 2)] if n < nmax else [("now", 0), ("ens", 0)]
            for forest in _forests(n):
                for labels in itertools.product(alpha, repeat=n):
                    ops = _label(forest, labels, on)
                    if any(k == "ens" for k, _ in labels):
                        yield {"threads": [ops]}
                    for path, idx in _positions(ops):
                        yield {"threads": [_insert(ops, path, idx, ["q", on])]}
                        if path:
                            yield {"threads": [_insert(ops, path, idx, ["r"])]}
                            yield {"threads": [_insert(_insert(ops, path, idx, ["r"]), (), len(ops), ["q", on])]}
                            # the same with an exception that is not an Exception, followed by one more outermost schedule
                            rk = ["r", ("base", "exit", "gen")[(idx + len(path) + n) % 3]]
                            yield {"threads": [_insert(_insert(_insert(ops, path, idx, rk), (), len(ops), ["s", on, "now", 0, []]), (), len(ops) + 1, ["q", on])]}


def _tree_enum_all(tier):
    yield from _tree_enum(tier)
    yield from _tree_enum2(tier)


_KD = [["now", 0], ["now", 0], ["now", 0], ["rel", 0], ["rel", -1], ["rel", 1], ["reltd", 2], ["rel", 5], ["reltd", 0],
       ["abs", 0], ["absw", 1], ["abs", 3], ["absw", 6], ["abs", -2]]  # fmt: skip


def _ops(depth, ons, width, kd=_KD, extras=False):
    other = [st.tuples(st.just("x"), st.integers(0, 11)).map(list), st.tuples(st.just("w"), st.sampled_from([1, 2, 3])).map(list)]
    if extras:  # single-thread only: raise inside an action, schedule_required(), ensure_trampoline()
        other += [st.sampled_from([["r"], ["r", "base"], ["r", "exit"], ["r", "gen"], ["w", 1], ["w", 2], ["w", 1], ["w", 3]]), st.tuples(st.just("q"), st.sampled_from(ons)).map(list)]
        kd = kd + [["ens", 0], ["ens", 0]]
    if depth == 0:
        body = st.just([])
    else:
        body = _ops(depth - 1, ons, max(1, width - 1), kd[: len(kd) - 2] if extras else kd, extras)
    s_op = st.builds(lambda on, k, b: ["s", on, k[0], k[1], b], st.sampled_from(ons), st.sampled_from(kd), body)
    # (st.one_of de-duplicates repeated strategies: weight through an index) 60% schedule operations
    one = st.integers(0, 9).flatmap(lambda i: s_op if i < 6 else other[i % len(other)])
    return st.lists(one, min_size=0 if depth < 2 else 1, max_size=width)


_has_s = lambda o: any(x[0] == "s" for x in o)  # noqa: E731
_tree = st.sampled_from([["c"], ["g"], ["t"], ["c", "g", "t"], ["c", "t"]]).flatmap(lambda ons: st.builds(lambda ops: {"threads": [ops]}, _ops(3, ons, 4, extras=True).filter(_has_s)))


def _S(on, kind="now", d=0, body=()):
    return ["s", on, kind, d, list(body)]


def _det_programs():
    t = "t"
    yield [[_S(t)], [_S(t)]]  # two plain schedules on the shared trampoline
    yield [[_S(t, body=[_S(t)])], [_S(t), _S(t)]]
    yield [[_S(t, "rel", 2)], [_S(t), ["x", 0]]]  # drainer parked in a timed wait while the other enqueues / cancels
    yield [[_S(t, body=[["w", 1]])], [_S(t, "rel", 1), ["x", 1]]]
    yield [[_S(t, "abs", 2), _S(t)], [_S(t, "rel", 1, body=[_S(t)])]]
    yield [[_S(t, body=[_S(t), ["x", 2]])], [_S(t), ["x", 1]]]  # cross-thread cancels
    for on in ("c", "g"):
        yield [[_S(on, body=[_S(on), _S(on, "rel", 1)])], [_S(on, body=[_S(on, "rel", 1), _S(on)])]]
    yield [[_S("c", body=[_S(t, body=[_S("c")])])], [_S(t, body=[_S("c", body=[_S(t)])])]]  # mixed
    yield [[_S("c", body=[_S("c")]), ["x", 3]], [_S("c", body=[_S("c", "rel", 1)]), ["x", 1]]]


def _det_programs3():
    """Three threads (beyond the property's two-thread quantifier, same oracle)."""
    t = "t"
    yield [[_S(t)], [_S(t)], [_S(t)]], 2
    yield [[_S(t, body=[_S(t)])], [_S(t, "rel", 1)], [_S(t), ["x", 0]]], 2
    yield [[_S("c", body=[_S("c")])], [_S("c", body=[_S(t)])], [_S("g", body=[_S(t)]), _S("g")]], 1


def _det_programs_thorough():
    t = "t"
    yield [[_S(t), _S(t)], [_S(t), _S(t)]]
    yield [[_S(t, "rel", 1, body=[_S(t, "abs", 3)])], [["w", 1], _S(t), ["x", 1]]]
    yield [[_S("g", body=[_S(t), ["x", 1]])], [_S(t, body=[_S("g")]), ["x", 0]]]
    yield [[_S("c", "rel", 1), _S("c")], [_S("c"), _S("c", "abs", 1, body=[_S("c")])]]


def _det_enum(tier):
    K = 1 if tier == "quick" else 2
    for threads in _det_programs():
        yield {"threads": threads, "sched": {"mode": "all", "K": K}}
    for threads, kmax in _det_programs3():
        yield {"threads": threads, "sched": {"mode": "all", "K": min(K, kmax)}}
    if tier != "quick":
        for threads in _det_programs_thorough():
            yield {"threads": threads, "sched": {"mode": "all", "K": 2}}


_KD2 = [["now", 0], ["now", 0], ["now", 0], ["rel", 0], ["rel", 1], ["reltd", 2], ["abs", 0], ["absw", 2], ["abs", -1]]
# 'g' (the per-thread singleton) needs fresh OS threads for every run (20-40x slower on a loaded machine): keep its share small
_DET_ONS = [["t"]] * 5 + [["c"]] * 3 + [["c", "t"]] * 6 + [["g"], ["c", "g", "t"]]
_det_gen = st.sampled_from(_DET_ONS).flatmap(
    lambda ons: st.builds(
        lambda a, b, c, s: {"threads": [a, b] + ([c] if c else []), "sched": s},
        _ops(2, ons, 3, _KD2).filter(_has_s),
        _ops(2, ons, 3, _KD2).filter(_has_s),
        st.integers(0, 4).flatmap(lambda i: _ops(1, ons, 2, _KD2) if i == 0 else st.just(None)),  # a third thread in ~20%
        schedrun.sched_strategy(3, max_tid=3),
    )
)


def checks(tier):
    return [
        Check("tree-enum", run_tree, cases=_tree_enum_all, shards={"quick": 8, "thorough": 16}, exhaustive=True),
        Check("tree", run_tree, strategy=_tree, examples={"quick": 2000, "thorough": 16 * 15000}, shards={"quick": 8, "thorough": 16}),
        Check("det-enum", run_det, cases=_det_enum, shards={"quick": 8, "thorough": 16}, exhaustive=True),
        Check("det-gen", run_det, strategy=_det_gen, examples={"quick": 2400, "thorough": 16 * 6000}, shards={"quick": 8, "thorough": 16}),
    ]
