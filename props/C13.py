"""C13 Multi-source combinators follow their pairing rules (zip, combine_latest, with_latest_from, fork_join, amb)."""
from __future__ import annotations

from hypothesis import strategies as st

import reactivex
from reactivex import operators as ops

from vlib.core import FAIL, OK, SKIP, Check
from vlib.lab import Lab, conform
from vlib.values import canon, val

PROPERTY_ID = "C13"
LEVEL = "exploration"
RULE = (
    "Generated: operator in {zip, combine_latest, with_latest_from, fork_join, amb} x form {reactivex.<fn>(*srcs), "
    "srcs[0].pipe(ops.<op>(*rest)) (amb: chain of binary ops.amb)} over 1..4 logged virtual-time sources (cold / hot / "
    "cold emitting its t=0 burst inside subscribe), conforming timelines of 0..5 (thorough 0..8) elements with gaps 0..3 (same-instant "
    "bursts and cross-source ties), terminal in {completed, error, none}, element values unique per source position or "
    "falsy (None, 0, False, '', []), subscription at virtual tick 0..3 (hot elements at or before it are missed). "
    "Oracle: an independent replay of the merged source-event list (order inside one instant = hot sources in creation "
    "order, then cold sources in the *observed* subscription order, as fixed by the scheduler's FIFO rule) through the "
    "rule in the property text: zip = tuple of k-th elements when the last k-th element arrives (plus the closed form "
    "tick(k) = max_i t_i[k]), completes at the first instant a completed source has an empty queue; combine_latest = "
    "tuple of latest values at every element once all have emitted, completion judged by a validity window (not "
    "before no further tuple is possible, not after all sources completed); with_latest_from = (primary, latest "
    "others...) at every primary element once all others have a value, completes with the primary; fork_join = tuple "
    "of last values when the last source completes, or completes at the instant a source completes empty; any source "
    "error terminates with that error at that instant. Values AND ticks AND terminal are compared. amb: the output "
    "trace equals the timeline of exactly one source among those with the earliest first notification and every "
    "other source's subscription log is [subscribe tick, that instant]. with_latest_from additionally: every other source "
    "is subscribed before the primary (so values delivered at subscription time are present when a synchronously "
    "emitting primary fires; the all-sources-emit-inside-subscribe idiom is generated on purpose). Non-trivial: >=2 sources and (>=1 output "
    "element or the output terminated while some source still had events to deliver / never terminates). "
    "Distinct = distinct case JSON. 'small2' additionally enumerates exhaustively every pair of two-source timelines with "
    "<=2 elements at ticks {0,1} and terminal in {none, C at last tick, C one tick later, E at last tick} for every "
    "operator and the source-kind pairs cold/cold (both forms), hot/cold, in-subscribe/cold (function form; thorough: all "
    "nine kind pairs x both forms) under the same oracle."
)
ASSUMPTIONS = [
    "sources are well-behaved (conforming timelines); all sources are subscribed at one virtual instant",
    "same-instant order of source events follows the virtual scheduler's FIFO rule (C28) given the observed subscription order; for amb any source tied for the earliest first notification may win",
    "combine_latest completion is only constrained to the window [first instant no tuple can follow, instant the last source completes]",
]

OPS = ["zip", "combine_latest", "with_latest_from", "fork_join", "amb"]


# ---------------------------------------------------------------------------------------
# building the real pipeline


def _build(op, form, srcs):
    n = len(srcs)
    if op == "amb":
        if form == "fn" or n == 1:
            return reactivex.amb(*srcs)
        return srcs[0].pipe(*[ops.amb(s) for s in srcs[1:]])
    if form == "fn":
        return getattr(reactivex, op)(*srcs)
    return srcs[0].pipe(getattr(ops, op)(*srcs[1:]))


# ---------------------------------------------------------------------------------------
# reference: effective timelines and merged event list


def _effective(spec, S):
    """Absolute-tick conforming timeline as seen by a subscriber that subscribes at tick S.
    Returns list of [tick, kind, payload, in_subscribe]."""
    tl = conform(spec["tl"])
    out = []
    for t, k, p in tl:
        if spec["kind"] == "hot":
            if t > S:  # hot messages at t <= S were fired before the (later scheduled) subscribe action
                out.append([t, k, p, False])
        else:
            out.append([S + t, k, p, spec["kind"] == "sync" and t == 0])
    return out


def _merged(case, sub_rank):
    """Events in arrival order: [tick, src, kind, payload]. sub_rank: src index -> rank of its subscription
    (absent = never subscribed)."""
    S = case["sub_at"]
    a, b = [], []
    for i, spec in enumerate(case["srcs"]):
        if i not in sub_rank:
            continue
        for j, (t, k, p, insub) in enumerate(_effective(spec, S)):
            if insub:
                a.append(((sub_rank[i], j), [t, i, k, p]))
            elif spec["kind"] == "hot":
                b.append(((t, 0, i, j), [t, i, k, p]))
            else:
                b.append(((t, 1, sub_rank[i], j), [t, i, k, p]))
    a.sort(key=lambda x: x[0])
    b.sort(key=lambda x: x[0])
    return [e for _, e in a] + [e for _, e in b]


def _tup(vals):
    return canon(tuple(val(v) for v in vals))


def _err(tag):
    return ["exc", tag]


def ref_zip(events, n):
    queues = [[] for _ in range(n)]
    done = [False] * n
    out = []
    for idx, (t, i, k, p) in enumerate(events):
        if k == "E":
            out.append([t, "E", _err(p)])
            return out, idx
        if k == "N":
            queues[i].append(p)
            if all(queues):
                out.append([t, "N", _tup([q.pop(0) for q in queues])])
                if any(done[j] and not queues[j] for j in range(n)):
                    out.append([t, "C", None])
                    return out, idx
        else:
            done[i] = True
            if not queues[i]:
                out.append([t, "C", None])
                return out, idx
    return out, None


def ref_with_latest_from(events, n):
    latest = [None] * n
    has = [False] * n
    out = []
    for idx, (t, i, k, p) in enumerate(events):
        if k == "E":
            out.append([t, "E", _err(p)])
            return out, idx
        if k == "N":
            if i == 0:
                if all(has[1:]):
                    out.append([t, "N", _tup([p] + latest[1:])])
            else:
                latest[i] = p
                has[i] = True
        elif i == 0:
            out.append([t, "C", None])
            return out, idx
    return out, None


def ref_fork_join(events, n):
    last = [None] * n
    has = [False] * n
    done = [False] * n
    out = []
    for idx, (t, i, k, p) in enumerate(events):
        if k == "E":
            out.append([t, "E", _err(p)])
            return out, idx
        if k == "N":
            last[i] = p
            has[i] = True
        else:
            done[i] = True
            if not has[i]:
                out.append([t, "C", None])
                return out, idx
            if all(done):
                out.append([t, "N", _tup(last)])
                out.append([t, "C", None])
                return out, idx
    return out, None


def ref_combine_latest(events, n):
    """Returns (emissions [[idx, tick, canon]], idx_dead, idx_all, idx_err)."""
    latest = [None] * n
    has = [False] * n
    done = [False] * n
    em = []
    idx_dead = idx_all = idx_err = None
    for idx, (t, i, k, p) in enumerate(events):
        if k == "E":
            idx_err = idx
            break
        if k == "N":
            latest[i] = p
            has[i] = True
            if all(has):
                em.append([idx, t, _tup(latest)])
        else:
            done[i] = True
            if idx_dead is None and (not has[i] or all(done)):
                idx_dead = idx
            if all(done):
                idx_all = idx
                break
    return em, idx_dead, idx_all, idx_err


def _judge_combine_latest(events, n, got):
    em, idx_dead, idx_all, idx_err = ref_combine_latest(events, n)
    got_n = [e for e in got if e[1] == "N"]
    got_t = [e for e in got if e[1] != "N"]
    term = got_t[0] if got_t else None
    # which emissions are due: those before the terminating event
    if term is None:
        if idx_err is not None:
            return "error-not-delivered", f"source error at event {idx_err} {events[idx_err]} but output has no terminal", None
        if idx_all is not None:
            return "no-completion", f"all sources completed at event {idx_all} {events[idx_all]} but output did not complete", None
        cut = len(events)
    elif term[1] == "C":
        if idx_dead is None:
            return "completed-early", f"completed at t={term[0]} although every source can still contribute", None
        hi = idx_all if idx_all is not None else len(events) - 1
        if idx_err is not None:
            hi = min(hi, idx_err - 1)
        cand = [j for j in range(idx_dead, hi + 1) if events[j][0] == term[0]]
        if not cand:
            return (
                "completion-window",
                f"completed at t={term[0]}; valid window is events {idx_dead}..{hi} "
                f"(ticks {events[idx_dead][0]}..{events[hi][0] if hi >= idx_dead else 'none'})",
                None,
            )
        cut = cand[0]
    else:
        if idx_err is None:
            return "spurious-error", f"output error {term} but no source errors", None
        if idx_all is not None and idx_all < idx_err:
            return "error-after-all-complete", "", None
        exp = [events[idx_err][0], "E", _err(events[idx_err][3])]
        if term[:3] != exp:
            return "error", f"expected {exp} got {term}", None
        cut = idx_err
    exp_n = [[t, "N", c] for idx, t, c in em if idx < cut]
    if got_n != exp_n:
        return "tuples", f"expected {exp_n} got {got_n}", None
    end = cut if term is not None else None
    return None, "", end


REFS = {"zip": ref_zip, "with_latest_from": ref_with_latest_from, "fork_join": ref_fork_join}


def _zip_closed_form(case, got):
    """k-th emitted tuple = (k-th element of every source) at tick max_i t_i[k]."""
    S = case["sub_at"]
    els = [[e for e in _effective(s, S) if e[1] == "N"] for s in case["srcs"]]
    k = 0
    for t, kind, c in got:
        if kind != "N":
            continue
        if any(len(e) <= k for e in els):
            return f"tuple #{k} emitted but a source has only {min(len(e) for e in els)} elements"
        exp_t = max(e[k][0] for e in els)
        exp_c = _tup([e[k][2] for e in els])
        if t != exp_t or c != exp_c:
            return f"tuple #{k}: expected {exp_c} at t={exp_t}, got {c} at t={t}"
        k += 1
    return None


# ---------------------------------------------------------------------------------------


def _run(case):
    op, form, S = case["op"], case["form"], case["sub_at"]
    specs = case["srcs"]
    n = len(specs)
    lab = Lab()
    srcs = [lab.source(spec, f"s{i}") for i, spec in enumerate(specs)]  # hot sources schedule here, in index order
    out = _build(op, form, srcs)
    p = lab.probe("p")
    mark = {}

    def go():
        p.subscribe(out)
        mark["after"] = lab.next_seq()

    lab.at(S, go)
    lab.run()
    if lab.escaped is not None:
        raise lab.escaped
    if lab.inconclusive:
        return SKIP(lab.inconclusive)

    cls = [f"{op}:{form}", f"n={n}"]
    kinds = sorted({s["kind"] for s in specs})
    cls.append("kinds=" + "+".join(kinds))
    got = p.trace()
    term = p.terminal()
    ok_g, gmsg = p.grammar_ok()
    if not ok_g:
        return FAIL(f"{op}:grammar", f"{gmsg} case={case}", classes=cls)

    # subscriptions: each source exactly once, at S (unless the output already terminated inside subscribe)
    term_in_sub = term is not None and term[3] < mark["after"]
    sub_rank = {}
    order = []
    for i, s in enumerate(srcs):
        if len(s.subs) > 1:
            return FAIL(f"{op}:source-subscribed-twice", f"source {i} subs={s.subs} case={case}", classes=cls)
        if len(s.subs) == 0:
            if term_in_sub or (op == "amb" and got and got[0][0] == S):
                cls.append("source-skipped-after-decision")
                continue
            return FAIL(f"{op}:source-not-subscribed", f"source {i} never subscribed case={case}", classes=cls)
        if s.subs[0][0] != S:
            return FAIL(f"{op}:subscribed-late", f"source {i} subs={s.subs} expected at {S} case={case}", classes=cls)
        order.append((s.sub_seq[0][0], i))
    for r, (_, i) in enumerate(sorted(order)):
        sub_rank[i] = r

    eff = [_effective(s, S) for s in specs]
    if op == "with_latest_from" and n >= 2:
        # "emits only on primary elements once every other source has a value": a source that delivers its value at
        # subscription time (of / return_value / BehaviorSubject state idiom) has it before the primary can emit only
        # if every other source is subscribed before the primary.
        if 0 in sub_rank and any(j in sub_rank and sub_rank[j] > sub_rank[0] for j in range(1, n)):
            return FAIL(
                "with_latest_from:primary-subscribed-before-others",
                f"subscription order (source: rank) {sub_rank}; the primary (0) must be subscribed last case={case}",
                classes=cls,
            )
        prim_sync = [e for e in eff[0] if e[3] and e[1] == "N"]
        if prim_sync and all(any(e[3] and e[1] == "N" for e in eff[j]) for j in range(1, n)):
            cls.append("with_latest_from:sync-primary+sync-others")
            if not any(e[3] and e[1] == "E" for ef in eff for e in ef):
                cls.append("with_latest_from:state-idiom-all-primary-paired")
    events = _merged(case, sub_rank)
    ticks = [e[0] for e in events]
    if any(events[j][0] == events[j + 1][0] and events[j][1] != events[j + 1][1] for j in range(len(events) - 1)):
        cls.append("cross-source-tie")
    if any(e[3] for ef in eff for e in ef):
        cls.append("emits-inside-subscribe")
    if any(s["kind"] == "hot" and len(_effective(s, S)) < len(conform(s["tl"])) for s in specs):
        cls.append("hot-elements-missed")
    if any(not ef for ef in eff):
        cls.append("silent-source")
    if any(ef and ef[-1][1] == "E" for ef in eff):
        cls.append("erroring-source")
    if any(ef and ef[0][1] == "C" for ef in eff):
        cls.append("empty-source")
    if any(e[1] == "N" and e[2] in ("none", "i0", "false", "s", "l") for ef in eff for e in ef):
        cls.append("falsy-values")

    end_idx = None
    if op == "amb":
        firsts = {i: ef[0][0] for i, ef in enumerate(eff) if ef}
        if not firsts:
            if got:
                return FAIL("amb:spurious-output", f"no source notifies but got {got} case={case}", classes=cls)
            for i, s in enumerate(srcs):
                if s.subs and s.subs[0][1] is not None:
                    return FAIL("amb:unsubscribed-without-winner", f"source {i} subs={s.subs} case={case}", classes=cls)
            return OK(False, cls + ["amb:no-notification"])
        F = min(firsts.values())
        cands = [i for i, f in firsts.items() if f == F]
        if len(cands) > 1:
            cls.append("amb:tie-for-first")
        matching = [i for i in cands if got == [e[:2] + [_pay(e)] for e in eff[i]]]
        if not matching:
            return FAIL(
                "amb:not-mirroring-first",
                f"output {got} equals none of the earliest sources {cands} (first notification at t={F}) case={case}",
                classes=cls,
            )
        bad = None
        winner = None
        for w in matching:
            bad = None
            for j, s in enumerate(srcs):
                if j == w or not s.subs:
                    continue
                if s.subs[0] != [S, F]:
                    bad = f"winner={w}: loser {j} subscription log {s.subs} expected [[{S}, {F}]]"
                    break
            if bad is None:
                winner = w
                break
        if winner is None:
            return FAIL("amb:loser-not-unsubscribed-at-choice", f"{bad} case={case}", classes=cls)
        cls.append(f"amb:winner-kind={specs[winner]['kind']}")
        # early termination: winner terminated / chose while others still had events
        others_pending = any(j != winner and any(e[0] >= F for e in eff[j]) for j in range(n))
        nontrivial = n >= 2 and (len(got) >= 1) and (others_pending or len(p.values()) >= 1)
        if others_pending:
            cls.append("amb:losers-had-events")
        return OK(nontrivial, cls)

    if op == "combine_latest":
        clause, msg, end_idx = _judge_combine_latest(events, n, got)
        if clause:
            return FAIL(f"combine_latest:{clause}", f"{msg} events={events} got={got} case={case}", classes=cls)
        em, idx_dead, idx_all, idx_err = ref_combine_latest(events, n)
        if term is not None and term[1] == "C" and idx_all is None:
            cls.append("combine_latest:completed-by-dead-source")
        if term is None and idx_dead is not None:
            cls.append("combine_latest:dead-but-open")
    else:
        exp, end_idx = REFS[op](events, n)
        if got != exp:
            tg = [e for e in got if e[1] != "N"]
            te = [e for e in exp if e[1] != "N"]
            gn = [e for e in got if e[1] == "N"]
            en = [e for e in exp if e[1] == "N"]
            if gn != en:
                clause = "tuples" if [e[2] for e in gn] != [e[2] for e in en] else "tuple-ticks"
            elif tg and te and tg[0][1] == te[0][1]:
                clause = "terminal-tick"
            elif not tg:
                clause = "no-terminal"
            elif not te:
                clause = "spurious-terminal"
            else:
                clause = "terminal-kind"
            return FAIL(f"{op}:{clause}", f"expected {exp} got {got} events={events} case={case}", classes=cls)
        if op == "zip":
            m = _zip_closed_form(case, got)
            if m:
                return FAIL("zip:closed-form", f"{m} got={got} case={case}", classes=cls)
            if term is not None and term[1] == "C":
                # did some other source still hold buffered elements when zip completed?
                cnt = [0] * n
                for t, i, k, pl in events[: end_idx + 1]:
                    if k == "N":
                        cnt[i] += 1
                if max(cnt) > len(p.values()):
                    cls.append("zip:completed-while-others-buffer")
                if events[end_idx][2] == "N":
                    cls.append("zip:completed-on-element")

    early = False
    if term is not None:
        cls.append("terminal=" + term[1])
        if end_idx is not None and end_idx < len(events) - 1:
            early = True
        if any((not ef) or ef[-1][1] == "N" for ef in eff):
            early = True
    if early:
        cls.append("early-termination")
    if p.values():
        cls.append("emitted>=1")
        cls.append(f"{op}:emitted")
    nontrivial = n >= 2 and (len(p.values()) >= 1 or early)
    return OK(nontrivial, cls)


def _pay(e):
    if e[1] == "N":
        return canon(val(e[2]))
    if e[1] == "E":
        return _err(e[2])
    return None


# ---------------------------------------------------------------------------------------
# strategy

_FALSY = ["none", "i0", "false", "s", "l", "f0"]


@st.composite
def _timeline(draw, src_index, max_len, at_subscribe=False):
    n = draw(st.integers(1 if at_subscribe else 0, max_len))
    t = 0 if at_subscribe else draw(st.integers(0, 3))
    out = []
    for k in range(n):
        if k:
            t += draw(st.integers(0, 3))
        if draw(st.integers(0, 4)) == 0:
            v = draw(st.sampled_from(_FALSY))
        else:
            v = f"n:{(src_index + 1) * 100 + k}"
        out.append([t, "N", v])
    term = draw(st.sampled_from(["C", "C", "C", "C", "C", "E", None]))
    if term is not None:
        if out or draw(st.booleans()):
            t += draw(st.integers(0, 3))
        out.append([t, term, f"e{src_index}" if term == "E" else None])
    return out


@st.composite
def _case(draw, max_len=5):
    op = draw(st.sampled_from(OPS))
    form = draw(st.sampled_from(["fn", "op"]))
    n = draw(st.sampled_from([1, 2, 2, 2, 3, 3, 4]))
    srcs = []
    # the "state" idiom: every source delivers its first value inside subscribe (of / return_value / BehaviorSubject)
    idiom = draw(st.integers(0, 3)) == 0 if op == "with_latest_from" else draw(st.integers(0, 11)) == 0
    for i in range(n):
        if idiom:
            srcs.append({"kind": "sync", "tl": draw(_timeline(i, max_len, at_subscribe=True))})
            continue
        kind = draw(st.sampled_from(["cold", "cold", "hot", "sync"]))
        srcs.append({"kind": kind, "tl": draw(_timeline(i, max_len))})
    return {"op": op, "form": form, "srcs": srcs, "sub_at": draw(st.sampled_from([0, 0, 1, 2, 3]))}


def _small_timelines(i):
    """All conforming timelines with <=2 elements at ticks {0,1} and terminal in {none, C@last, C@last+1, E@last}."""
    out = []
    for ticks in ([], [0], [1], [0, 0], [0, 1], [1, 1]):
        base = [[t, "N", f"n:{(i + 1) * 100 + k}"] for k, t in enumerate(ticks)]
        last = ticks[-1] if ticks else 0
        out.append(base)
        out.append(base + [[last, "C", None]])
        out.append(base + [[last + 1, "C", None]])
        out.append(base + [[last, "E", f"e{i}"]])
    return out


def _small2(tier):
    """Exhaustive two-source family: every pair of small timelines (ties at ticks 0/1, empty, erroring, silent) x every
    operator x both forms x source-kind pairs."""
    kinds = [("cold", "cold"), ("hot", "cold"), ("sync", "cold")]
    if tier != "quick":
        kinds += [("cold", "sync"), ("cold", "hot"), ("hot", "hot"), ("sync", "sync"), ("sync", "hot"), ("hot", "sync")]
    a_tls, b_tls = _small_timelines(0), _small_timelines(1)
    for op in OPS:
        for form in ("fn", "op"):
            for ka, kb in kinds:
                if tier == "quick" and form == "op" and (ka, kb) != ("cold", "cold"):
                    continue  # quick: the operator form (a thin wrapper over the function form) only for cold/cold
                for ta in a_tls:
                    for tb in b_tls:
                        yield {"op": op, "form": form, "srcs": [{"kind": ka, "tl": ta}, {"kind": kb, "tl": tb}], "sub_at": 0}


def checks(tier):
    return [
        Check("small2", _run, cases=_small2, shards={"quick": 8, "thorough": 16}, exhaustive=True),
        Check(
            "pairing",
            _run,
            strategy=_case(5 if tier == "quick" else 8),
            examples={"quick": 6000, "thorough": 16 * 30000},
            shards={"quick": 4, "thorough": 16},
        ),
    ]
