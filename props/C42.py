"""C42 CatchScheduler routes action exceptions to its handler (Engine HIST: scheduling trees vs. explicit model)."""
from __future__ import annotations

import copy

from hypothesis import strategies as st

from reactivex.disposable import (
    CompositeDisposable,
    Disposable,
    MultipleAssignmentDisposable,
    SerialDisposable,
    SingleAssignmentDisposable,
)
from reactivex.scheduler import CatchScheduler

from vlib.core import FAIL, OK, Check
from vlib.vtsched import EXC_TYPES, VTModel, clock_of, enc_abs, enc_rel, escaped, make, make_exc

PROPERTY_ID = "C42"
LEVEL = "fault_enumeration"
RULE = (
    "Generated forests (1..4 roots, 3 levels quick / 4 thorough, <= 3 ops per node) of actions scheduled on CatchScheduler over a TestScheduler, HistoricalScheduler or VirtualTimeScheduler(0) (field 'inner'): "
    "every node is scheduled with schedule / schedule_relative / schedule_absolute / schedule_periodic (roots on the outer "
    "CatchScheduler, children through the scheduler handed to the parent action or - 'outer' - through the outer "
    "CatchScheduler; int/float/timedelta/datetime time arguments); a node's program schedules its children and may raise "
    "at one position, with a generated exception type (Tagged, TypeError, ValueError, KeyError, AttributeError, StopIteration, a custom subclass, a falsy exception object); periodic nodes raise at their k-th tick and/or dispose themselves at their m-th tick. The handler "
    "answers with a generated cyclic list of verdicts. start() is repeated (after stop()) while something escaped. Oracle "
    "(explicit model: priority list by (due, seq), handler verdict list): (1) the handler is called exactly once per raised "
    "exception, in raise order, with that very exception object; (2) exactly the exceptions with a falsy verdict escape "
    "start(), in order, as the same objects, nothing else escapes; (3) the invocation log [node, clock(, periodic state)] "
    "equals the model's - in particular no periodic tick after a raise, whatever the verdict; (4) differential: the same "
    "forest with all raises removed gives the same log on CatchScheduler as on the bare TestScheduler and never calls the "
    "handler; actions may RETURN a disposable standing for the work they scheduled - the child's handle itself, or a SingleAssignment/MultipleAssignment/Serial/Composite/plain Disposable around it - and 'dispose' ops dispose the handle of any scheduled node before, while or after it ran: as on the bare scheduler, the item's handle owns what the action returned, so disposing the parent's handle cancels not-yet-run nested work (modelled; also covered by the differential run); relative delays may be strictly negative (due in the past: such an item runs before the items due now, on the outer and on the handed scheduler alike); (5) the wrapped scheduler runs exactly one item per modelled invocation (a counting subclass of the inner scheduler): a stopped periodic action leaves no live timer behind. Periodic nodes live up to 12 ticks and may schedule children from inside a tick (through the scheduler captured at creation or the outer one; immediately or after less than one period). Non-trivial: a raise actually executed at depth >= 1 (inside an action scheduled from an action) or inside "
    "a periodic action. Part of the forests are built with >= 2 periodic actions alive together on one CatchScheduler (roots, or siblings created through one handed scheduler) so that one raises while another still ticks - the survivor must tick on exactly as modelled. Every run is fused: a harness action at a statically computed horizon stops the inner scheduler, so never-ending periodic work gives a verdict, not a hang. Distinct = distinct case JSON."
)
ASSUMPTIONS = [
    "inner scheduler is a virtual-time TestScheduler (actions never run synchronously inside schedule*), per the property's quantifier",
    "every periodic node disposes itself after at most 12 ticks (a run must finish); children scheduled from inside a periodic action are due before that action's next tick (a tie with the next tick is not ordered by the property)",
    "after an exception escaped start(), the run is resumed with stop() + start(); the ordering/clock behaviour of the inner scheduler is C28's subject and taken from the same model",
]


class _Runaway(BaseException):
    """A periodic action was invoked again after it should have stopped (breaks out of start())."""


def _walk(nodes, depth=0):
    for n in nodes:
        yield n, depth
        for op in n.get("ops", ()):
            if op[0] == "child":
                yield from _walk([op[1]], depth + 1)
        for _tick, kid in n.get("kids", ()):
            yield from _walk([kid], depth + 1)


def _strip_raises(nodes):
    out = copy.deepcopy(nodes)
    for n, _ in _walk(out):
        if n["how"] == "per":
            n["raise_at"] = None
        else:
            n["ops"] = [op for op in n["ops"] if op[0] != "raise"]
    return out


def _number(nodes):
    """Assign ids in document order (stable, independent of execution)."""
    for i, (n, d) in enumerate(_walk(nodes)):
        n["id"] = i
        n["depth"] = d
    return nodes


# ------------------------------------------------------------------------------------------------- real execution
class _Counting:
    """Inner scheduler that counts the actions it actually invokes (TestScheduler.start()'s own three harness actions
    and the fuse excluded) - a stopped periodic action must not leave a live timer behind on the wrapped scheduler."""

    def schedule_absolute(self, duetime, action, state=None):
        if getattr(action, "__name__", "") in ("action_create", "action_subscribe", "action_dispose") or getattr(action, "is_fuse", False):
            return super().schedule_absolute(duetime, action, state)

        def counted(s, st_=None):
            self.inner_runs += 1
            return action(s, st_)

        return super().schedule_absolute(duetime, counted, state)


def _make_inner(K):
    base = make(K)
    cls = type("Counting" + type(base).__name__, (_Counting, type(base)), {})
    inner = cls() if K != "vts" else cls(0)
    inner.inner_runs = 0
    return inner


def _execute(nodes, verdicts, wrapped, K="test"):
    """Run the forest on CatchScheduler(<virtual-time scheduler K>) (wrapped=True) or on the bare scheduler.
    Returns dict(log, handled, escapes, raised, runaway, fused, inner_runs)."""
    inner = _make_inner(K)
    handled, escapes, raised = [], [], {}
    log = []

    def handler(ex):
        handled.append(ex)
        return verdicts[(len(handled) - 1) % len(verdicts)]

    outer = CatchScheduler(inner, handler) if wrapped else inner
    disps = {}  # node id -> handle returned by schedule* / schedule_periodic
    order = []  # node ids in scheduling order (targets of the 'dispose' op are taken modulo this list)

    def returned(node, kids_scheduled):
        """The disposable the action returns (the `return scheduler.schedule(...)` idiom and friends)."""
        ret = node.get("ret")
        if not ret or not kids_scheduled:
            return None
        kind, idx = ret
        one = disps[kids_scheduled[idx % len(kids_scheduled)]]
        if kind == "handle":
            return one
        if kind == "sad":
            d = SingleAssignmentDisposable()
            d.disposable = one
            return d
        if kind == "mad":
            d = MultipleAssignmentDisposable()
            d.disposable = one
            return d
        if kind == "serial":
            d = SerialDisposable()
            d.disposable = one
            return d
        if kind == "composite":
            return CompositeDisposable(*[disps[k] for k in kids_scheduled])
        if kind == "plain":
            return Disposable(one.dispose)
        raise AssertionError(kind)

    def boom(tag, exc_type):
        ex = make_exc(exc_type or "tagged", tag)
        raised[tag] = ex
        raise ex

    def schedule(node, sched):
        nid, how, t, form = node["id"], node["how"], node["t"], node.get("form", "num")
        if how == "per":
            count = [0]

            def paction(state="<called-without-state>"):
                count[0] += 1
                if count[0] > node["stop_at"] + 2 or count[0] > (node["raise_at"] or 99):
                    raise _Runaway(f"p{nid} tick {count[0]}")
                log.append([nid, clock_of(K, inner), state])
                for tick, kid in node.get("kids", ()):
                    if tick == count[0]:  # work scheduled from inside the periodic action, through the scheduler captured at creation
                        schedule(kid, sched if kid.get("via", "handed") == "handed" else outer)
                if count[0] == node["raise_at"]:
                    boom(f"p{nid}.{count[0]}", node.get("exc"))
                if count[0] >= node["stop_at"]:
                    disps[nid].dispose()
                return state + 1

            order.append(nid)
            disps[nid] = sched.schedule_periodic(enc_rel(K, t, form), paction, state=10 * nid)
            return

        def action(scheduler, state=None):
            log.append([nid, clock_of(K, inner)])
            mine = []
            for op in node["ops"]:
                if op[0] == "raise":
                    boom(f"n{nid}", node.get("exc"))
                elif op[0] == "dispose":
                    disps[order[op[1] % len(order)]].dispose()
                else:
                    schedule(op[1], scheduler if op[1].get("via", "handed") == "handed" else outer)
                    mine.append(op[1]["id"])
            return returned(node, mine)

        order.append(nid)
        if how == "now":
            disps[nid] = sched.schedule(action)
        elif how == "rel":
            disps[nid] = sched.schedule_relative(enc_rel(K, t, form), action)
        else:
            disps[nid] = sched.schedule_absolute(enc_abs(K, t, form), action)

    for n in nodes:
        schedule(n, outer)
    # Fuse: every correct run is over before `horizon` (static bound: sum of all delays / periods * ticks + the latest
    # absolute time).  A harness action on the inner scheduler stops the run there, so that periodic work which wrongly
    # never ends (e.g. a muted action that can no longer dispose itself) yields a verdict instead of a hang.
    horizon = _horizon(nodes)
    fused = []
    def fuse(s, st_=None):
        fused.append(1)
        inner.stop()

    fuse.is_fuse = True
    inner.schedule_absolute(enc_abs(K, horizon, "num"), fuse)
    runaway = None
    for _ in range(len(list(_walk(nodes))) + 3):
        if fused:
            break
        try:
            inner.start()
        except _Runaway as r:
            runaway = str(r)
            break
        except Exception as ex:  # noqa: BLE001 - whatever escapes start() is recorded and judged by the oracle
            escapes.append(ex)
            inner.stop()
    return {"log": log, "handled": handled, "escapes": escapes, "raised": raised, "runaway": runaway, "fused": bool(fused), "inner_runs": inner.inner_runs}


def _horizon(nodes):
    total, latest = 0, 0
    for n, _ in _walk(nodes):
        if n["how"] == "per":
            total += n["t"] * (n["stop_at"] + 1)
        elif n["how"] == "abs":
            latest = max(latest, n["t"])
        else:
            total += max(n["t"], 0)
    return total + latest + 5


# ------------------------------------------------------------------------------------------------------- model
class _Escape(Exception):
    def __init__(self, tag):
        super().__init__(tag)
        self.tag = tag


def _model(nodes, verdicts, K="test"):
    m = VTModel(K)
    log, handled, escapes = [], [], []
    info = {"deep_raise": 0, "periodic_raise": 0, "raise": 0}

    live = set()  # periodic nodes created and not yet stopped
    order = []  # node ids in scheduling order
    entry_of = {}  # node id -> its pending entry (for a periodic node: the entry of its next tick)
    disposed = set()  # node ids whose handle has been disposed
    owned = {}  # node id -> ids of the nodes whose handles the disposable returned by its action owns

    def dispose(nid, cascaded=False):
        """Dispose the handle of node nid: a not-yet-run action / the next periodic tick is cancelled, and the disposable
        the action returned (if it ran) is disposed with it - which cancels the nested work it stands for."""
        if nid in disposed:
            return
        disposed.add(nid)
        e = entry_of.get(nid)
        if e is not None and not e.done:
            e.cancelled = True
            info["effective_dispose"] = info.get("effective_dispose", 0) + 1
            if cascaded:
                info["dispose_reached_returned"] = 1
        live.discard(nid)
        for c in owned.pop(nid, ()):
            dispose(c, True)

    def raise_(tag, node):
        handled.append(tag)
        info["raise"] += 1
        info.setdefault("exc_types", set()).add(("periodic:" if node["how"] == "per" else "action:") + (node.get("exc") or "tagged"))
        if node["how"] == "per":
            info["periodic_raise"] += 1
            if live - {node["id"]}:
                info["overlap"] = 1  # another periodic action is still running while this one raises
        elif node["depth"] >= 1:
            info["deep_raise"] += 1
        if not verdicts[(len(handled) - 1) % len(verdicts)]:
            escapes.append(tag)
            raise _Escape(tag)

    def schedule(node):
        how, t = node["how"], node["t"]
        order.append(node["id"])
        if how == "rel" and t < 0:
            info["neg_rel"] = info.get("neg_rel", 0) + 1
            if node["depth"] >= 1:
                info["neg_rel_handed"] = 1
            if any(m.clock + t <= en.due <= m.clock for en in m.pending()):
                info["neg_rel_overtakes"] = 1  # something already queued is due later than this past-due item
            if any(op[0] == "raise" for op in node["ops"]):
                info["neg_rel_raises"] = 1
        if how == "per":
            live.add(node["id"])
            entry_of[node["id"]] = m.schedule_relative(t, ("tick", node, 1, 10 * node["id"]))
        elif how == "now":
            entry_of[node["id"]] = m.schedule(("act", node))
        elif how == "rel":
            entry_of[node["id"]] = m.schedule_relative(t, ("act", node))
        else:
            entry_of[node["id"]] = m.schedule_absolute(t, ("act", node))

    def run(e):
        p = e.payload
        if escapes:
            info["resumed"] = 1
        if p[0] == "act":
            node = p[1]
            log.append([node["id"], m.clock])
            mine = []
            for op in node["ops"]:
                if op[0] == "raise":
                    raise_(f"n{node['id']}", node)
                    return  # handled: the rest of the action body is skipped (and nothing is returned)
                if op[0] == "dispose":
                    target = order[op[1] % len(order)]
                    info["dispose_ops"] = info.get("dispose_ops", 0) + 1
                    if target == node["id"]:
                        info["dispose_self_while_running"] = 1
                    dispose(target)
                    continue
                schedule(op[1])
                mine.append(op[1]["id"])
            ret = node.get("ret")
            if ret and mine:
                kind, idx = ret
                got = list(mine) if kind == "composite" else [mine[idx % len(mine)]]
                info.setdefault("ret_kinds", set()).add(kind)
                if node["id"] in disposed:  # handle disposed while the action was running: what it returns is disposed at once
                    for c in got:
                        dispose(c, True)
                else:
                    owned[node["id"]] = got
        else:
            _, node, k, state = p
            log.append([node["id"], m.clock, state])
            for tick, kid in node.get("kids", ()):
                if tick == k:
                    info["periodic_kids"] = 1
                    schedule(kid)
            if k == node["raise_at"]:
                live.discard(node["id"])
                disposed.add(node["id"])
                raise_(f"p{node['id']}.{k}", node)
                return  # handled: periodic work stops
            if k >= node["stop_at"]:
                live.discard(node["id"])
                disposed.add(node["id"])
                return  # disposed itself
            if info.get("overlap"):
                info["survivor_tick"] = 1  # a non-raising periodic action keeps ticking after another one raised
            entry_of[node["id"]] = m.schedule_relative(node["t"], ("tick", node, k + 1, state + 1))

    for n in nodes:
        schedule(n)
    while True:
        try:
            m.start(run)
            break
        except _Escape:
            m.stop()
    return {"log": log, "handled": handled, "escapes": escapes, "info": info}


# ---------------------------------------------------------------------------------------------------------- run
def _run(case):
    nodes = _number(copy.deepcopy(case["roots"]))
    verdicts = case["verdicts"]
    cls = []
    K = case.get("inner", "test")
    cls.append("inner:" + K)
    exp = _model(nodes, verdicts, K)
    try:
        got = _execute(nodes, verdicts, wrapped=True, K=K)
    except Exception as e:  # noqa: BLE001 - schedule* itself must not raise
        return escaped(e, "CatchScheduler.schedule*", f"case={case}")
    info = exp["info"]
    if info["raise"]:
        cls.append("raise-executed")
    if info["deep_raise"]:
        cls.append("raise-in-nested-action")
    if info["periodic_raise"]:
        cls.append("raise-in-periodic")
    for t in sorted(info.get("exc_types", ())):
        cls.append("raised:" + t)
    if info.get("periodic_kids"):
        cls.append("periodic-action-schedules-children")
    for k in sorted(info.get("ret_kinds", ())):
        cls.append("returns:" + k)
    if info.get("neg_rel"):
        cls.append("negative-relative-delay")
    if info.get("neg_rel_handed"):
        cls.append("negative-relative-delay-via-handed-scheduler")
    if info.get("neg_rel_overtakes"):
        cls.append("negative-relative-delay-overtakes-queued-item")
    if info.get("neg_rel_raises"):
        cls.append("negative-relative-delay-node-raises")
    if info.get("dispose_ops"):
        cls.append("dispose-op-executed")
    if info.get("effective_dispose"):
        cls.append("dispose-cancels-pending-work")
    if info.get("dispose_reached_returned"):
        cls.append("dispose-of-parent-handle-cancels-returned-nested-work")
    if info.get("dispose_self_while_running"):
        cls.append("dispose-own-handle-while-running")
    if any(n["how"] == "per" and n["stop_at"] > 5 for n, _ in _walk(nodes)):
        cls.append("periodic-lifetime>5-ticks")
    if info.get("overlap"):
        cls.append("periodic-raise-while-another-periodic-live")
    if info.get("survivor_tick"):
        cls.append("other-periodic-ticks-on-after-raise")
    if exp["escapes"]:
        cls.append("verdict-false")
    if len(exp["handled"]) > len(exp["escapes"]):
        cls.append("verdict-true")
    if info.get("resumed"):
        cls.append("resumed-after-escape")
    kinds = {n["how"] for n, _ in _walk(nodes)}
    for k in sorted(kinds):
        cls.append("how:" + k)
    if any(n.get("via") == "outer" for n, d in _walk(nodes) if d >= 1):
        cls.append("child-via-outer")
    nontrivial = bool(info["deep_raise"] or info["periodic_raise"])

    def culprit(tags):
        hows = sorted({("periodic" if t.startswith("p") else "action") for t in tags}) or ["none"]
        return ",".join(hows)

    tags_h = [getattr(x, "tag", repr(x)) for x in got["handled"]]
    tags_e = [getattr(x, "tag", repr(x)) for x in got["escapes"]]
    if got["runaway"]:
        return FAIL("periodic-continues-after-raise-or-dispose|periodic", f"{got['runaway']} log={got['log'][-6:]} case={case}", classes=cls)
    if tags_h != exp["handled"]:
        return FAIL(f"handler-calls|{culprit(set(tags_h) ^ set(exp['handled']) or set(tags_h))}", f"handler saw {tags_h}, expected {exp['handled']} case={case}", classes=cls)
    for x in got["handled"]:
        if got["raised"].get(getattr(x, "tag", None)) is not x:
            return FAIL("handler-got-different-exception|" + culprit([x.tag]), f"handler got {x!r}, not the raised object; case={case}", classes=cls)
    if tags_e != exp["escapes"]:
        return FAIL(f"escapes|{culprit(set(tags_e) ^ set(exp['escapes']) or set(tags_e))}", f"escaped start(): {tags_e}, expected {exp['escapes']} (verdicts {verdicts}) case={case}", classes=cls)
    for x in got["escapes"]:
        if got["raised"].get(getattr(x, "tag", None)) is not x:
            return FAIL("escaped-different-exception|" + culprit([getattr(x, "tag", "n?")]), f"escaped {x!r}, not the raised object; case={case}", classes=cls)
    if got["log"] != exp["log"]:
        i = next((j for j in range(min(len(got["log"]), len(exp["log"]))) if got["log"][j] != exp["log"][j]), min(len(got["log"]), len(exp["log"])))
        r = got["log"][i] if i < len(got["log"]) else None
        e = exp["log"][i] if i < len(exp["log"]) else None
        per = any(len(x) == 3 for x in (r, e) if x)
        return FAIL(f"action-log|{'periodic' if per else 'action'}", f"log differs at #{i}: real={r} model={e} case={case}", classes=cls)
    if got["inner_runs"] != len(exp["log"]):
        # every scheduled action / periodic tick is one item run by the wrapped scheduler; more means that work which
        # should have stopped (disposed or failed periodic action) still keeps a live timer on the wrapped scheduler
        more = "keeps-running-stopped-work" if got["inner_runs"] > len(exp["log"]) else "ran-fewer-items"
        return FAIL(f"wrapped-scheduler-{more}|periodic", f"wrapped scheduler ran {got['inner_runs']} items, {len(exp['log'])} invocations expected; case={case}", classes=cls)
    # differential: no raise => CatchScheduler is transparent
    plain = _strip_raises(nodes)
    a = _execute(plain, verdicts, wrapped=True, K=K)
    b = _execute(plain, verdicts, wrapped=False, K=K)
    if a["handled"] or a["escapes"] or b["escapes"] or a["runaway"] or b["runaway"]:
        return FAIL("differential-handler-called-without-raise|action", f"handled={a['handled']} escapes={a['escapes']} case={case}", classes=cls)
    if a["log"] != b["log"]:
        return FAIL("differential-log|action", f"without raises: CatchScheduler log {a['log']} != bare {b['log']} case={case}", classes=cls)
    return OK(nontrivial, cls)


# ----------------------------------------------------------------------------------------------------- strategy
# relative delays, incl. strictly negative ones: on a virtual-time scheduler such an item is due in the past, i.e. it runs
# (at the current clock) BEFORE the items that are due now - through CatchScheduler exactly as on the bare scheduler
_T = st.one_of(st.sampled_from([0, 1, 1, 2, 3]), st.integers(0, 8), st.sampled_from([-1, -1, -2, -3]))


_EXC = st.sampled_from(EXC_TYPES + ("type", "type"))  # type of the exception the node raises (if it raises)


def _kid(depth):
    """A child scheduled from inside a periodic action: immediately or after less than one period (a delay of a whole
    period would tie with the action's own next tick, an order the property does not determine)."""
    return st.tuples(st.integers(1, 12), _node(depth), st.integers(0, 3)).map(
        lambda t: [t[0], dict(t[1], how="now" if t[1]["how"] == "abs" else t[1]["how"], t=t[2], form=None if t[1]["how"] in ("abs", "now") else t[1]["form"])]
    )


def _periodic(kid_depth=None):
    kids = st.just([]) if kid_depth is None else st.one_of(st.just([]), st.lists(_kid(kid_depth), min_size=1, max_size=2))
    return st.fixed_dictionaries(
        {
            "how": st.just("per"),
            "t": st.integers(1, 4),
            "form": st.sampled_from(["num", "int", "td"]),
            "stop_at": st.one_of(st.integers(1, 5), st.integers(1, 5), st.integers(6, 12)),
            "raise_at": st.one_of(st.none(), st.integers(1, 5), st.integers(1, 12)),
            "kids": kids,
            "via": st.sampled_from(["handed", "handed", "outer"]),
            "ops": st.just([]),
            "exc": _EXC,
        }
    ).map(_fix_periodic)


def _fix_periodic(n):
    n = dict(n, raise_at=n["raise_at"] if (n["raise_at"] or 99) <= n["stop_at"] else None)
    kids = []
    for tick, kid in n["kids"]:
        kid = dict(kid)
        if kid["how"] == "rel":
            kid["t"] = kid["t"] % n["t"]  # strictly less than one period
        else:
            kid["t"] = 0
        kids.append([1 + (tick - 1) % n["stop_at"], kid])
    return dict(n, kids=kids)


def _node(depth):
    disp = st.tuples(st.just("dispose"), st.integers(0, 6)).map(list)  # dispose the handle of the (k mod n)-th scheduled node
    if depth == 0:
        ops = st.lists(st.one_of(st.just(["raise"]), disp), max_size=1)
    else:
        child = st.tuples(st.just("child"), st.one_of(_node(depth - 1), _node(depth - 1), _periodic(depth - 1))).map(list)
        ops = st.lists(st.one_of(child, child, child, child, st.just(["raise"]), disp), max_size=3).map(_one_raise)
    plain = st.one_of(
        st.fixed_dictionaries({"how": st.just("now"), "t": st.just(0), "form": st.none()}),
        st.fixed_dictionaries({"how": st.just("rel"), "t": _T, "form": st.sampled_from(["num", "int", "td"])}),
        st.fixed_dictionaries({"how": st.just("abs"), "t": st.integers(0, 12), "form": st.sampled_from(["num", "int", "dt"])}),
    )
    return st.tuples(plain, ops, st.sampled_from(["handed", "handed", "handed", "outer"]), _EXC, _RET).map(
        lambda t: dict(t[0], ops=t[1], via=t[2], exc=t[3], ret=t[4])
    )


RET_KINDS = ("handle", "sad", "mad", "serial", "composite", "plain")
# what the action returns: nothing, or a disposable of some kind standing for (one of / all of) the work it scheduled
_RET = st.one_of(st.none(), st.tuples(st.sampled_from(RET_KINDS), st.integers(0, 2)).map(list))


def _owner_and_disposer(depth):
    """A parent that returns a disposable for delayed nested work, and a later action that disposes the parent's handle
    after the parent ran and (often) before the nested work is due."""
    delayed = st.one_of(_node(depth - 1), _periodic()).flatmap(
        lambda c: st.integers(2, 9).map(lambda t: dict(c, how=c["how"] if c["how"] == "per" else "rel", t=t if c["how"] != "per" else c["t"], form="num" if c["how"] != "per" else c["form"]))
    )
    parent = st.tuples(st.lists(delayed, min_size=1, max_size=2), st.sampled_from(RET_KINDS), st.integers(0, 1), st.sampled_from(["now", "rel"])).map(
        lambda t: {"how": t[3], "t": 0 if t[3] == "now" else 1, "form": None if t[3] == "now" else "num", "ops": [["child", c] for c in t[0]],
                   "via": "handed", "exc": "tagged", "ret": [t[1], t[2]]}  # fmt: skip
    )
    disposer = st.tuples(st.integers(0, 10), st.integers(0, 2)).map(
        lambda t: {"how": "abs", "t": t[0], "form": "num", "ops": [["dispose", t[1]]], "via": "handed", "exc": "tagged", "ret": None}
    )
    return st.tuples(parent, disposer, st.lists(_node(depth - 1), max_size=1)).map(lambda t: [t[0], t[1]] + t[2])


def _one_raise(ops):
    out, seen = [], False
    for op in ops:
        if op[0] == "raise":
            if seen:
                continue
            seen = True
        out.append(op)
    return out


def _cases(depth):
    return st.fixed_dictionaries(
        {
            "roots": st.one_of(
                st.lists(st.one_of(_node(depth), _node(depth), _periodic(depth - 1)), min_size=1, max_size=4),
                # >= 2 periodic actions alive together on one CatchScheduler (plus whatever else)
                st.tuples(st.lists(_periodic(), min_size=2, max_size=3), st.lists(_node(depth), max_size=2)).map(lambda t: t[0] + t[1]),
                # ... or created from inside one action through the scheduler handed to it (one shared recursive wrapper)
                st.tuples(_node(0), st.lists(_periodic(), min_size=2, max_size=3)).map(
                    lambda t: [dict(t[0], ops=[["child", p] for p in t[1]] + [op for op in t[0]["ops"]])]
                ),
                _owner_and_disposer(depth),
            ),
            "verdicts": st.lists(st.booleans(), min_size=1, max_size=4),
            "inner": st.sampled_from(["test", "test", "hist", "vts"]),
        }
    )


def checks(tier):
    return [
        Check(
            "trees",
            _run,
            strategy=_cases(2 if tier == "quick" else 3),
            examples={"quick": 2000, "thorough": 16 * 8000},
            shards={"quick": 4, "thorough": 16},
        ),
    ]
