"""C19 Grouping routes each element to exactly one live group."""
from __future__ import annotations

from hypothesis import strategies as st

from reactivex import operators as ops
from reactivex.subject import ReplaySubject, Subject

from vlib import refwin
from vlib.core import FAIL, OK, SKIP, Check
from vlib.lab import Lab, hpred, timelines
from vlib.values import HASHABLE_NAMES, NAMES, canon, stable_hash, val

PROPERTY_ID = "C19"
LEVEL = "exploration"
RULE = (
    "Cases: one logged virtual-time source (cold / hot / synchronous-at-0 for grouping, cold / hot for partition; "
    "conforming timeline of <=9 elements from the value domain V with same-instant bursts; ends in completion, error or "
    "never; subscribed at tick 0 or 2) and (a) group_by / group_by_until with a key function mapping elements onto a "
    "palette of 1..5 keys drawn from {0, 0.0, False, '', None, (), 1, True, 2, 'a', 'b', (1,)} (so falsy keys and the "
    "dict-equal keys 0/0.0/False and 1/True occur) or the identity key, an optional element mapper, and for "
    "group_by_until 1..3 duration timelines used round-robin per created group (firing by element or completion after "
    "0..6 ticks, or never); (b) partition / partition_indexed with a hashed predicate, a truthiness predicate returning "
    "the element itself, or an index predicate, both outputs subscribed in the same instant before any emission.  The "
    "probe subscribes to every group at the instant it is emitted.  Oracle: independent reference simulation "
    "(vlib/refwin.py): a new group (carrying the key of the element that created it) exactly when an element's key has "
    "no live group (first sight, or its group expired), each mapped element delivered at its tick to exactly the live "
    "group of its key (Python dict key identity) in arrival order, a group ends by completion at its duration's first "
    "notification, all live groups and the outer sequence end with the source's terminal at its instant; an expiry at "
    "exactly the instant of source notifications may be ordered before or after the whole burst (both enumerated). "
    "Partition: first output = [(tick, x) for predicate-true elements], second = the rest, each followed by the source's "
    "terminal.  (c) element-derived durations (the documented group_by_until idiom): duration_mapper=lambda g: "
    "g.pipe(skip(N-1)) (groups of N, N in 1..4) or g.pipe(filter(sentinel)) with a hashed sentinel predicate; closed-form "
    "reference: group k of a key holds exactly N elements / ends at the sentinel element, which IS delivered to that group, "
    "the group completes at that element's tick, the next element of that key opens a new group, the source terminal ends "
    "the open groups and the outer sequence; an exception escaping into the scheduler/subscribe is a violation.  "
    "(d) auxiliary resource clause on the same mechanism (check derived_early_exit, never-ending sources, take(k) on the "
    "outer sequence, group subscribers unsubscribing 0..3 ticks after subscribing): once the outer subscriber and every "
    "group subscriber have terminated or unsubscribed, no source subscription may remain open.  Non-trivial: a key "
    "re-created after expiry, or >=2 groups open when the source errors (derived durations: when it terminates either "
    "way); partition: both outputs non-empty; early exit: all consumers gone while a group's duration was still pending.  "
    "A third of the timeline durations are reactivex.timer(dt) built without a scheduler (the documented idiom), which "
    "must run on the scheduler the pipeline was subscribed with, i.e. expire the group dt virtual ticks after creation.  "
    "Re-entrant arrival (check reentrant): the source is a Subject fed from the timeline, the key function is the "
    "identity and every group is observed through do_action(on_completed=echo); the first 1..3 group completions push "
    "the group's key back into the source synchronously.  That element arrives after its group expired (its subscriber is "
    "being told so), so the reference opens a new group for it at that tick (non-trivial: >=1 echo).  "
    "subject_mapper (check subject_mapper): group_by / group_by_until given lambda: Subject() or the documented "
    "lambda: ReplaySubject(); with the replay subject the group probes may subscribe 1..5 ticks after the group was "
    "emitted and must still observe every element of the group in order and its terminal, none earlier than their own "
    "subscription (expected tick = max(arrival, subscription)).  Thorough: timelines up to 14 elements.  "
    "Second subscription (group_by, group_by_until, derived durations): in about a third of the cases the SAME built "
    "observable is subscribed a second time, after the first subscription is over or overlapping it 1..3 ticks later; "
    "each subscription is judged by the same reference from its own subscribe tick (timeline durations are then a single "
    "timeline); failures of the second subscription carry the suffix ':2nd-subscription'.  Distinct = distinct case JSON."
)
ASSUMPTIONS = [
    "key identity is Python dict identity (== and hash): 0, 0.0 and False share one group, as do 1 and True; the group's key attribute is the key of the element that created it",
    "timeline durations never error and never fire synchronously inside the duration mapper (they are scheduled, possibly for the same instant); element-derived durations fire synchronously from the element that expires the group, after the group subscriber (subscribed on emission) has received it",
    "same-instant order of a group expiry and the source burst is unspecified: either is accepted, consistently for the whole burst",
    "predicates and key/element functions are pure and total",
    "partition outputs are subscribed before the source emits (no synchronous-at-subscribe sources for partition)",
]

INNER = {"mode": "now"}
KEY_NAMES = ["i0", "f0", "false", "s", "none", "t", "i1", "true", "i2", "sa", "sb", "t1"]


def _effective(spec, sub):
    tl = spec["tl"]
    if spec["kind"] in ("cold", "sync"):
        return [[t + sub, k, p] for t, k, p in tl]
    return [[t, k, p] for t, k, p in tl if (t >= 0 if sub == 0 else t > sub)]


def _span(case):
    h = max([m[0] for m in case["src"]["tl"]] or [0])
    extra = 2
    for c in case.get("durations") or ():
        if c["dt"] is not None:
            extra = max(extra, c["dt"] + 2)
    return h + extra + 2 + (case.get("late") or 0)


def _subs(case):
    """Subscribe ticks: the first subscription and, with case["resub"], a second subscription of the SAME built
    observable - after everything of the first has happened ("after") or overlapping it ("overlap", `at` ticks later)."""
    sub = case.get("sub", 0)
    r = case.get("resub")
    if not r:
        return [sub]
    if r["mode"] == "after":
        return [sub, sub + _span(case) + 1]
    return [sub, sub + r["at"]]


def _horizon(case):
    return max(_subs(case)) + _span(case)


SECOND = ":2nd-subscription"


def _subscribe_all(lab, case, obs, inner):
    probes = []
    for i, s in enumerate(_subs(case)):
        p = lab.probe("p" if i == 0 else f"q{i}", inner=inner)
        probes.append(p)
        if s == 0:
            try:
                p.subscribe(obs)
            except Exception as e:  # noqa: synchronous sources emit inside subscribe()
                lab.escaped = e
        else:
            lab.at(s, lambda p=p: p.subscribe(obs))
    return probes


def _resub_classes(case, i):
    r = case.get("resub")
    if not r:
        return []
    return ["second-subscription:" + r["mode"]] if i == 1 else ["resubscribed-case"]


def _keyfn(spec):
    if spec["mode"] == "ident":
        return lambda x: x
    pal = spec["palette"]
    return lambda x: val(pal[stable_hash(canon(x)) % len(pal)])


def _elemfn(tag):
    if tag is None:
        return lambda x: x
    return lambda x: ("m", x)


def _dur_obs(lab, c):
    if c["dt"] is None:
        return lab.cold([])
    if c.get("via") == "timer":
        # a time-based duration built WITHOUT an explicit scheduler (the documented idiom, e.g. reactivex.timer(d)):
        # it runs on the scheduler the pipeline was subscribed with, so the group expires dt virtual ticks after creation
        import reactivex

        return reactivex.timer(lab.rel(c["dt"]))
    return lab.cold([[c["dt"], c["kind"], "i0" if c["kind"] == "N" else None]])


def _observe(p, lab):
    """Groups seen by probe p; each group's key is read from the emitted GroupedObservable itself."""
    by_id = {idx: o for idx, o in lab._obs_ids.values()}
    outer_n = [e for e in p.events if e[1] == "N"]
    keys = [canon(by_id[ip.obs].key) for ip in p.inners]
    groups = []
    for e, ip, k in zip(outer_n, p.inners, keys):
        t = ip.terminal()
        groups.append({"key": k, "open": e[0], "items": [[x[0], x[2]] for x in ip.events if x[1] == "N"], "end": [t[0], t[1], t[2]] if t else None})
    ot = p.terminal()
    return {"groups": groups, "outer_end": [ot[0], ot[1], ot[2]] if ot else None}


def _same(exp, got):
    if exp["outer_end"] != got["outer_end"] or len(exp["groups"]) != len(got["groups"]):
        return False
    return all(a == b for a, b in zip(exp["groups"], got["groups"]))


def _clause(exp, got):
    if len(exp["groups"]) != len(got["groups"]):
        return "group-count"
    for field in ("key", "open", "items", "end"):
        for a, b in zip(exp["groups"], got["groups"]):
            if a[field] != b[field]:
                return {"key": "group-key", "open": "group-emitted-at", "items": "routing", "end": "group-end"}[field]
    return "outer-end"


def _run_group(case):
    f = case["form"]
    subs = _subs(case)
    lab = Lab()
    src = lab.source(case["src"], "src")
    keyfn = _keyfn(case["key"])
    elemfn = _elemfn(case.get("elem"))
    keyf = lab.fn("key", keyfn)
    elemf = lab.fn("elem", elemfn) if case.get("elem") else None
    durs = case.get("durations") or []
    subj = None
    if case.get("subject") == "subject":
        subj = lab.fn("subject", lambda: Subject())
    elif case.get("subject") == "replay":
        subj = lab.fn("subject", lambda: ReplaySubject())
    if f == "group_by":
        op = ops.group_by(keyf, elemf, subj) if subj else ops.group_by(keyf, elemf)
        durs = []
    else:
        durm = lab.fn("dur", lambda g: _dur_obs(lab, durs[(lab.cb_count["dur"] - 1) % len(durs)]))
        op = ops.group_by_until(keyf, elemf, durm, subj) if subj else ops.group_by_until(keyf, elemf, durm)
    obs = src.pipe(op)
    inner = INNER
    if case.get("late"):
        # documented use of subject_mapper (lambda: ReplaySubject()): a group subscriber arriving `late` ticks after
        # the group was emitted still receives every element of the group, in order, and its terminal
        inner = {"mode": "late", "d": case["late"]}
    probes = _subscribe_all(lab, case, obs, inner)
    if lab.escaped is None:
        lab.run(until=_horizon(case))
    if lab.escaped is not None:
        raise lab.escaped
    if lab.inconclusive:
        return SKIP(lab.inconclusive)
    for q in lab.probes:
        ok, msg = q.grammar_ok()
        if not ok:
            return FAIL(f"{f}:grammar", f"{msg} case={case}")
    cls_all, nt = [], False
    for i, (sub, p) in enumerate(zip(subs, probes)):
        res, cls, nt_i = _judge_group(case, i, sub, p, lab, keyfn, elemfn, durs)
        cls_all = cls_all + [c for c in cls if c not in cls_all]
        if res is not None:
            return res
        if i == 0:
            nt = nt_i
        elif nt_i or any(ip.events for ip in p.inners):
            cls_all.append("second-subscription-has-groups")
    return OK(nt, cls_all)


def _late_view(out, d):
    """What a subscriber arriving d ticks after each group's emission observes when the group replays:
    the same elements in the same order and the same terminal, none earlier than its own subscription."""
    res = dict(out)
    res["_late"] = True
    res["_rawgroups"] = out["groups"]
    res["groups"] = []
    for g in out["groups"]:
        s0 = g["open"] + d
        res["groups"].append(
            {
                "key": g["key"],
                "open": g["open"],
                "items": [[max(t, s0), v] for t, v in g["items"]],
                "end": [max(g["end"][0], s0), g["end"][1], g["end"][2]] if g["end"] else None,
            }
        )
    return res


def _judge_group(case, i, sub, p, lab, keyfn, elemfn, durs):
    f = case["form"]
    sfx = SECOND if i == 1 else ""
    got = _observe(p, lab)
    eff = [[t, k, val(pl) if k == "N" else pl] for t, k, pl in _effective(case["src"], sub)]
    sim = refwin.sim_group_by_until(eff, sub, keyfn, elemfn, durs, _horizon(case))
    first, matched, ties = None, None, 0
    try:
        for choice, out in refwin.outcomes(sim, 512):
            if choice is None:
                return SKIP("too-many-ties"), [], False
            if first is None:
                first = out
            ties = max(ties, out["ties"])
            if case.get("late"):
                out = _late_view(out, case["late"])
            if _same(out, got):
                matched = (choice, out)
                break
    except refwin.SimSpin:
        return SKIP("sim-spin"), [], False
    if first is not None and case.get("late") and not first.get("_late"):
        first = _late_view(first, case["late"])
    ref = matched[1] if matched else first
    cls = ["form:" + f, "src:" + case["src"]["kind"], "key:" + case["key"]["mode"]] + _resub_classes(case, i)
    if any(c.get("via") == "timer" and c["dt"] is not None for c in durs):
        cls.append("duration:scheduler-less-timer")
        if any(g["end"] and g["end"][1] == "C" and (ref["outer_end"] is None or g["end"] != ref["outer_end"]) for g in ref["groups"]):
            cls.append("group-expired-by-scheduler-less-timer" if all(c.get("via") == "timer" for c in durs) else "group-expired-mixed-durations")
    if case.get("subject"):
        cls.append("subject_mapper:" + case["subject"])
    if case.get("late"):
        cls.append("late-group-subscriber")
        if any(any(t < g["open"] + case["late"] for t, _ in raw["items"]) for g, raw in zip(ref["groups"], ref["_rawgroups"])):
            cls.append("late-subscriber-received-replayed-elements")
    tl = case["src"]["tl"]
    cls.append("term:" + (tl[-1][1] if tl and tl[-1][1] in ("C", "E") else "never"))
    if case.get("elem"):
        cls.append("element-mapper")
    if ref["recreated"]:
        cls.append("key-recreated-after-expiry")
    if ref["open_at_error"] >= 2:
        cls.append(">=2-groups-open-at-error")
    falsy = {'["int", 0]', '["float", "0.0"]', '["bool", false]', '["str", ""]', '["none"]', '["tuple", []]'}
    import json

    if any(json.dumps(g["key"]) in falsy and g["items"] for g in got["groups"]):
        cls.append("falsy-key-group")
    if ties:
        cls.append("expiry-tie")
        if matched and any(matched[0]):
            cls.append("tie-resolved-expiry-first")
    if any(g["end"] and g["end"][1] == "C" and (got["outer_end"] is None or g["end"][0] < got["outer_end"][0]) for g in got["groups"]):
        cls.append("group-expired")
    if len(got["groups"]) >= 3:
        cls.append(">=3-groups")
    if matched is None:
        return (
            FAIL(f"{f}:{_clause(first, got)}{sfx}|{f}", f"subscription#{i} at {sub} case={case} observed={got} expected(one of, first shown)={ {k: first[k] for k in ('groups', 'outer_end')} }", classes=cls),
            cls,
            False,
        )
    return None, cls, bool(ref["recreated"]) or ref["open_at_error"] >= 2


def _predfn(spec, indexed):
    m = spec["mode"]
    if m == "hash":
        return hpred(spec["m"], spec["res"])
    if m == "truthy":
        return (lambda x, i: x) if indexed else (lambda x: x)
    if m == "index":
        return lambda x, i: i % spec["m"] in spec["res"]
    raise AssertionError(m)


def _run_partition(case):
    f = case["form"]
    indexed = f == "partition_indexed"
    sub = case.get("sub", 0)
    lab = Lab()
    src = lab.source(case["src"], "src")
    pred = _predfn(case["pred"], indexed)
    predf = lab.fn("pred", pred)
    a, b = src.pipe((ops.partition_indexed if indexed else ops.partition)(predf))
    p1, p2 = lab.probe("p1"), lab.probe("p2")

    def go():
        p1.subscribe(a)
        p2.subscribe(b)

    if sub == 0:
        go()
    else:
        lab.at(sub, go)
    lab.run(until=_horizon(case))
    if lab.escaped is not None:
        raise lab.escaped
    if lab.inconclusive:
        return SKIP(lab.inconclusive)
    for q in (p1, p2):
        ok, msg = q.grammar_ok()
        if not ok:
            return FAIL(f"{f}:grammar", f"{msg} case={case}")
    eff = _effective(case["src"], sub)
    e1, e2 = [], []
    i = 0
    for t, k, pl in eff:
        if k == "N":
            x = val(pl)
            r = pred(x, i) if indexed else pred(x)
            (e1 if r else e2).append([t, "N", canon(x)])
            i += 1
        else:
            term = [t, k, ["exc", pl] if k == "E" else None]
            e1.append(term)
            e2.append(term)
    cls = ["form:" + f, "src:" + case["src"]["kind"], "pred:" + case["pred"]["mode"]]
    tl = case["src"]["tl"]
    cls.append("term:" + (tl[-1][1] if tl and tl[-1][1] in ("C", "E") else "never"))
    if len(src.subs) > 1:
        cls.append("source-subscribed-more-than-once")
    g1, g2 = p1.trace(), p2.trace()
    if g1 != e1 or g2 != e2:
        which = "true-output" if g1 != e1 else "false-output"
        return FAIL(f"{f}:{which}|{f}", f"case={case} first={g1} expected={e1} second={g2} expected={e2}", classes=cls)
    n1 = sum(1 for m in e1 if m[1] == "N")
    n2 = sum(1 for m in e2 if m[1] == "N")
    return OK(n1 >= 1 and n2 >= 1, cls)


# ------------------------------------------------------------------------------------------------
# element-derived durations: duration_mapper=lambda g: g.pipe(skip(N-1)) ("groups of N") or g.pipe(filter(sentinel))


def _derived_closes(rule):
    if rule["mode"] == "count":
        return lambda items, e: len(items) == rule["n"]
    pr = hpred(rule["m"], rule["res"])
    return lambda items, e: bool(pr(e))


def _derived_reference(eff, keyfn, elemfn, rule):
    """Group k of a key holds exactly N elements / ends at (and includes) the sentinel element; the next element
    of that key opens a new group; the source terminal ends the open groups and the outer sequence."""
    closes = _derived_closes(rule)
    live, groups, seen = {}, [], set()
    out = {"outer_end": None, "recreated": 0, "open_at_terminal": 0, "open_at_error": 0}
    for t, k, pl in eff:
        if k == "N":
            key = keyfn(pl)
            e = elemfn(pl)
            g = live.get(key)
            if g is None:
                g = {"key": canon(key), "open": t, "items": [], "end": None}
                if key in seen:
                    out["recreated"] += 1
                seen.add(key)
                live[key] = g
                groups.append(g)
            g["items"].append([t, canon(e)])
            if closes(g["items"], e):
                g["end"] = [t, "C", None]
                del live[key]
        else:
            term = [t, k, ["exc", pl] if k == "E" else None]
            out["open_at_terminal"] = len(live)
            if k == "E":
                out["open_at_error"] = len(live)
            for g in live.values():
                g["end"] = term
            live.clear()
            out["outer_end"] = term
            break
    out["groups"] = groups
    return out


def _derived_duration(lab, rule):
    if rule["mode"] == "count":
        return lambda g: g.pipe(ops.skip(rule["n"] - 1))
    pr = hpred(rule["m"], rule["res"])
    return lambda g: g.pipe(ops.filter(lambda e: bool(pr(e))))


def _run_derived(case):
    f = "group_by_until"
    subs = _subs(case)
    rule = case["rule"]
    early = case.get("take") is not None
    lab = Lab()
    src = lab.source(case["src"], "src")
    keyfn = _keyfn(case["key"])
    elemfn = _elemfn(case.get("elem"))
    keyf = lab.fn("key", keyfn)
    elemf = lab.fn("elem", elemfn) if case.get("elem") else None
    durm = lab.fn("dur", _derived_duration(lab, rule))
    chain = [ops.group_by_until(keyf, elemf, durm)]
    if early:
        chain.append(ops.take(case["take"]))
    obs = src.pipe(*chain)
    inner = dict(INNER)
    if case.get("unsub") is not None:
        inner["unsub"] = case["unsub"]
    probes = _subscribe_all(lab, case, obs, inner)
    p = probes[0]
    if lab.escaped is None:
        lab.run(until=_horizon(case) + 6)
    cls = ["form:derived", "rule:" + rule["mode"], "src:" + case["src"]["kind"], "key:" + case["key"]["mode"]]
    tl = case["src"]["tl"]
    termk = tl[-1][1] if tl and tl[-1][1] in ("C", "E") else "never"
    cls.append("term:" + termk)
    if lab.inconclusive:
        return SKIP(lab.inconclusive)
    if lab.escaped is not None:
        e = lab.escaped
        return FAIL(
            f"{f}:derived-duration:{type(e).__name__}-escaped-at-source-{termk}|{f}",
            f"{type(e).__name__}: {e} escaped from the scheduler. case={case} outer={p.trace()} groups={[ip.trace() for ip in p.inners]}",
            classes=cls,
        )
    for q in lab.probes:
        ok, msg = q.grammar_ok()
        if not ok:
            return FAIL(f"{f}:derived-duration:grammar", f"{msg} case={case}", classes=cls)
    if early:
        # auxiliary resource clause (C02 on the C19 mechanism): once the outer subscriber and every group
        # subscriber are gone, nothing may keep the source subscribed
        gone = p.terminal() is not None and all(ip.terminal() is not None or ip.disposed_tick is not None for ip in p.inners)
        cls.append("early-exit:" + ("all-consumers-gone" if gone else "consumer-still-subscribed"))
        if gone and lab.open_subscriptions():
            return FAIL(
                f"{f}:derived-duration:source-still-subscribed-after-all-consumers-left|{f}",
                f"case={case} src.subs={src.subs} outer={p.trace()} groups={[[ip.trace(), ip.disposed_tick] for ip in p.inners]}",
                classes=cls,
            )
        pending = gone and any(ip.terminal() is None for ip in p.inners)
        return OK(pending, cls + (["group-duration-pending-at-exit"] if pending else []))
    nt = False
    for i, (sub, q) in enumerate(zip(subs, probes)):
        sfx = SECOND if i == 1 else ""
        got = _observe(q, lab)
        eff = [[t, k, val(pl) if k == "N" else pl] for t, k, pl in _effective(case["src"], sub)]
        ref = _derived_reference(eff, keyfn, elemfn, rule)
        for c in _resub_classes(case, i):
            cls.append(c)
        if i == 0:
            if case.get("elem"):
                cls.append("element-mapper")
            if ref["recreated"]:
                cls.append("key-recreated-after-expiry")
            if ref["open_at_terminal"] >= 2:
                cls.append(f">=2-groups-open-at-{termk}")
            if any(g["end"] and g["end"][1] == "C" and len(g["items"]) >= 2 and (ref["outer_end"] is None or g["end"][0] < ref["outer_end"][0] or g["end"] != ref["outer_end"]) for g in ref["groups"]):
                cls.append("group-of->=2-closed-by-its-own-element")
            nt = bool(ref["recreated"]) or ref["open_at_terminal"] >= 2
        elif ref["groups"]:
            cls.append("second-subscription-has-groups")
        if not _same(ref, got):
            return FAIL(
                f"{f}:derived-duration:{_clause(ref, got)}{sfx}|{f}",
                f"subscription#{i} at {sub} case={case} observed={got} expected={ {k: ref[k] for k in ('groups', 'outer_end')} }",
                classes=cls,
            )
    return OK(nt, cls)


# ------------------------------------------------------------------------------------------------
# re-entrant arrival: an element of the same key pushed into the source from the expiring group's on_completed


def _run_reentrant(case):
    """Source = a Subject driven by the timeline; every group is observed through do_action(on_completed=echo): the first
    `echo` group completions push the group's key (identity key function) back into the source synchronously.  The
    echoed element arrives after its group expired (its subscriber is being told so), hence it must open a new group."""
    from vlib.values import Tagged

    f = "group_by_until"
    lab = Lab()
    S = Subject()
    keyfn = _keyfn(case["key"])
    elemfn = _elemfn(case.get("elem"))
    keyf = lab.fn("key", keyfn)
    elemf = lab.fn("elem", elemfn) if case.get("elem") else None
    durs = case["durations"]
    durm = lab.fn("dur", lambda g: _dur_obs(lab, durs[(lab.cb_count["dur"] - 1) % len(durs)]))
    budget = [case["echo"]]
    state = {"done": False, "echoed": 0}

    def wrap(g):
        def echo():
            if budget[0] > 0 and not state["done"]:
                budget[0] -= 1
                state["echoed"] += 1
                S.on_next(g.key)

        w = g.pipe(ops.do_action(on_completed=echo))
        w.key = g.key
        return w

    obs = S.pipe(ops.group_by_until(keyf, elemf, durm), ops.map(wrap))
    p = lab.probe("p", inner=INNER)
    p.subscribe(obs)

    def emit(kind, pl):
        if kind == "N":
            S.on_next(val(pl))
        else:
            state["done"] = True
            S.on_error(Tagged(pl)) if kind == "E" else S.on_completed()

    for t, kind, pl in case["src"]["tl"]:
        lab.at(t, lambda kind=kind, pl=pl: emit(kind, pl))
    lab.run(until=_horizon(case) + 2)
    cls = ["form:reentrant", "key:" + case["key"]["mode"]]
    if lab.inconclusive:
        return SKIP(lab.inconclusive)
    if lab.escaped is not None:
        raise lab.escaped
    for q in lab.probes:
        ok, msg = q.grammar_ok()
        if not ok:
            return FAIL(f"{f}:reentrant:grammar", f"{msg} case={case}", classes=cls)
    got = _observe(p, lab)
    eff = [[t, k, val(pl) if k == "N" else pl] for t, k, pl in case["src"]["tl"]]
    sim = refwin.sim_group_by_until(eff, 0, keyfn, elemfn, durs, _horizon(case) + 2, echo=case["echo"])
    first, matched = None, None
    try:
        for choice, out in refwin.outcomes(sim, 512):
            if choice is None:
                return SKIP("too-many-ties")
            if first is None:
                first = out
            if _same(out, got):
                matched = (choice, out)
                break
    except refwin.SimSpin:
        return SKIP("sim-spin")
    ref = matched[1] if matched else first
    if ref["echoed"]:
        cls.append("element-pushed-from-group-completion")
    if ref["echoed"] >= 2:
        cls.append(">=2-echoes")
    if case.get("elem"):
        cls.append("element-mapper")
    if matched is None:
        return FAIL(f"{f}:reentrant:{_clause(first, got)}|{f}", f"case={case} observed={got} expected(one of, first shown)={ {k: first[k] for k in ('groups', 'outer_end')} }", classes=cls)
    return OK(ref["echoed"] >= 1, cls)


def _run(case):
    if case["form"] == "reentrant":
        return _run_reentrant(case)
    if case["form"] == "derived":
        return _run_derived(case)
    if case["form"] in ("group_by", "group_by_until"):
        return _run_group(case)
    return _run_partition(case)


# ------------------------------------------------------------------------------------------------
# generation

_sub = st.sampled_from([0, 0, 0, 2])
_dur = st.fixed_dictionaries(
    {"dt": st.sampled_from([0, 1, 1, 2, 2, 3, 4, 6, None]), "kind": st.sampled_from(["N", "N", "C"]), "via": st.sampled_from(["timeline", "timeline", "timer"])}
)


_resub = st.sampled_from([None, None, None, None, {"mode": "after"}, {"mode": "after"}, {"mode": "overlap", "at": 1}, {"mode": "overlap", "at": 3}])


@st.composite
def _group_cases(draw, form, resub_ok=True, tier="quick"):
    mode = draw(st.sampled_from(["hash", "hash", "hash", "ident"]))
    names = HASHABLE_NAMES if mode == "ident" else NAMES
    if mode == "ident" and draw(st.booleans()):
        names = ["i0", "false", "none", "s", "t", "i1"]  # few identity keys: groups get several elements
    src = {
        "kind": draw(st.sampled_from(["cold", "cold", "hot", "sync"])),
        "tl": draw(timelines(max_len=9 if tier == "quick" else 14, max_dt=2, values=names, terminal=("C", "E", "E", None))),
    }
    key = {"mode": mode}
    if mode == "hash":
        n = draw(st.sampled_from([1, 2, 2, 3, 3, 4, 5]))
        key["palette"] = draw(st.lists(st.sampled_from(KEY_NAMES), min_size=n, max_size=n))
    case = {"form": form, "src": src, "sub": draw(_sub), "key": key, "elem": draw(st.sampled_from([None, None, "tag"]))}
    resub = draw(_resub) if resub_ok else None
    if resub is not None:
        case["resub"] = resub
    if form == "group_by_until":
        # the duration list is consumed round-robin by a per-observable call counter: with two subscriptions the
        # reference can only predict it when there is a single duration
        case["durations"] = draw(st.lists(_dur, min_size=1, max_size=1 if resub else 3))
    return case


_pred = st.one_of(
    st.fixed_dictionaries({"mode": st.just("hash"), "m": st.sampled_from([2, 3, 4]), "res": st.lists(st.integers(0, 3), min_size=0, max_size=3, unique=True)}),
    st.fixed_dictionaries({"mode": st.just("truthy")}),
)
_pred_idx = st.one_of(
    _pred,
    st.fixed_dictionaries({"mode": st.just("index"), "m": st.sampled_from([2, 3, 4]), "res": st.lists(st.integers(0, 3), min_size=1, max_size=2, unique=True)}),
)


def _partition_cases(form):
    return st.fixed_dictionaries(
        {
            "form": st.just(form),
            "src": st.fixed_dictionaries(
                {"kind": st.sampled_from(["cold", "cold", "hot"]), "tl": timelines(max_len=9, max_dt=2, values=NAMES, terminal=("C", "C", "E", None))}
            ),
            "sub": _sub,
            "pred": _pred_idx if form == "partition_indexed" else _pred,
        }
    )


@st.composite
def _subject_cases(draw, tier):
    case = draw(_group_cases(draw(st.sampled_from(["group_by", "group_by_until", "group_by_until"])), tier=tier))
    case["subject"] = draw(st.sampled_from(["subject", "replay", "replay", "replay"]))
    if case["subject"] == "replay":
        late = draw(st.sampled_from([0, 1, 2, 3, 5]))
        if late:
            case["late"] = late
    return case


@st.composite
def _reentrant_cases(draw, tier):
    names = draw(st.sampled_from([["i0", "false", "none", "s", "t", "i1"], ["i1", "i2", "sa"], HASHABLE_NAMES]))
    tl = draw(timelines(max_len=7 if tier == "quick" else 10, max_dt=2, values=names, terminal=("C", "E", None)))
    durs = draw(st.lists(st.fixed_dictionaries({"dt": st.sampled_from([0, 1, 1, 2, 3, None]), "kind": st.sampled_from(["N", "C"]), "via": st.sampled_from(["timeline", "timeline", "timer"])}), min_size=1, max_size=3))
    return {
        "form": "reentrant",
        "src": {"kind": "subject", "tl": tl},
        "sub": 0,
        "key": {"mode": "ident"},
        "elem": draw(st.sampled_from([None, None, "tag"])),
        "durations": durs,
        "echo": draw(st.sampled_from([1, 1, 2, 3])),
    }


_rule = st.one_of(
    st.fixed_dictionaries({"mode": st.just("count"), "n": st.sampled_from([1, 2, 2, 3, 4])}),
    st.fixed_dictionaries({"mode": st.just("sentinel"), "m": st.sampled_from([2, 3, 4]), "res": st.lists(st.integers(0, 3), min_size=1, max_size=2, unique=True)}),
)


@st.composite
def _derived_cases(draw, early, tier="quick"):
    case = draw(_group_cases("group_by", resub_ok=not early, tier=tier))
    case["form"] = "derived"
    case["rule"] = draw(_rule)
    if early:
        tl = [m for m in case["src"]["tl"] if m[1] == "N"]  # the pipeline is ended from downstream, never by the source
        case["src"]["tl"] = tl
        case["take"] = draw(st.sampled_from([1, 2, 2, 3]))
        case["unsub"] = draw(st.sampled_from([0, 1, 2, 3]))
    return case


def checks(tier):
    return [
        Check("group_by", _run, strategy=_group_cases("group_by", tier=tier), examples={"quick": 800, "thorough": 16 * 5000}, shards={"quick": 4, "thorough": 16}),
        Check("group_by_until", _run, strategy=_group_cases("group_by_until", tier=tier), examples={"quick": 2000, "thorough": 16 * 12000}, shards={"quick": 4, "thorough": 16}),
        Check("partition", _run, strategy=_partition_cases("partition"), examples={"quick": 400, "thorough": 16 * 2500}, shards={"quick": 4, "thorough": 16}),
        Check("partition_indexed", _run, strategy=_partition_cases("partition_indexed"), examples={"quick": 400, "thorough": 16 * 2500}, shards={"quick": 4, "thorough": 16}),
        Check("subject_mapper", _run, strategy=_subject_cases(tier), examples={"quick": 500, "thorough": 16 * 4000}, shards={"quick": 4, "thorough": 16}),
        Check("reentrant", _run, strategy=_reentrant_cases(tier), examples={"quick": 500, "thorough": 16 * 3000}, shards={"quick": 4, "thorough": 16}),
        Check("derived_early_exit", _run, strategy=_derived_cases(True, tier), examples={"quick": 500, "thorough": 16 * 3000}, shards={"quick": 4, "thorough": 16}),
        Check("derived_duration", _run, strategy=_derived_cases(False, tier), examples={"quick": 1200, "thorough": 16 * 8000}, shards={"quick": 4, "thorough": 16}),
    ]
