"""C09 Exceptions raised by user callbacks are delivered as on_error (fault enumeration)."""
from __future__ import annotations

from dataclasses import dataclass
from typing import Any, Callable

from hypothesis import strategies as st

import sys

import reactivex
from reactivex import Observable
from reactivex import operators as ops
from reactivex.disposable import Disposable

from vlib.core import FAIL, OK, SKIP, Check, HarnessError
from vlib.lab import BudgetExceeded, Lab, LoggedCold, SpinGuard
from vlib.pipes import OPS, Builder, _kind_after, pipelines
from vlib.values import Tagged, val

PROPERTY_ID = "C09"
LEVEL = "fault_enumeration"
RULE = (
    "Enumerated: every (operator form, callback slot) of the shared operator table (every slot of vlib.pipes.OPS except "
    "finally_action.action; 1-3 argument forms per operator) plus the creation-function callbacks (defer factory, case mapper, "
    "if_then condition, using resource/observable factories, generate condition/iterate, generate_with_relative_time "
    "condition/iterate/time_mapper incl. zero delay, from_callable supplier, start func, to_async func, on_error_resume_next "
    "callable source, for_in mapper, from_callback mapper, partition predicate, create subscribe function, publish_value mapper, "
    "group_by/group_by_until subject_mapper, min_by/max_by comparer) x k in {0,1,2,last} x source family {hot, cold, sync}: "
    "the slot is armed to raise a tagged exception at its k-th invocation ('last' = last invocation of an unarmed dry run). "
    "Single-invocation-per-subscription slots are wrapped in repeat() so that k>=1 means 'during a re-subscription'. "
    "Thorough additionally embeds each operator form (fixed or randomly drawn arguments) between a random prefix pipeline and a "
    "random non-absorbing, non-time-shifting suffix. Oracle: (a) subscribe() returns normally and nothing escapes "
    "scheduler.start(); (b) the probe's terminal is on_error carrying exactly the injected exception; (c) no user callback is "
    "logged after the failure (except a downstream do_action.on_error / finally_action, callbacks still running in the very scheduler "
    "action in which the failure happened, and callbacks driven by a source whose subscription could not be closed yet), every probe trace matches N*(E|C)?, "
    "and no logged source subscription (or `using` resource) stays open; enumerated forms additionally require every source the pipeline was "
    "built over to be released within the virtual instant of the on_error, also with window/group subscribers attached directly "
    "(inner probes subscribe every window/group at once; group_join is enumerated both through flat_map and with its windows subscribed "
    "directly), and excuse later callbacks only for a synchronous source still emitting inside its own subscribe(). Non-trivial: the armed invocation was reached. "
    "Check `nested` (enumerated, no scheduler argument, no virtual time): a subscribe-time callback of an INNER sequence (multicast "
    "subject_factory/mapper, publish/replay mapper, create's subscribe function; using/defer factories as controls) is armed at its "
    "k-th call (k in 0..2) while the inner sequence is subscribed by flat_map/concat_map/switch_map/merge_all/switch_latest/"
    "merge(max_concurrent=1)/catch/concat synchronously inside another subscribe() on the current-thread trampoline, under an emitter that "
    "does not catch (synchronous source, BehaviorSubject replaying on subscribe, Subject/BehaviorSubject pushed from plain code or from a "
    "trampoline action; subscribe() itself called directly or from a trampoline action): same oracle, plus values pushed after the failure "
    "must reach no callback and the subject must have no observer left. "
    "Distinct = distinct case JSON. The 'reach' check fails (harness error) if some (form, slot) is reached in none of its cases."
)
ASSUMPTIONS = [
    "finally_action's action runs during dispose (after the terminal was delivered), not while a notification is processed: not judged",
    "do_action's callbacks are side-effect callbacks not named by the property text; they are judged because the code guards them explicitly (reported under class side-effect-slot)",
    "a failure reached only after the top subscriber already terminated (live group/window subscribers) is judged for clause (a) only",
    "thorough: clause (c) 'no further callbacks / all subscriptions closed' is judged only when no inner (group/window) subscriber was adopted, since a live inner subscriber legitimately keeps the upstream running",
    "embedded: clause (b) is demanded only while the target is still subscribed: if the downstream unsubscribed after the callback raised but before an asynchronously delivered on_error (using -> scheduled throw) could arrive, with no notification in between, only (a) and (c) are judged (class unsubscribed-before-delivery); forms with asynchronous delivery only get suffix operators that never unsubscribe early",
    "embedded: while a synchronous source, or the target operator itself, is still emitting from inside subscribe() a finished downstream operator cannot unsubscribe yet; then only 'the exception reached the operator's observer as on_error' is demanded (class b-not-judged-sync-emitter)",
    "embedded: the element kind is tracked through prefix, target and suffix (operators that inject defaults/initial values reset it), and a generated surrounding pipeline that already fails without any injection is discarded (class inconclusive:pipeline-fails-unarmed)",
    "cases with >=90 actions at one virtual instant or exceeding the work budget are discarded as inconclusive and counted",
]

VALS = ["i1", "sa", "none", "i0"]
P_T = {"m": 4, "r": [0, 1, 2, 3]}  # always true
P_F = {"m": 2, "r": []}  # always false
BIG = 1000003  # modulus making hash keys practically injective on the few values used
FAMS = ("hot", "cold", "sync")
KS = (0, 1, 2, "last")
NREP = 5


def _tl(shape, fam, vals=VALS):
    """Main-source timeline of a shape for a source family."""
    if shape == "std":
        body = [["N", v] for v in vals] + [["C", None]]
    elif shape == "err":
        body = [["N", vals[0]], ["N", vals[1]], ["E", "e1"]]
    elif shape == "rep":
        body = [["N", vals[0]], ["C", None]]
    elif shape == "reperr":
        body = [["N", vals[0]], ["E", "e1"]]
    else:
        raise HarnessError(f"shape {shape}")
    if fam == "sync":
        return [[0, k, p] for k, p in body]
    tl = [[i + 1, k, p] for i, (k, p) in enumerate(body)]
    if fam == "hot" and shape in ("rep", "reperr"):
        # a hot source that serves NREP successive subscriptions, each seeing a conforming sequence
        n = len(body)
        tl = [[r * n + i + 1, k, p] for r in range(NREP) for i, (k, p) in enumerate(body)]
    return tl


def _spec(shape, fam, vals=VALS):
    return {"kind": fam, "tl": _tl(shape, fam, vals)}


def _inner(dt=1, n=1):
    """A cold inner/duration source: n elements then completion, all after dt ticks."""
    return {"kind": "cold", "tl": [[dt, "N", "i2"]] * n + [[dt, "C", None]]}


def _inner_sync():
    return {"kind": "sync", "tl": [[0, "C", None]]}


@dataclass
class Form:
    id: str
    slots: tuple
    op: str | None = None  # OPS name (operator forms)
    args: Callable[[str], dict] | None = None
    shape: str = "std"
    post: tuple = ()
    build: Callable[[Any, str, dict], Any] | None = None  # root forms: (B, fam, ctx) -> Observable
    fams: tuple = FAMS


FORMS: dict[str, Form] = {}


def F(id, slots, op=None, args=None, shape="std", post=(), build=None, fams=FAMS):
    if isinstance(slots, str):
        slots = (slots,)
    if args is None:
        args = lambda fam: {}
    elif isinstance(args, dict):
        d = args
        args = lambda fam: d
    FORMS[id] = Form(id, tuple(slots), op or (None if build else id.split("#")[0]), args, shape, tuple(post), build, fams)


REPEAT = (["repeat", {"n": NREP}],)

# --- operator forms ---------------------------------------------------------------------
for _n in ("map", "map_indexed", "starmap", "starmap_indexed"):
    F(_n, "mapper", args={"tag": "a"})
F("filter#T", "predicate", args={"p": P_T})
F("filter#F", "predicate", args={"p": P_F})
F("filter_indexed", "predicate", args={"p": P_T})
F("take_while", "predicate", args={"p": P_T, "inc": False})
F("take_while#inc", "predicate", args={"p": P_T, "inc": True})
F("take_while_indexed", "predicate", args={"p": P_T, "inc": False})
F("skip_while", "predicate", args={"p": P_T})
F("skip_while_indexed", "predicate", args={"p": P_T})
for _n in ("distinct", "distinct_until_changed"):
    F(_n + "#key", "key_mapper", args={"k": BIG, "c": None})
    F(_n + "#cmp", "comparer", args={"k": None, "c": BIG})
    F(_n + "#both", ("key_mapper", "comparer"), args={"k": BIG, "c": BIG})
F("find", "predicate", args={"p": P_F})
F("find_index", "predicate", args={"p": P_F})
for _n in ("reduce", "scan"):
    F(_n, "accumulator", args={"seed": None})
    F(_n + "#seed", "accumulator", args={"seed": "i0"})
F("count", "predicate", args={"p": P_T})
for _n in ("sum", "average"):
    F(_n, "key_mapper")
for _n in ("min", "max"):
    F(_n, "comparer")
for _n in ("min_by", "max_by"):
    F(_n, "key_mapper", args={"k": 3})
F("to_dict", ("key_mapper", "element_mapper"), args={"k": BIG})
F("first", "predicate", args={"p": P_F})
F("first_or_default", "predicate", args={"p": P_F, "v": "none"})
F("last", "predicate", args={"p": P_T})
F("last_or_default", "predicate", args={"p": P_T, "v": "none"})
F("single", "predicate", args={"p": P_F})
F("single_or_default", "predicate", args={"p": P_F, "v": "none"})
F("all", "predicate", args={"p": P_T})
F("some", "predicate", args={"p": P_F})
F("contains", "comparer", args={"v": "t1", "c": BIG})
F("sequence_equal", "comparer", args=lambda fam: {"o": _spec("std", fam), "c": 1})
F("catch_handler", "handler", args={"os": [_inner_sync()]}, shape="reperr", post=REPEAT)
for _n in ("flat_map", "flat_map_indexed", "concat_map", "switch_map", "switch_map_indexed", "flat_map_latest", "map_to_obs"):
    F(_n, "mapper", args={"os": [_inner(1)]})
F("expand", "mapper", args={"os": [_inner(1)]})
for _n in ("window_when", "buffer_when"):
    F(_n, "closing_mapper", args={"os": [_inner(1)]})
for _n in ("window_toggle", "buffer_toggle"):
    F(_n, "closing_mapper", args=lambda fam: {"o": _spec("std", fam), "os": [_inner(1)]})
F("group_by", ("key_mapper", "element_mapper"), args={"k": BIG, "e": True})
F("group_by#noelem", "key_mapper", args={"k": BIG, "e": False})
F("group_by_until", ("key_mapper", "element_mapper", "duration_mapper"), args={"k": BIG, "e": True, "os": [_inner(2)]})
for _n in ("join", "group_join"):
    F(_n, ("left_duration", "right_duration"), args=lambda fam: {"o": _spec("std", fam), "l": [_inner(2)], "r": [_inner(2)]})
F("delay_with_mapper", "delay_duration_mapper", args={"sd": None, "os": [_inner(1)]})
F("delay_with_mapper#sd", "delay_duration_mapper", args={"sd": {"kind": "cold", "tl": [[1, "C", None]]}, "os": [_inner(1)]})
F("throttle_with_mapper", "throttle_duration_mapper", args={"os": [_inner(2)]})
F("timeout_with_mapper", "timeout_duration_mapper", args={"f": None, "os": [_inner(3)], "o": None})
F("timeout_with_mapper#first", "timeout_duration_mapper", args={"f": _inner(3), "os": [_inner(3)], "o": {"kind": "cold", "tl": [[1, "C", None]]}})
F("do_action#std", ("on_next", "on_completed"), args={"n": True, "e": True, "c": True})
F("do_action#err", ("on_next", "on_error"), args={"n": True, "e": True, "c": True}, shape="err")
F("publish_mapper", "mapper", args={"tag": "a"}, shape="rep", post=REPEAT)
F("replay_mapper", "mapper", args={"n": 2}, shape="rep", post=REPEAT)
for _k in ("subject", "behavior", "replay"):
    F("multicast_factory_mapper#" + _k, ("subject_factory", "mapper"), args={"kind": _k}, shape="rep", post=REPEAT)
F("while_do", "condition", args={"n": 3}, shape="rep")
F("do_while", "condition", args={"n": 3}, shape="rep")

SIDE_EFFECT_FORMS = ("do_action#std", "do_action#err")

# --- creation-function (root) forms ------------------------------------------------------


def _b_defer(B, fam, ctx):
    src = B.src(_spec("rep", fam))
    return reactivex.defer(B.fn("factory", lambda sch: src))


def _b_case(B, fam, ctx):
    a, b = B.src(_spec("rep", fam)), B.src(_spec("rep", fam, ["sa"]))
    cnt = [0]

    def mapper():
        cnt[0] += 1
        return cnt[0] % 3  # 1, 2, then 0 -> KeyError -> default source

    return reactivex.case(B.fn("mapper", mapper), {1: a, 2: b}, a)


def _b_if_then(B, fam, ctx):
    a, b = B.src(_spec("rep", fam)), B.src(_spec("rep", fam, ["sa"]))
    cnt = [0]

    def cond():
        cnt[0] += 1
        return cnt[0] % 2 == 1

    return reactivex.if_then(B.fn("condition", cond), a, b)


class _Res(Disposable):
    def __init__(self, ctx):
        super().__init__()
        self.closed = False
        ctx.setdefault("resources", []).append(self)

    def dispose(self):
        self.closed = True
        super().dispose()


def _b_using(B, fam, ctx):
    src = B.src(_spec("rep", fam))
    return reactivex.using(B.fn("resource_factory", lambda: _Res(ctx)), B.fn("observable_factory", lambda r: src))


def _b_generate(B, fam, ctx):
    return reactivex.generate(0, B.fn("condition", lambda x: x < 4), B.fn("iterate", lambda x: x + 1))


def _b_gwrt(zero):
    def b(B, fam, ctx):
        return reactivex.generate_with_relative_time(
            0, B.fn("condition", lambda x: x < 4), B.fn("iterate", lambda x: x + 1), B.fn("time_mapper", lambda x: B.lab.rel(0 if zero else 1))
        )

    return b


def _b_from_callable(B, fam, ctx):
    return reactivex.from_callable(B.fn("supplier", lambda: "v"))


def _b_start(B, fam, ctx):
    return reactivex.start(B.fn("func", lambda: "v"), B.lab.sched)


def _b_to_async(B, fam, ctx):
    f = reactivex.to_async(B.fn("func", lambda a, b: (a, b)), B.lab.sched)
    return f(1, 2)


def _b_oern(B, fam, ctx):
    first = B.src(_spec("reperr", fam))
    nxt = "sync" if fam == "sync" else "cold"
    cnt = [0]

    def nxt_source(e):
        cnt[0] += 1
        return B.src(_spec("reperr" if cnt[0] % 2 else "rep", nxt))

    f = B.fn("source", nxt_source)
    return reactivex.on_error_resume_next(first, f, f, f, f)


def _b_for_in(B, fam, ctx):
    if fam == "hot":
        hots = [B.src({"kind": "hot", "tl": [[2 * i + 1, "N", VALS[i]], [2 * i + 2, "C", None]]}) for i in range(4)]
        m = lambda i: hots[i]
    else:
        m = lambda i: B.src(_spec("rep", fam, [VALS[i]]))
    return reactivex.for_in([0, 1, 2, 3], B.fn("mapper", m))


def _b_from_callback(B, fam, ctx):
    def func(a, cb):
        cb(a, "x")

    f = reactivex.from_callback(func, B.fn("mapper", lambda args: ("m",) + tuple(args)))
    return f("a")


def _b_partition(indexed):
    def b(B, fam, ctx):
        src = B.src(_spec("std", fam))
        if fam != "hot":
            src = src.pipe(ops.share())
        p = B.pred("predicate", {"m": 2, "r": [0]})
        a, b_ = src.pipe(ops.partition_indexed(p) if indexed else ops.partition(p))
        return reactivex.merge(a, b_)

    return b


F("R:defer", "factory", build=_b_defer, post=REPEAT)
F("R:case", "mapper", build=_b_case, post=REPEAT)
F("R:if_then", "condition", build=_b_if_then, post=REPEAT)
F("R:using", ("resource_factory", "observable_factory"), build=_b_using, post=REPEAT)
F("R:generate", ("condition", "iterate"), build=_b_generate, fams=("cold",))
F("R:generate_with_relative_time", ("condition", "iterate", "time_mapper"), build=_b_gwrt(False), fams=("cold",))
F("R:generate_with_relative_time#zero", ("condition", "iterate", "time_mapper"), build=_b_gwrt(True), fams=("cold",))
F("R:from_callable", "supplier", build=_b_from_callable, post=REPEAT, fams=("cold",))
F("R:start", "func", build=_b_start, fams=("cold",))
F("R:to_async", "func", build=_b_to_async, fams=("cold",))
F("R:on_error_resume_next", "source", build=_b_oern)
F("R:for_in", "mapper", build=_b_for_in)
F("R:from_callback", "mapper", build=_b_from_callback, post=REPEAT, fams=("cold",))
F("R:partition", "predicate", build=_b_partition(False))
F("R:partition_indexed", "predicate", build=_b_partition(True))


# --- further in-statement callbacks of public operators that the shared table has no slot for -----------------


def _b_publish_value(B, fam, ctx):
    src = B.src(_spec("rep", fam))
    return src.pipe(ops.publish_value(val("i0"), B.fn("mapper", lambda shared: shared)))


def _b_group_subject(until):
    def b(B, fam, ctx):
        from reactivex.subject import Subject as _Subject

        src = B.src(_spec("std", fam))
        key = B.key("key_mapper", BIG)
        sm = B.fn("subject_mapper", lambda: _Subject())
        if until:
            dur = B.inner_factory("duration_mapper", [_inner(2)])
            return src.pipe(ops.group_by_until(key, None, lambda g: dur(g.key), sm))
        return src.pipe(ops.group_by(key, None, sm))

    return b


def _b_extrema_cmp(name):
    def b(B, fam, ctx):
        src = B.src(_spec("std", fam))
        return src.pipe(getattr(ops, name)(B.key("key_mapper", BIG), B.sub("comparer")))

    return b


def _b_create(B, fam, ctx):
    def sub(observer, scheduler=None):
        observer.on_next("created")
        observer.on_completed()
        return Disposable()

    return reactivex.create(B.fn("subscribe", sub))


def _b_group_join_direct(B, fam, ctx):
    """group_join whose windows are subscribed directly by the consumer (the table form consumes them through flat_map)."""
    left, right = B.src(_spec("std", fam)), B.src(_spec("std", fam))
    ld = B.inner_factory("left_duration", [_inner(2)])
    rd = B.inner_factory("right_duration", [_inner(2)])
    return left.pipe(ops.group_join(right, ld, rd), ops.map(lambda t: t[1]))


F("X:group_join#direct", ("left_duration", "right_duration"), build=_b_group_join_direct)
F("X:publish_value", "mapper", build=_b_publish_value, post=REPEAT)
F("X:group_by#subject", "subject_mapper", build=_b_group_subject(False))
F("X:group_by_until#subject", "subject_mapper", build=_b_group_subject(True))
F("X:min_by#cmp", "comparer", build=_b_extrema_cmp("min_by"))
F("X:max_by#cmp", "comparer", build=_b_extrema_cmp("max_by"))
F("R:create", "subscribe", build=_b_create, post=REPEAT, fams=("cold",))
EXTRA_FORMS = ("X:group_join#direct", "X:publish_value", "X:group_by#subject", "X:group_by_until#subject", "X:min_by#cmp", "X:max_by#cmp", "R:create")

# slots of the shared table that are deliberately not judged
EXCLUDED_SLOTS = {("finally_action", "action")}


def _table_coverage():
    """Every slot of vlib.pipes.OPS is targeted by at least one form (or explicitly excluded)."""
    have = set()
    for f in FORMS.values():
        if f.build is None:
            for s in f.slots:
                have.add((f.op, s))
    missing = [(n, s) for n, o in OPS.items() for s in o.slots if (n, s) not in have and (n, s) not in EXCLUDED_SLOTS]
    if missing:
        raise HarnessError(f"C09: operator-table slots without a form: {missing}")


_table_coverage()

# operators that may legitimately keep the failure from the subscriber when placed after the failing operator
ABSORBERS = ("catch", "catch_handler", "on_error_resume_next", "retry", "materialize")
AFTER_OK = (".do_action.on_error", ".finally_action.action")


# ---------------------------------------------------------------------------------------


def _build(lab, case, ctx):
    """-> (observable, absolute slot name of the target)"""
    B = Builder(lab)
    form = FORMS[case["form"]]
    fam = case["fam"]
    pre = case.get("pre")
    if form.build is not None:
        B.cur = form.id
        o = form.build(B, fam, ctx)
        tslot = B.slot(case["slot"])
    else:
        if pre is not None:
            o = B.build(pre)
        else:
            o = B.src(_spec(form.shape, fam))
        args = case.get("args")
        if args is None:
            args = form.args(fam)
        tslot = f"{B.opi}.{form.op}.{case['slot']}"
        o = B.build_op(form.op, args)(o)
    ctx["n_static"] = len(lab.sources)
    if case.get("pre") is not None or case.get("suf"):
        ctx["spy"] = _Spy(lab)
        o = ctx["spy"](o)
    for name, args in list(form.post) + list(case.get("suf") or ()):
        o = B.build_op(name, args)(o)
    return o, tslot


class _Lab(Lab):
    """Lab that also records, per callback log entry, the ordinal of the scheduler action it ran in."""

    def __init__(self):
        super().__init__()
        self.action_no = 0
        self.cb_action = []  # parallel to cb_log

    def _on_action(self):
        self.action_no += 1
        super()._on_action()

    def step(self):
        super().step()
        try:
            sys._getframe(450)
        except ValueError:
            return
        # runaway synchronous recursion (e.g. a closing selector that fires inside subscribe): inconclusive, not a verdict
        raise BudgetExceeded()

    def fn(self, slot, f):
        inner = super().fn(slot, f)

        def wrapped(*args):
            self.cb_action.append(self.action_no)
            return inner(*args)

        return wrapped


class _Spy:
    """Transparent operator placed right after the target: records whether a downstream subscription to the target is
    live at a given sequence point and which errors the target handed downstream."""

    def __init__(self, lab):
        self.lab = lab
        self.subs = []  # [open_seq, end_seq|None, how: None|"terminal"|"disposed", seq at which subscribe() returned|None]
        self.errors = []  # [seq, exception]
        self.passed = []  # seq of every notification that went through

    def __call__(self, source):
        lab = self.lab

        def subscribe(observer, scheduler=None):
            rec = [lab.next_seq(), None, None, None]
            self.subs.append(rec)

            def end(how):
                if rec[1] is None:
                    rec[1] = lab.next_seq()
                    rec[2] = how

            def on_next(x):
                self.passed.append(lab.next_seq())
                observer.on_next(x)

            def on_error(e):
                self.passed.append(lab.next_seq())
                self.errors.append([lab.next_seq(), e])
                end("terminal")
                observer.on_error(e)

            def on_completed():
                self.passed.append(lab.next_seq())
                end("terminal")
                observer.on_completed()

            d = source.subscribe(on_next, on_error, on_completed, scheduler=scheduler)
            rec[3] = lab.next_seq()

            def dispose():
                end("disposed")
                d.dispose()

            return Disposable(dispose)

        return Observable(subscribe)

    def unsubscribed_before_delivery(self, seq):
        """The subscription that was live at `seq` was disposed by the downstream later on without any notification having
        passed in between: a delivery still pending at that moment (e.g. a scheduled throw()) was legitimately cancelled."""
        for a, b, how, _r in self.subs:
            if a < seq and b is not None and b > seq and how == "disposed":
                if not any(seq < q < b for q in self.passed):
                    return True
        return False

    def live_at(self, seq):
        return any(a < seq and (b is None or b > seq) for a, b, _h, _r in self.subs)

    def subscribing_at(self, seq):
        """The target was still inside its own subscribe() at `seq` (it emits or calls back synchronously while being
        subscribed): a downstream operator that is already finished has no disposable yet to unsubscribe with."""
        return any(a < seq and (r is None or r > seq) for a, _b, _h, r in self.subs)


def _execute(case, k):
    """One run with the target armed at invocation k (None = unarmed dry run)."""
    lab = _Lab()
    ctx = {}
    o, tslot = _build(lab, case, ctx)
    inner = case.get("inner", "now")
    p = lab.probe("p", inner={"mode": inner} if inner else None)
    if k is not None:
        lab.arm = {tslot: {k}}
    sub_exc = None
    try:
        p.subscribe(o)
    except (BudgetExceeded, SpinGuard):
        lab.inconclusive = "budget-in-subscribe"
    except RecursionError:
        lab.inconclusive = "recursion-in-subscribe"
    except Exception as e:  # noqa  (oracle clause (a))
        sub_exc = e
    if sub_exc is None and not lab.inconclusive:
        lab.run()
    return lab, p, tslot, ctx, sub_exc


def _run(case):
    form = FORMS[case["form"]]
    label = f"{case['form']}.{case['slot']}"
    k = case["k"]
    cls = [f"fam:{case['fam']}", f"k:{k}"]
    if case["form"] in SIDE_EFFECT_FORMS:
        cls.append("side-effect-slot")
    if case["form"] in EXTRA_FORMS:
        cls.append("extra-form-outside-table")
    embedded = case.get("pre") is not None or bool(case.get("suf")) or case.get("args") is not None
    if k == "last":
        lab0, p0, tslot, _, exc0 = _execute(case, None)
        if lab0.inconclusive:
            return SKIP(lab0.inconclusive)
        if embedded and (exc0 is not None or lab0.escaped is not None):
            return SKIP("pipeline-fails-unarmed")  # the generated surroundings misbehave without any injection: not C09's business
        if exc0 is not None:
            raise exc0
        if lab0.escaped is not None:
            raise lab0.escaped
        n = lab0.cb_count.get(tslot, 0)
        if n == 0:
            return OK(False, cls + ["unreached", "unreached:" + label])
        k = n - 1
    lab, p, tslot, ctx, sub_exc = _execute(case, k)
    if lab.inconclusive:
        return SKIP(lab.inconclusive)
    tag = f"inj:{tslot}:{k}"
    detail = f"case={case} slot={tslot} k={k} trace={p.trace()}"
    # (a) no escape
    foreign = sub_exc if sub_exc is not None else lab.escaped
    if embedded and foreign is not None and not (isinstance(foreign, Tagged) and foreign.tag == tag):
        # some other exception escaped: judge it only if the same pipeline is clean when nothing is injected
        lab0, _p0, _t0, _c0, exc0 = _execute(case, None)
        if lab0.inconclusive or exc0 is not None or lab0.escaped is not None:
            return SKIP("pipeline-fails-unarmed")
    if sub_exc is not None:
        if isinstance(sub_exc, Tagged) and sub_exc.tag == tag:
            return FAIL(f"escape-subscribe|{label}", f"injected exception propagated out of subscribe(); {detail}", classes=cls)
        raise sub_exc
    if lab.escaped is not None:
        if isinstance(lab.escaped, Tagged) and lab.escaped.tag == tag:
            return FAIL(f"escape-scheduler|{label}", f"injected exception propagated into the emitter/scheduler; {detail}", classes=cls)
        if lab.injected:
            return FAIL(f"escape-other|{label}", f"{lab.escaped!r} escaped after the injected failure; {detail}", classes=cls)
        raise lab.escaped
    if not lab.injected:
        return OK(False, cls + ["unreached", "unreached:" + label])
    if len(lab.injected) != 1:
        raise HarnessError(f"armed slot raised {len(lab.injected)} times: {case}")
    cls += ["reached", "reached:" + label]
    inj_seq = [e[1] for e in lab.cb_log if e[2] == tslot][k]
    term = p.terminal()
    # grammar on every probe
    for q in lab.probes:
        ok, msg = q.grammar_ok()
        if not ok:
            return FAIL(f"grammar|{label}", f"{msg}; {detail}", classes=cls)
    spy = ctx.get("spy")
    if (term is not None and term[3] < inj_seq) or (spy is not None and not spy.live_at(inj_seq)):
        # nobody was listening to the target any more when the callback failed (the subscriber was done, or a downstream
        # operator had already finished/unsubscribed and the emitter was still unwinding): only clause (a) applies
        return OK(True, cls + ["after-terminal"])
    # (b) delivered as on_error with the injected exception
    delivered = term is not None and term[1] == "E" and term[2] == ["exc", tag]
    judge_b = True
    if not delivered and spy is not None:
        forwarded = any(isinstance(e, Tagged) and e.tag == tag for _, e in spy.errors)
        if not forwarded and spy.unsubscribed_before_delivery(inj_seq):
            # the downstream unsubscribed from the target after the callback raised but before the (asynchronously delivered)
            # on_error could reach it: unsubscribing cancels the pending delivery. Only (a) and (c) are judged.
            judge_b = False
            cls.append("unsubscribed-before-delivery")
        elif not forwarded:
            return FAIL(f"not-forwarded|{label}", f"the operator did not hand the exception to its observer as on_error; {detail}", classes=cls)
        if judge_b and (_sync_in_progress(lab, inj_seq) or spy.subscribing_at(inj_seq)):
            # a source emitting synchronously inside subscribe() (or the operator itself emitting/calling back while it is being
            # subscribed) cannot be unsubscribed by a downstream operator that is already finished; whether the subscriber
            # still listens is not observable -> the exception reached the operator's observer, subscriber-level clause not judged
            return OK(True, cls + ["b-not-judged-sync-emitter"])
    if judge_b and term is None:
        return FAIL(f"not-delivered|{label}", f"the subscriber never received a terminal; {detail}", classes=cls)
    if judge_b and not delivered:
        return FAIL(f"wrong-terminal|{label}", f"expected on_error({tag}), got {term[:3]}; {detail}", classes=cls)
    # (c) pipeline stops
    judge_c = (not embedded) or len(lab.probes) == 1
    if judge_c:
        inj_action = next(a for e, a in zip(lab.cb_log, lab.cb_action) if e[1] == inj_seq)
        later = [
            e
            for e, a in zip(lab.cb_log, lab.cb_action)
            if e[1] > inj_seq and a != inj_action and not e[2].endswith(AFTER_OK) and not _emitter_open(lab, e[1], e[0], strict=not embedded)
        ]
        if later:
            return FAIL(f"callback-after-failure|{label}", f"{later[:3]}; {detail}", classes=cls)
        opened = lab.open_subscriptions()
        if opened:
            return FAIL(f"subscription-leak|{label}", f"open source subscriptions at the end: {opened}; {detail}", classes=cls)
        if not embedded and term is not None:
            # enumerated forms: the sources the pipeline was built over (main and auxiliary ones, not the inner sequences a
            # callback returns) must be released within the virtual instant in which the subscriber got the on_error, also
            # when window/group subscribers are attached (they are terminated by the same failure)
            late = [
                (src.name, i, ticks)
                for src in lab.sources[: ctx["n_static"]]
                for i, (ticks, seqs) in enumerate(zip(src.subs, src.sub_seq))
                if seqs[0] < inj_seq and ticks[1] is not None and ticks[1] > term[0]
            ]
            if late:
                return FAIL(f"late-release|{label}", f"source subscriptions [name, index, [subscribed, unsubscribed]] released only after the failure instant {term[0]}: {late}; {detail}", classes=cls)
            cls.append("release-instant-judged")
        leaked = [i for i, r in enumerate(ctx.get("resources", [])) if not r.closed]
        if leaked:
            return FAIL(f"resource-leak|{label}", f"`using` resources not disposed: {leaked}; {detail}", classes=cls)
    else:
        cls.append("c-not-judged")
    return OK(True, cls)


def _sync_in_progress(lab, seq):
    """Over-approximation of 'a synchronous source is emitting from inside its subscribe() at sequence point seq'."""
    now = [e[0] for e in lab.cb_log if e[1] == seq][0]
    for s in lab.sources:
        if getattr(s, "sync", False):
            for (a, b), (ta, tb) in zip(s.sub_seq, s.subs):
                if a < seq and (b is None or b > seq) and ta == now:
                    return True
    return False


def _emitter_open(lab, seq, tick, strict):
    """Some logged source subscription is open at sequence point seq whose emitter could not be stopped yet: callbacks it
    drives are not judged.  strict (enumerated forms): only a synchronous source still emitting inside its own subscribe() at
    that tick qualifies (its disposable does not exist yet); a subscription that is merely still open does not -- that is the
    late release the property excludes.  Embedded cases keep the lenient reading (any open subscription)."""
    for s in lab.sources:
        for (a, b), (ta, _tb) in zip(s.sub_seq, s.subs):
            if a < seq and (b is None or b > seq):
                if not strict or (getattr(s, "sync", False) and ta == tick):
                    return True
    return False


# ---------------------------------------------------------------------------------------
# enumeration


def _enum(tier):
    for fid, f in FORMS.items():
        for slot in f.slots:
            for fam in f.fams:
                for k in KS:
                    yield {"form": fid, "slot": slot, "k": k, "fam": fam}


def _reach_cases(tier):
    for fid, f in FORMS.items():
        for slot in f.slots:
            yield {"form": fid, "slot": slot}


def _reach(case):
    """Generator self-check: the slot is reached for k=0 in every family, and for k=1 in at least one."""
    f = FORMS[case["form"]]
    counts = {}
    for fam in f.fams:
        lab, p, tslot, _, exc = _execute({"form": case["form"], "slot": case["slot"], "fam": fam}, None)
        if exc is not None:
            raise exc
        if lab.escaped is not None:
            raise lab.escaped
        counts[fam] = lab.cb_count.get(tslot, 0)
    if min(counts.values()) < 1:
        raise HarnessError(f"C09 generator: slot {case['form']}.{case['slot']} never invoked for families {counts}")
    cls = [f"max-invocations:{min(max(counts.values()), 4)}"]
    return OK(False, cls)


# ---------------------------------------------------------------------------------------
# nested subscriptions on the current-thread trampoline (no scheduler argument, no virtual time)
#
# A callback that runs at subscribe time of an INNER sequence (multicast subject_factory/mapper, publish/replay mapper, a
# create() subscribe function; using/defer as controls with a guard of their own) is armed; the inner sequence is subscribed by
# a linking operator synchronously inside another subscribe() on the same thread, while an emitter that does not catch
# (synchronous source, BehaviorSubject replaying on subscribe, Subject pushed from a trampoline action) is on the stack.

N_VALS = ["i1", "sa", "none"]
N_MODES = {
    # outer emitter, where subscribe() is called, how later values are pushed
    "create/direct": ("create", "direct", None),
    "create/trampoline": ("create", "trampoline", None),
    "behavior/direct/push-idle": ("behavior", "direct", "idle"),
    "behavior/direct/push-trampoline": ("behavior", "direct", "trampoline"),
    "behavior/trampoline/push-idle": ("behavior", "trampoline", "idle"),
    "subject/direct/push-idle": ("subject", "direct", "idle"),
    "subject/direct/push-trampoline": ("subject", "direct", "trampoline"),
}
N_LINKS = ("flat_map", "concat_map", "switch_map", "map+merge_all", "map+switch_latest", "map+merge_max1", "catch", "concat")
N_INNERS = {
    "multicast": ("subject_factory", "mapper"),
    "publish": ("mapper",),
    "replay": ("mapper",),
    "create": ("subscribe",),
    "using": ("resource_factory", "observable_factory"),  # control: guarded by using itself
    "defer": ("factory",),  # control: guarded by defer itself
}


class _SyncSource(LoggedCold):
    """Synchronous cold source (everything is emitted inside subscribe) that records what its emitting loop gets to see."""

    def __init__(self, lab, timeline, name):
        super().__init__(lab, timeline, name, sync=True)
        self.seen = []

    def _emit(self, observer, kind, payload):
        try:
            super()._emit(observer, kind, payload)
        except Exception as e:  # noqa
            self.seen.append(e)
            raise


def _nested_inner(lab, B, ctx, kind):
    """-> function value -> inner observable; the subscribe-time callbacks are created once (k counts over all inner subscriptions)."""
    from reactivex.subject import Subject as _Subject

    def base(x):
        s = lab.cold([[0, "N", "i2"], [0, "C", None]], sync=True)
        return s

    if kind == "multicast":
        sf = B.fn("subject_factory", lambda sch=None: _Subject())
        mp = B.fn("mapper", lambda c: c)
        return lambda x: base(x).pipe(ops.multicast(subject_factory=sf, mapper=mp))
    if kind == "publish":
        mp = B.fn("mapper", lambda c: c)
        return lambda x: base(x).pipe(ops.publish(mp))
    if kind == "replay":
        mp = B.fn("mapper", lambda c: c)
        return lambda x: base(x).pipe(ops.replay(buffer_size=1, mapper=mp))
    if kind == "create":

        def sub(observer, scheduler=None):
            observer.on_next("created")
            observer.on_completed()
            return Disposable()

        f = B.fn("subscribe", sub)
        return lambda x: reactivex.create(f)
    if kind == "using":
        rf = B.fn("resource_factory", lambda: _Res(ctx))
        of = B.fn("observable_factory", lambda r: base(None))
        return lambda x: reactivex.using(rf, of)
    if kind == "defer":
        f = B.fn("factory", lambda sch: base(None))
        return lambda x: reactivex.defer(f)
    raise HarnessError(kind)


def _nested_link(B, link, inner_of):
    m = B.fn("link", lambda x: inner_of(x))
    if link in ("flat_map", "concat_map", "switch_map"):
        return [getattr(ops, link)(m)]
    if link == "map+merge_all":
        return [ops.map(m), ops.merge_all()]
    if link == "map+switch_latest":
        return [ops.map(m), ops.switch_latest()]
    if link == "map+merge_max1":
        return [ops.map(m), ops.merge(max_concurrent=1)]
    if link == "catch":
        return [ops.catch(lambda e, src: m(e))]
    if link == "concat":
        return [ops.concat(_Lazy(m))]
    raise HarnessError(link)


class _Lazy(Observable):
    """Plain observable that builds the inner sequence when subscribed (no guard of its own beyond Observable.subscribe)."""

    def __init__(self, make):
        super().__init__()
        self.make = make

    def _subscribe_core(self, observer, scheduler=None):
        return self.make(None).subscribe(observer, scheduler=scheduler)


def _run_nested(case):
    from reactivex.scheduler import CurrentThreadScheduler
    from reactivex.subject import BehaviorSubject as _Behavior
    from reactivex.subject import Subject as _Subject

    outer_kind, where, push = N_MODES[case["mode"]]
    link, inner_kind, slot, k = case["link"], case["inner"], case["slot"], case["k"]
    label = f"N:{inner_kind}.{slot}"
    cls = [f"mode:{case['mode']}", f"link:{link}", f"k:{k}"]
    if inner_kind in ("using", "defer"):
        cls.append("control-own-guard")
    cts = CurrentThreadScheduler.singleton()
    if not cts.get_trampoline().idle():
        raise HarnessError("current-thread trampoline not idle at case start")
    lab = _Lab()
    ctx = {}
    B = Builder(lab, prefix="n.")
    B.cur = inner_kind
    tslot = B.slot(slot)
    inner_of = _nested_inner(lab, B, ctx, inner_kind)
    B.cur = "link"
    errs = link == "catch"  # the outer sequence must fail for catch to subscribe its handler's result
    vals = N_VALS[:1] if link in ("catch", "concat") else N_VALS
    seen = []  # exceptions that reached an emitter
    subject = None
    if outer_kind == "create":
        tl = [[0, "N", v] for v in vals] + [[0, "E", "e1"] if errs else [0, "C", None]]
        outer = _SyncSource(lab, tl, "outer")
        lab.sources.append(outer)
        pushes = []
    else:
        subject = _Behavior(val(vals[0])) if outer_kind == "behavior" else _Subject()
        outer = subject
        rest = vals[1:] if outer_kind == "behavior" else vals
        pushes = [("N", v) for v in rest] + [("E", None) if errs else ("C", None)]
    o = outer.pipe(*_nested_link(B, link, inner_of))
    p = lab.probe("p")
    lab.arm = {tslot: {k}}
    escaped = []

    def guarded(f, who):
        try:
            f()
        except (BudgetExceeded, SpinGuard, RecursionError):
            raise
        except Exception as e:  # noqa
            escaped.append((who, e))

    def do_subscribe():
        p.subscribe(o, scheduler=None)

    if where == "direct":
        guarded(do_subscribe, "subscribe()")
    else:
        guarded(lambda: cts.schedule(lambda s, st=None: do_subscribe()), "trampoline action calling subscribe()")
    quiet_from = [None]

    def do_pushes():
        for kind, v in pushes:
            if lab.injected and quiet_from[0] is None:
                quiet_from[0] = lab.seq  # the failure is complete and every call has returned: from here on silence is required
            try:
                if kind == "N":
                    subject.on_next(val(v))
                elif kind == "E":
                    subject.on_error(Tagged("e1"))
                else:
                    subject.on_completed()
            except (BudgetExceeded, SpinGuard, RecursionError):
                raise
            except Exception as e:  # noqa
                seen.append(e)

    if pushes:
        if push == "trampoline":
            guarded(lambda: cts.schedule(lambda s, st=None: do_pushes()), "trampoline action pushing values")
        else:
            do_pushes()
    if not cts.get_trampoline().idle():
        raise HarnessError("current-thread trampoline not idle at case end")
    if outer_kind == "create":
        seen.extend(outer.seen)
    tag = f"inj:{tslot}:{k}"
    detail = f"case={case} trace={p.trace()} escaped={escaped!r} emitter_saw={seen!r}"

    def is_inj(e):
        return isinstance(e, Tagged) and e.tag == tag

    for who, e in escaped:
        if not is_inj(e) and not lab.injected:
            raise e
    for e in seen:
        if not is_inj(e) and not lab.injected:
            raise e
    if not lab.injected:
        return OK(False, cls + ["unreached", "unreached:" + label])
    cls += ["reached", "reached:" + label]
    # (a) nothing escapes subscribe() / the emitter
    if escaped:
        who, e = escaped[0]
        return FAIL(f"nested-escape-subscribe|{label}", f"{e!r} propagated out of the {who}; {detail}", classes=cls)
    if seen:
        return FAIL(f"nested-escape-emitter|{label}", f"{seen[0]!r} propagated into the emitter of the notification that caused the inner subscription; {detail}", classes=cls)
    for q in lab.probes:
        ok, msg = q.grammar_ok()
        if not ok:
            return FAIL(f"grammar|{label}", f"{msg}; {detail}", classes=cls)
    # (b)
    term = p.terminal()
    if term is None or term[1] != "E" or term[2] != ["exc", tag]:
        return FAIL(f"nested-wrong-terminal|{label}", f"expected on_error({tag}), got {term and term[:3]}; {detail}", classes=cls)
    # (c) the pipeline stops and releases
    if quiet_from[0] is not None:
        later = [e for e in lab.cb_log if e[1] > quiet_from[0]]
        if later:
            return FAIL(f"nested-callback-after-failure|{label}", f"values pushed after the failure still reach user callbacks: {later[:3]}; {detail}", classes=cls)
        cls.append("pushed-after-failure")
    if subject is not None and getattr(subject, "observers", None):
        return FAIL(f"nested-subscription-leak|{label}", f"{len(subject.observers)} observer(s) still attached to the source subject; {detail}", classes=cls)
    opened = lab.open_subscriptions()
    if opened:
        return FAIL(f"nested-subscription-leak|{label}", f"open source subscriptions at the end: {opened}; {detail}", classes=cls)
    leaked = [i for i, r in enumerate(ctx.get("resources", [])) if not r.closed]
    if leaked:
        return FAIL(f"nested-resource-leak|{label}", f"`using` resources not disposed: {leaked}; {detail}", classes=cls)
    return OK(True, cls)


def _nested_cases(tier):
    for mode in N_MODES:
        for link in N_LINKS:
            for inner, slots in N_INNERS.items():
                for slot in slots:
                    for k in (0, 1, 2):
                        if k > 0 and link in ("catch", "concat"):
                            continue  # these links subscribe exactly one inner sequence
                        yield {"mode": mode, "link": link, "inner": inner, "slot": slot, "k": k}


# ---------------------------------------------------------------------------------------
# thorough: embedded in random pipelines

# operators declared out="same" that nevertheless inject foreign elements (defaults, initial values) into the stream:
# after them the element kind is no longer 'obs'/'notif'
_KIND_RESET = {
    "start_with", "default_if_empty", "element_at_or_default", "first_or_default", "last_or_default", "single_or_default",
    "publish_value_ref_count",
}


def _kind_through(kind, name):
    return "any" if name in _KIND_RESET else _kind_after(kind, OPS[name])


def _well_kinded(ops_list, kind="any"):
    """Drop operators whose required input kind is not guaranteed at their position; returns (ops, resulting kind)."""
    out = []
    for name, args in ops_list:
        need = OPS[name].inp
        if need in ("obs", "notif") and kind != need:
            continue
        out.append([name, args])
        kind = _kind_through(kind, name)
    return out, kind


# forms that hand a callback failure to the observer through a scheduled action (using: throw(exc).subscribe(observer, scheduler))
_ASYNC_DELIVERY = ("R:using",)
# operators that never unsubscribe from their source before it terminates (no auxiliary source, no short-circuit)
_NEVER_UNSUBSCRIBE_EARLY = {
    "map", "map_indexed", "starmap", "starmap_indexed", "pluck", "filter", "filter_indexed", "skip", "skip_last", "take_last",
    "take_last_buffer", "skip_while", "skip_while_indexed", "distinct", "distinct_until_changed", "pairwise", "start_with",
    "default_if_empty", "ignore_elements", "as_observable", "reduce", "scan", "count", "sum", "average", "min", "max", "min_by", "max_by",
    "to_list", "to_set", "to_dict", "last", "last_or_default", "do_action", "finally_action", "share", "publish_ref_count",
    "buffer_with_count", "window_with_count", "group_by",
}
_SUFFIX_EXCL_TAGS = {"time", "resub"}
# ReplaySubject delivers through a scheduled observer, i.e. it shifts notifications to later scheduler actions like a time operator
_SUFFIX_EXCL_OPS = ("replay_mapper", "multicast_factory_mapper")


def _suffix_ops(kind_in, only=None):
    names = {"any": [], "obs": [], "notif": []}
    for n, o in OPS.items():
        if (o.tags & _SUFFIX_EXCL_TAGS) or n in ABSORBERS or n in _SUFFIX_EXCL_OPS:
            continue
        if only is not None and n not in only:
            continue
        names[o.inp].append(n)

    @st.composite
    def _s(draw):
        kind = kind_in
        out = []
        for _ in range(draw(st.integers(0, 2))):
            cands = list(names["any"])
            if kind in ("obs", "notif") and names[kind] and draw(st.integers(0, 3)) > 0:
                cands = names[kind]
            name = draw(st.sampled_from(sorted(cands)))
            out.append([name, draw(OPS[name].args)])
            kind = _kind_through(kind, name)
        return out

    return _s()


_OP_FORMS = sorted(fid for fid, f in FORMS.items() if f.build is None)
_ROOT_FORMS = sorted(fid for fid, f in FORMS.items() if f.build is not None)


@st.composite
def _embedded(draw):
    root = draw(st.integers(0, 5)) == 0
    fid = draw(st.sampled_from(_ROOT_FORMS if root else _OP_FORMS))
    f = FORMS[fid]
    case = {"form": fid, "slot": draw(st.sampled_from(list(f.slots))), "k": draw(st.sampled_from([0, 0, 1, 1, 2, 3, "last"])), "fam": draw(st.sampled_from(list(f.fams)))}
    kind = "any"
    if not root:
        if draw(st.integers(0, 3)) > 0:
            pre = draw(pipelines(max_ops=2, max_len=5))
            pre["ops"], kind = _well_kinded(pre["ops"])
            case["pre"] = pre
        if draw(st.booleans()):
            case["args"] = draw(OPS[f.op].args)
        kind = _kind_through(kind, f.op)
    for n, _a in f.post:
        kind = _kind_through(kind, n)
    case["suf"] = draw(_suffix_ops(kind, _NEVER_UNSUBSCRIBE_EARLY if fid in _ASYNC_DELIVERY else None))
    case["inner"] = draw(st.sampled_from([None, "now", "now"]))
    return case


def checks(tier):
    cs = [
        Check("enum", _run, cases=_enum, shards={"quick": 4, "thorough": 16}, exhaustive=True),
        Check("reach", _reach, cases=_reach_cases, shards={"quick": 4, "thorough": 16}, exhaustive=True),
        Check("nested", _run_nested, cases=_nested_cases, shards={"quick": 4, "thorough": 16}, exhaustive=True),
    ]
    cs.append(Check("embedded", _run, strategy=_embedded(), examples={"quick": 1600, "thorough": 16 * 20000}, shards={"quick": 4, "thorough": 16}))
    return cs
