"""C10 Sequential composition runs one source at a time, in order."""
from __future__ import annotations

import itertools

from hypothesis import strategies as st

import reactivex
from reactivex import operators as ops

from vlib.core import FAIL, OK, SKIP, Check, HarnessError
from vlib.hoc import TSource, all_subs, draw_timeline
from vlib.lab import Lab
from vlib.values import NAMES, canon, val

PROPERTY_ID = "C10"
LEVEL = "exploration"
RULE = (
    "Generated: 1-5 cold/synchronous traced sources with arbitrary conforming timelines (0-3 elements from the full "
    "value domain incl. falsy values, gaps 0-3, terminal completion / error / none), scripted per-subscription timelines "
    "for the re-subscribing operators; operator forms concat (factory, ops), concat_with_iterable (list, generator), "
    "for_in, start_with (0-3 values; half of them followed by take(1..k+2), so that the downstream is satisfied inside the "
    "prefix and the source must never be subscribed), every list form optionally followed by take(1..6), repeat(n in 0..4 | None, optional take), retry(n in 0..4 | None, optional take), "
    "catch (factory, catch_with_iterable list/generator, ops.catch(observable), ops.catch(handler) with handler results "
    "chosen by error tag incl. the source itself), on_error_resume_next (factory with observables and error->observable "
    "callables, ops form), while_do / do_while with scripted conditions, and composed forms in which a finite repeat(n) is "
    "re-subscribed (repeat in repeat, retry around repeat, repeat around retry, concat(r, r) of one repeat(n) object, "
    "while_do / do_while around repeat(n)) so that it must run n times per subscription; a quarter to a third of the "
    "'lists' / 'catch' cases use the shape 'source terminating synchronously inside its own subscribe, followed by a "
    "source still running when its subscribe returns' for every operator form; subscribed at a generated tick on the virtual "
    "scheduler (TestScheduler, one case in five HistoricalScheduler with 1 ms ticks) or through the default CurrentThreadScheduler trampoline, or with scheduler=ImmediateScheduler() (continuations run inline, re-entrantly; no take / unbounded count in that mode). Oracle: (a) closed-form walk over the timelines "
    "gives the exact expected trace (ticks, values, terminal) = concatenation of the consumed sources' elements offset by "
    "the previous terminal's tick; (b) over the subscription logs: the global subscription order and subscribe ticks "
    "equal the walk's, every earlier subscription is closed no later (tick) than the next is opened, the "
    "next is opened only after (global seq) the previous delivered a terminal of a kind the operator continues on, repeat(n) = n "
    "subscriptions when every run completes, retry(n) <= n. Non-trivial: >= 2 subscriptions happened. "
    "Distinct = distinct case JSON."
)
ASSUMPTIONS = [
    "with subscribe(scheduler=ImmediateScheduler()) a downstream unsubscription cannot take effect before subscribe() returns (listed under C14), so those cases use no take and finite counts only",
    "sources are conforming (nothing after their terminal); a source without terminal makes the composition wait forever",
    "unbounded repeat/retry whose runs carry no element (never reaching the take) are discarded before execution (counted as inconclusive:diverges)",
    "retry(0)/catch() over no source: only 'no subscription, no element' is required (the terminal kind is not stated by the property)",
    "the last subscription's unsubscribe time is not judged here (C02)",
]

MAXRUNS = 14


# ---------------------------------------------------------------------------------------
# closed-form model


def _tls(spec):
    return spec.get("tls") or [spec["tl"]]


def _plan(case):
    """Generator: yields the next source index, is sent the terminal (kind, payload) of that run, and returns the
    final terminal (kind, payload) | None to emit at the instant of the last terminal."""
    op = case["op"]
    order = case.get("order", [])
    n = case.get("n")

    def concat(seq):
        for i in seq:
            k, p = yield i
            if k != "C":
                return (k, p)
        return ("C", None)

    def catch(seq):
        last = None
        any_ = False
        for i in seq:
            any_ = True
            k, p = yield i
            if k == "C":
                return ("C", None)
            last = p
        if not any_:
            return ("?", None)  # nothing to run: terminal kind not stated
        return ("E", last)

    if op in ("concat", "concat_with_iterable", "for_in", "start_with"):
        return (yield from concat(order))
    if op == "repeat":
        return (yield from concat(itertools.repeat(order[0]) if n is None else [order[0]] * n))
    if op == "retry":
        return (yield from catch(itertools.repeat(order[0]) if n is None else [order[0]] * n))
    if op == "catch":
        if case["form"] == "op_handler":
            k, p = yield order[0]
            if k == "C":
                return ("C", None)
            j = case["hmap"].get(p, case["hmap"]["*"])
            k2, p2 = yield (order[0] if j == "src" else j)
            return (k2, p2)
        return (yield from catch(order))
    if op == "on_error_resume_next":
        prev = None
        for it in case["items"]:
            if isinstance(it, dict):
                key = "none" if prev is None or prev[0] == "C" else prev[1]
                i = it.get(key, it["*"])
            else:
                i = it
            prev = yield i
        return ("C", None)
    if op in ("while_do", "do_while"):
        conds = list(case["cond"])
        if op == "do_while":
            k, p = yield order[0]
            if k != "C":
                return (k, p)
        for c in conds + [False]:
            if not c:
                return ("C", None)
            k, p = yield order[0]
            if k != "C":
                return (k, p)
    raise HarnessError(f"op {op}")


class _Stop(Exception):
    pass


def model_tree(case):
    """Closed-form walk for composed forms (op == "compose"): case["tree"] is
    {"leaf": i} | {"repeat": n, "of": T} | {"retry": n, "of": T} | {"concat": [T, ...]} | {"while": T} | {"do_while": T}
    (the while/do_while condition is the case-wide script case["cond"], consumed call by call).  Every re-subscription
    of a composed observable starts afresh: repeat(n) inside a re-subscribing operator runs n times per subscription."""
    srcs = case["srcs"]
    st_ = {"t": case["t0"], "runs": 0, "cond": 0, "taken": 0}
    out, subs = [], []
    counts = [0] * len(srcs)
    take = case.get("take")
    conds = list(case.get("cond") or [])

    def cond():
        k = st_["cond"]
        st_["cond"] += 1
        return conds[k] if k < len(conds) else False

    def ev(node):
        if "leaf" in node:
            i = node["leaf"]
            st_["runs"] += 1
            if st_["runs"] > 2 * MAXRUNS:
                raise _Stop("diverges")
            tl = _tls(srcs[i])
            tl = tl[min(counts[i], len(tl) - 1)]
            counts[i] += 1
            t = st_["t"]
            rec = {"src": i, "sub": t, "term": None, "kind": None, "tl": tl}
            subs.append(rec)
            for dt, kind, payload in tl:
                tick = t + dt
                if kind == "N":
                    out.append([tick, "N", canon(val(payload))])
                    st_["taken"] += 1
                    if take is not None and st_["taken"] == take:
                        out.append([tick, "C", None])
                        rec["term"], rec["kind"] = tick, "cut"
                        raise _Stop("cut")
                else:
                    rec["term"], rec["kind"] = tick, kind
                    st_["t"] = tick
                    return (kind, payload)
            raise _Stop("hang")
        if "repeat" in node:
            for _ in range(node["repeat"]):
                r = ev(node["of"])
                if r[0] != "C":
                    return r
            return ("C", None)
        if "retry" in node:
            r = None
            for _ in range(node["retry"]):  # n >= 1 by construction
                r = ev(node["of"])
                if r[0] == "C":
                    return r
            return r
        if "concat" in node:
            for sub in node["concat"]:
                r = ev(sub)
                if r[0] != "C":
                    return r
            return ("C", None)
        if "while" in node or "do_while" in node:
            body = node.get("while") or node.get("do_while")
            if "do_while" in node:
                r = ev(body)
                if r[0] != "C":
                    return r
            while cond():
                r = ev(body)
                if r[0] != "C":
                    return r
            return ("C", None)
        raise HarnessError(f"node {node}")

    try:
        k, p_ = ev(case["tree"])
        out.append([st_["t"], k, ["exc", p_] if k == "E" else None])
    except _Stop as e:
        if e.args[0] == "diverges":
            return {"diverges": True}
    return {"out": out, "subs": subs, "free_terminal": False}


def build_tree(case, lab, S):
    conds = list(case.get("cond") or [])
    calls = [0]

    def cond(_src):
        k = calls[0]
        calls[0] += 1
        return conds[k] if k < len(conds) else False

    f = lab.fn("cond", cond)
    memo = {}

    def mk(node):
        if "leaf" in node:
            return S[node["leaf"]]
        if "repeat" in node:
            return mk(node["of"]).pipe(ops.repeat(node["repeat"]))
        if "retry" in node:
            return mk(node["of"]).pipe(ops.retry(node["retry"]))
        if "concat" in node:
            parts = []
            for sub in node["concat"]:
                key = repr(sub)
                if key not in memo:  # identical sub-trees are the *same* observable object, subscribed again
                    memo[key] = mk(sub)
                parts.append(memo[key])
            return reactivex.concat(*parts)
        if "while" in node:
            return mk(node["while"]).pipe(ops.while_do(f))
        if "do_while" in node:
            return mk(node["do_while"]).pipe(ops.do_while(f))
        raise HarnessError(f"node {node}")

    o = mk(case["tree"])
    if case.get("take") is not None:
        o = o.pipe(ops.take(case["take"]))
    return o


def _shape(node):
    if "leaf" in node:
        return "s"
    for k in ("repeat", "retry"):
        if k in node:
            return f"{k}({_shape(node['of'])})"
    if "concat" in node:
        return "concat(" + ",".join(_shape(x) for x in node["concat"]) + ")"
    k = "while" if "while" in node else "do_while"
    return f"{k}({_shape(node[k])})"


def _has_inner_repeat(node, under=False):
    """a finite repeat(n) that sits below a re-subscribing operator (or is subscribed twice by concat)."""
    if "leaf" in node:
        return False
    if "repeat" in node:
        return under or _has_inner_repeat(node["of"], True)
    if "retry" in node:
        return _has_inner_repeat(node["of"], True)
    if "concat" in node:
        reprs = [repr(x) for x in node["concat"]]
        return any(_has_inner_repeat(x, under or reprs.count(repr(x)) > 1) for x in node["concat"])
    k = "while" if "while" in node else "do_while"
    return _has_inner_repeat(node[k], True)


def model(case):
    if case["op"] == "compose":
        return model_tree(case)
    srcs = case["srcs"]
    t = case["t0"]
    out, subs = [], []
    counts = [0] * len(srcs)
    take = case.get("take")
    taken = 0
    if case["op"] == "start_with":
        for v in case["vals"]:
            out.append([t, "N", canon(val(v))])
            taken += 1
            if take is not None and taken == take:
                # the downstream is satisfied inside the prefix: the prefix never completes, so the source
                # ("the next one") must not be subscribed at all
                out.append([t, "C", None])
                return {"out": out, "subs": subs, "free_terminal": False, "cut_in_prefix": True}
    g = _plan(case)
    runs = 0
    final = None
    try:
        i = next(g)
        while True:
            runs += 1
            if runs > MAXRUNS:
                return {"diverges": True}
            k_idx = counts[i]
            counts[i] += 1
            tl = _tls(srcs[i])
            tl = tl[min(k_idx, len(tl) - 1)]
            rec = {"src": i, "sub": t, "term": None, "kind": None, "tl": tl}
            subs.append(rec)
            terminal = None
            for dt, kind, payload in tl:
                tick = t + dt
                if kind == "N":
                    out.append([tick, "N", canon(val(payload))])
                    taken += 1
                    if take is not None and taken == take:
                        out.append([tick, "C", None])
                        rec["term"], rec["kind"] = tick, "cut"
                        return {"out": out, "subs": subs, "free_terminal": False}
                else:
                    terminal = (kind, payload)
                    rec["term"], rec["kind"] = tick, kind
                    t = tick
                    break
            if terminal is None:
                return {"out": out, "subs": subs, "free_terminal": False}  # waits forever
            i = g.send(terminal)
    except StopIteration as s:
        final = s.value
    free = False
    if final is not None:
        if final[0] == "?":
            free = True
        else:
            out.append([t, final[0], ["exc", final[1]] if final[0] == "E" else None])
    return {"out": out, "subs": subs, "free_terminal": free}


# ---------------------------------------------------------------------------------------
# real side


def build(case, lab, S):
    op, form = case["op"], case["form"]
    if op == "compose":
        return build_tree(case, lab, S)
    order = case.get("order", [])
    seq = [S[i] for i in order]
    n = case.get("n")
    if op == "concat":
        o = reactivex.concat(*seq) if form == "factory" else seq[0].pipe(ops.concat(*seq[1:]))
    elif op == "concat_with_iterable":
        o = reactivex.concat_with_iterable(seq if form == "list" else (s for s in seq))
    elif op == "for_in":
        o = reactivex.for_in(list(order) if form == "list" else (i for i in order), lab.fn("for_in.mapper", lambda i: S[i]))
    elif op == "start_with":
        o = seq[0].pipe(ops.start_with(*[val(v) for v in case["vals"]]))
    elif op == "repeat":
        o = seq[0].pipe(ops.repeat(n) if (n is not None or form == "arg") else ops.repeat())
    elif op == "retry":
        o = seq[0].pipe(ops.retry(n) if (n is not None or form == "arg") else ops.retry())
    elif op == "catch":
        if form == "factory":
            o = reactivex.catch(*seq)
        elif form == "iter_list":
            o = reactivex.catch_with_iterable(seq)
        elif form == "iter_gen":
            o = reactivex.catch_with_iterable(s for s in seq)
        elif form == "op_obs":
            o = seq[0].pipe(ops.catch(seq[1]))
        elif form == "op_handler":
            hmap = case["hmap"]

            def handler(exc, source):
                j = hmap.get(getattr(exc, "tag", None), hmap["*"])
                return source if j == "src" else S[j]

            o = seq[0].pipe(ops.catch(lab.fn("catch.handler", handler)))
        else:
            raise HarnessError(form)
    elif op == "on_error_resume_next":
        if form == "op":
            o = S[case["items"][0]].pipe(ops.on_error_resume_next(S[case["items"][1]]))
        else:
            items = []
            for k_, it in enumerate(case["items"]):
                if isinstance(it, dict):

                    def fac(exc, it=it):
                        key = "none" if exc is None else getattr(exc, "tag", "?")
                        return S[it.get(key, it["*"])]

                    items.append(lab.fn(f"oern.factory{k_}", fac))
                else:
                    items.append(S[it])
            o = reactivex.on_error_resume_next(*items)
    elif op in ("while_do", "do_while"):
        conds = list(case["cond"])
        calls = [0]

        def cond(_src):
            k = calls[0]
            calls[0] += 1
            return conds[k] if k < len(conds) else False

        f = lab.fn("cond", cond)
        o = seq[0].pipe(ops.while_do(f) if op == "while_do" else ops.do_while(f))
    else:
        raise HarnessError(op)
    if case.get("take") is not None:
        o = o.pipe(ops.take(case["take"]))
    return o


CONT = {
    "concat": "C", "concat_with_iterable": "C", "for_in": "C", "start_with": "C", "repeat": "C", "while_do": "C", "do_while": "C",
    "retry": "E", "catch": "E", "on_error_resume_next": "CE", "compose": "CE",
}


def _run(case):
    m = model(case)
    if m.get("diverges"):
        return SKIP("diverges")
    op = case["op"]
    who = f"{op}/{case['form']}"
    lab = Lab("hist", tick_s=0.001) if case.get("clock") == "hist" else Lab()
    S = [TSource(lab, spec, f"s{i}") for i, spec in enumerate(case["srcs"])]
    o = build(case, lab, S)
    p = lab.probe()
    if case["sched"] == "imm":
        from reactivex.scheduler import ImmediateScheduler

        sch = ImmediateScheduler()
    else:
        sch = "lab" if case["sched"] == "lab" else None
    lab.at(case["t0"], lambda: p.subscribe(o, scheduler=sch))
    lab.run()
    if lab.inconclusive:
        return SKIP(lab.inconclusive)
    if lab.escaped is not None:
        raise lab.escaped
    subs = all_subs(S)
    exp_subs = m["subs"]
    cls = [op, f"subs={min(len(exp_subs), 5)}"]
    if op == "compose":
        who = "compose/" + _shape(case["tree"])
        cls.append("shape:" + _shape(case["tree"]))
        if _has_inner_repeat(case["tree"]):
            cls.append("repeat(n)-resubscribed")
            if len(exp_subs) >= 3:
                cls.append("repeat(n)-resubscribed:>=3-runs")
    cls.append("sched:" + str(case["sched"]))
    cls.append("clock:" + case.get("clock", "test"))
    if any(s["kind"] == "sync" for s in case["srcs"]):
        cls.append("has-sync-source")
    kinds = "".join(sorted(set((r["kind"] or "-")[0] for r in exp_subs)))
    cls.append("terminals:" + kinds)
    nontrivial = len(exp_subs) >= 2

    ok_g, msg = p.grammar_ok()
    if not ok_g:
        return FAIL(f"grammar|{who}", f"{msg} case={case}", classes=cls)

    # (a) output trace: exact, ticks and terminal included
    got = p.trace()
    exp = m["out"]
    if m["free_terminal"]:
        if [e for e in got if e[1] == "N"] or subs:
            return FAIL(f"nothing-to-run|{who}", f"expected no element and no subscription, got {got} subs={subs} case={case}", classes=cls)
        return OK(False, cls + ["nothing-to-run"])
    if got != exp:
        gv, ev = [e for e in got if e[1] == "N"], [e for e in exp if e[1] == "N"]
        gt, et = [e for e in got if e[1] != "N"], [e for e in exp if e[1] != "N"]
        if [e[2] for e in gv] != [e[2] for e in ev]:
            clause = "elements"
        elif gv != ev:
            clause = "element-ticks"
        elif [e[1] for e in gt] != [e[1] for e in et]:
            clause = "terminal-kind"
        else:
            clause = "terminal"
        return FAIL(f"trace:{clause}|{who}", f"expected {exp} got {got} subs={[(d['src'], d['sub'], d['unsub']) for d in subs]} case={case}", classes=cls)

    # (b) subscription logs
    got_seq = [(d["src"], d["sub"]) for d in subs]
    exp_seq = [(r["src"], r["sub"]) for r in exp_subs]
    if got_seq != exp_seq:
        if (op == "repeat" or (op == "compose" and "repeat" in who)) and all(r["kind"] == "C" for r in exp_subs) and len(got_seq) != len(exp_seq):
            clause = "repeat-count"
        elif op == "retry" and case.get("n") is not None and len(got_seq) > case["n"]:
            clause = "retry-count"
        elif [x[0] for x in got_seq] != [x[0] for x in exp_seq]:
            clause = "consumed-sources"
        else:
            clause = "subscribe-tick"
        return FAIL(f"subs:{clause}|{who}", f"expected (src, tick) {exp_seq} got {got_seq} case={case}", classes=cls)
    if op == "retry" and case.get("n") is not None and len(subs) > case["n"]:
        return FAIL(f"subs:retry-count|{who}", f"{len(subs)} subscriptions for retry({case['n']}) case={case}", classes=cls)
    cont = CONT[op]
    for a, b in zip(subs, subs[1:]):
        if a["unsub"] is None or a["unsub"] > b["sub"]:
            return FAIL(f"subs:overlap|{who}", f"source s{a['src']} interval [{a['sub']},{a['unsub']}] still open when s{b['src']} was subscribed at {b['sub']} case={case}", classes=cls)
        t = a["term"]
        if t is None or t[1] > b["sub_seq"]:
            return FAIL(f"subs:next-before-terminal|{who}", f"s{b['src']} subscribed at {b['sub']} before s{a['src']} terminated ({t}) case={case}", classes=cls)
        if t[2] not in cont:
            return FAIL(f"subs:continued-on-{t[2]}|{who}", f"s{b['src']} subscribed after s{a['src']} ended with {t[2]} case={case}", classes=cls)
        if t[0] != b["sub"]:
            return FAIL(f"subs:subscribe-tick|{who}", f"s{b['src']} subscribed at {b['sub']}, previous terminal at {t[0]} case={case}", classes=cls)
    for a, b in zip(exp_subs, exp_subs[1:]):
        a_sync = case["srcs"][a["src"]]["kind"] == "sync" and a["term"] == a["sub"] and a["kind"] in ("C", "E")
        b_async = case["srcs"][b["src"]]["kind"] != "sync" or any(m[0] > 0 for m in b["tl"]) or not any(m[1] in ("C", "E") for m in b["tl"])
        if a_sync and b_async:
            cls.append("terminal-inside-subscribe-then-async-next")
            cls.append(f"terminal-inside-subscribe-then-async-next:{op}/{case['form']}")
            break
    if case["sched"] == "imm":
        async_src = lambda r: case["srcs"][r["src"]]["kind"] != "sync" or any(m_[0] > 0 for m_ in r["tl"]) or not any(m_[1] in ("C", "E") for m_ in r["tl"])  # noqa: E731
        if "terminal-inside-subscribe-then-async-next" in cls or (op == "start_with" and exp_subs and async_src(exp_subs[0])):
            cls.append("imm:inline-continuation-into-async-source")
    if len(subs) >= 2 and any(a["sub"] == b["sub"] for a, b in zip(subs, subs[1:])):
        cls.append("same-tick-resubscribe")
    if case.get("take") is not None and exp_subs and exp_subs[-1]["kind"] == "cut":
        cls.append("cut-by-take")
        if len(exp_subs) < len(case.get("order", [])):
            cls.append("cut-by-take:later-sources-must-stay-unsubscribed")
    if m.get("cut_in_prefix"):
        cls.append("start_with:cut-inside-prefix(source-must-stay-unsubscribed)")
    if case.get("n") is None and op in ("repeat", "retry"):
        cls.append("unbounded")
    if exp and exp[-1][1] == "E":
        cls.append("ends-E")
    elif exp and exp[-1][1] == "C":
        cls.append("ends-C")
    else:
        cls.append("ends-open")
    return OK(nontrivial, cls)


# ---------------------------------------------------------------------------------------
# strategies

_MOSTLY_C = ("C", "C", "C", "E", "C", "C", "C", None)
_MOSTLY_E = ("E", "E", "E", "C", "E", "E", "E", None)
_KIND = st.sampled_from(["cold", "cold", "sync"])
def _finish(draw, c):
    """Draw the subscription parameters.  sched: "lab" = subscribe(scheduler=<virtual scheduler>), "none" = no scheduler
    (default trampoline), "imm" = subscribe(scheduler=ImmediateScheduler()), which runs every continuation inline
    (re-entrantly).  Under "imm" an unsubscription issued by the downstream cannot take effect before subscribe()
    returns (known, listed limitation: C14), so such cases carry no take and no unbounded count."""
    for k, s in _COMMON.items():
        c[k] = draw(s)
    if c["sched"] == "imm":
        if c.get("take") is not None:
            c["take"] = None
        if "n" in c and c["n"] is None:
            c["n"] = 3
    return c


_COMMON = {"t0": st.integers(0, 3), "sched": st.sampled_from(["lab", "lab", "none", "imm"]), "clock": st.sampled_from(["test", "test", "test", "test", "hist"])}


_ERRS = ["e1", "e2"]


def _tl(draw, terms):
    """Conforming timeline: 0-3 elements, gaps 0-3 (a quarter of the timelines are a single-instant burst)."""
    return draw_timeline(draw, 3, 3, NAMES, list(terms), _ERRS, burst_one_in=4)


def _srcs(draw, terms, lo=1, hi=4):
    n = draw(st.sampled_from([x for x in (2, 3, 1, 4) if lo <= x <= hi]))
    return [{"kind": draw(_KIND), "tl": _tl(draw, terms)} for _ in range(n)]


def _idx_list(draw, n, lo=0, hi=5):
    k = draw(st.sampled_from([x for x in (2, 3, 1, 4, 5, 2, 3, 4, 5, 0) if lo <= x <= hi]))
    return [draw(st.integers(0, n - 1)) for _ in range(k)]


def _scripted(draw, terms):
    """A source whose successive subscriptions play different timelines (terminal patterns like C,C,E or E,E,C)."""
    n = draw(st.sampled_from([2, 3, 1, 4]))
    return {"kind": draw(_KIND), "tls": [_tl(draw, terms) for _ in range(n)]}


@st.composite
def _lists(draw):
    srcs = _srcs(draw, _MOSTLY_C)
    order = _idx_list(draw, len(srcs))
    op, form = draw(
        st.sampled_from(
            [("concat", "factory"), ("concat", "op"), ("concat_with_iterable", "list"), ("concat_with_iterable", "gen"), ("for_in", "list"), ("for_in", "gen"), ("start_with", "op"), ("start_with", "op")]
        )
    )
    c = {"op": op, "form": form, "srcs": srcs, "order": order}
    if op == "concat" and form == "op" and not order:
        c["order"] = [0]
    if op == "start_with":
        c["order"] = [draw(st.integers(0, len(srcs) - 1))]
        c["vals"] = [draw(st.sampled_from(NAMES)) for _ in range(draw(st.sampled_from([1, 2, 3, 2, 0])))]
        if draw(st.integers(0, 1)) == 0:
            c["take"] = draw(st.integers(1, len(c["vals"]) + 2))  # 1..k cuts inside / exactly at the end of the prefix
    elif draw(st.integers(0, 3)) == 0:
        c["take"] = draw(st.integers(1, 6))  # downstream satisfied in mid-list: later sources must not be subscribed
    return _finish(draw, c)


@st.composite
def _counts(draw):
    op = draw(st.sampled_from(["repeat", "retry"]))
    src = _scripted(draw, _MOSTLY_C if op == "repeat" else _MOSTLY_E)
    n = draw(st.sampled_from([2, 3, 4, 1, None, 2, 3, 4, None, 0]))
    take = draw(st.integers(1, 6)) if (n is None or draw(st.integers(0, 3)) == 0) else None
    c = {"op": op, "form": draw(st.sampled_from(["arg", "default"])), "srcs": [src], "order": [0], "n": n, "take": take}
    return _finish(draw, c)


@st.composite
def _nested(draw):
    """Composed forms: a finite repeat(n) below another re-subscribing operator, so that the same repeat(n)
    observable is subscribed several times and must run n times each time."""
    leaf = {"leaf": 0}
    n1 = draw(st.sampled_from([2, 3, 1, 2, 3, 0]))
    n2 = draw(st.sampled_from([2, 3, 2, 1]))
    shape = draw(st.sampled_from(["rep_rep", "retry_rep", "rep_retry", "concat_rep_rep", "while_rep", "do_while_rep", "rep_concat", "rep_rep_rep"]))
    cond = []
    inner = {"repeat": n1, "of": leaf}
    if shape == "rep_rep":
        tree = {"repeat": n2, "of": inner}
    elif shape == "rep_rep_rep":
        tree = {"repeat": 2, "of": {"repeat": n2, "of": {"repeat": max(n1, 1) if n1 < 3 else 2, "of": leaf}}}
    elif shape == "retry_rep":
        tree = {"retry": n2, "of": inner}
    elif shape == "rep_retry":
        tree = {"repeat": n2, "of": {"retry": max(n1, 1), "of": leaf}}
    elif shape == "concat_rep_rep":
        k = draw(st.sampled_from([2, 3]))
        tree = {"concat": [inner] * k}
    elif shape == "rep_concat":
        tree = {"repeat": n2, "of": {"concat": [leaf, inner]}}
    else:
        k = draw(st.sampled_from([2, 3, 1, 4]))
        cond = [draw(st.sampled_from([True, True, True, True, False])) for _ in range(k)]
        tree = {"while" if shape == "while_rep" else "do_while": inner}
    terms = _MOSTLY_E if shape == "retry_rep" and draw(st.booleans()) else ("C", "C", "C", "C", "C", "E", "C", "C", "C", None)
    src = _scripted(draw, terms)
    take = draw(st.integers(1, 8)) if draw(st.integers(0, 5)) == 0 else None
    c = {"op": "compose", "form": shape, "srcs": [src], "tree": tree, "cond": cond, "take": take}
    return _finish(draw, c)


def _sync_head(draw, term):
    """Everything at t=0 (delivered inside subscribe by a 'sync' source), ending with `term`."""
    n = draw(st.sampled_from([0, 1, 2, 1]))
    return [[0, "N", draw(st.sampled_from(NAMES))] for _ in range(n)] + [[0, term, draw(st.sampled_from(_ERRS)) if term == "E" else None]]


def _async_tl(draw, terms):
    """Still running when its subscribe returns: first event at t >= 1."""
    tl = draw_timeline(draw, 2, 2, NAMES, list(terms), _ERRS)
    d = draw(st.integers(1, 3))
    tl = [[t + d, k, p] for t, k, p in tl]
    if not tl:
        tl = [[d, "N", draw(st.sampled_from(NAMES))]]
    return tl


@st.composite
def _sync_async(draw, fam):
    """A source that terminates synchronously inside its own subscribe, followed by one that is still running when its
    subscribe returns.  fam "E": operators continuing on error; fam "C": operators continuing on completion."""
    term = fam
    if fam == "E":
        op, form = draw(st.sampled_from([("catch", "op_handler"), ("catch", "op_handler"), ("catch", "factory"), ("catch", "iter_list"), ("catch", "iter_gen"), ("catch", "op_obs"),
                                         ("on_error_resume_next", "factory"), ("on_error_resume_next", "op"), ("retry", "arg")]))
    else:
        op, form = draw(st.sampled_from([("concat", "factory"), ("concat", "op"), ("concat_with_iterable", "list"), ("concat_with_iterable", "gen"), ("for_in", "list"),
                                         ("repeat", "arg"), ("on_error_resume_next", "factory"), ("while_do", "op"), ("do_while", "op")]))
    tail_terms = ("C", "E", "C", "E", None)
    c = {"op": op, "form": form}
    if op in ("retry", "repeat", "while_do", "do_while"):
        k = draw(st.sampled_from([1, 2, 1]))
        tls = [_sync_head(draw, term) for _ in range(k)] + [_async_tl(draw, tail_terms)]
        if draw(st.booleans()):
            tls.append(_sync_head(draw, term))
            tls.append(_async_tl(draw, tail_terms))
        c["srcs"] = [{"kind": "sync", "tls": tls}]
        c["order"] = [0]
        if op in ("retry", "repeat"):
            c["n"] = draw(st.sampled_from([2, 3, 4, None]))
            c["take"] = draw(st.integers(1, 6)) if (c["n"] is None or draw(st.integers(0, 4)) == 0) else None
        else:
            c["cond"] = [True] * draw(st.sampled_from([2, 3, 1, 4]))
    else:
        srcs = [{"kind": "sync", "tl": _sync_head(draw, term)}, {"kind": draw(st.sampled_from(["cold", "cold", "sync"])), "tl": _async_tl(draw, tail_terms)}]
        if draw(st.booleans()):
            srcs.append({"kind": draw(_KIND), "tl": _tl(draw, _MOSTLY_E if fam == "E" else _MOSTLY_C)})
        order = [0, 1] if draw(st.integers(0, 3)) else [0, 0, 1]
        if len(srcs) > 2 and form not in ("op_obs", "op", "op_handler"):
            order.append(draw(st.integers(0, 2)))
        c["srcs"] = srcs
        if op == "on_error_resume_next":
            if form == "op":
                c["items"] = [0, 1]
            else:
                c["items"] = [it if draw(st.integers(0, 2)) else {"none": it, "e1": it, "*": it} for it in order]
        elif form == "op_handler":
            c["order"] = [0]
            nxt = 1 if draw(st.integers(0, 4)) else "src"
            c["hmap"] = {"e1": nxt, "e2": 1, "*": 1}
            if nxt == "src":
                srcs[0] = {"kind": "sync", "tls": [srcs[0]["tl"], _async_tl(draw, tail_terms)]}
        elif form == "op_obs":
            c["order"] = [0, 1]
        else:
            c["order"] = order
    return _finish(draw, c)


@st.composite
def _catches(draw):
    fam = draw(st.sampled_from(["catch", "catch", "oern"]))
    terms = _MOSTLY_E if fam == "catch" else ("C", "E", "C", "E", "C", "E", None)
    srcs = _srcs(draw, terms)
    n = len(srcs)
    if fam == "catch":
        form = draw(st.sampled_from(["factory", "iter_list", "iter_gen", "op_obs", "op_handler"]))
        if form == "op_obs":
            order = [draw(st.integers(0, n - 1)), draw(st.integers(0, n - 1))]
        elif form == "op_handler":
            order = [draw(st.integers(0, n - 1))]
        else:
            order = _idx_list(draw, n)
        c = {"op": "catch", "form": form, "srcs": srcs, "order": order}
        if form == "op_handler":
            tgt = st.one_of(st.integers(0, n - 1), st.just("src"))
            c["hmap"] = {"e1": draw(tgt), "e2": draw(tgt), "*": draw(st.integers(0, n - 1))}
            if draw(st.booleans()):
                # the source behaves differently when the handler returns it again
                srcs[order[0]] = _scripted(draw, _MOSTLY_E)
    else:
        form = draw(st.sampled_from(["factory", "factory", "op"]))
        if form == "op":
            items = [draw(st.integers(0, n - 1)), draw(st.integers(0, n - 1))]
        else:
            item = st.one_of(
                st.integers(0, n - 1),
                st.integers(0, n - 1),
                st.fixed_dictionaries({"none": st.integers(0, n - 1), "e1": st.integers(0, n - 1), "*": st.integers(0, n - 1)}),
            )
            k = draw(st.sampled_from([2, 3, 1, 4, 5, 2, 3, 4, 5, 0]))
            items = [draw(item) for _ in range(k)]
        c = {"op": "on_error_resume_next", "form": form, "srcs": srcs, "items": items}
    return _finish(draw, c)


@st.composite
def _loops(draw):
    op = draw(st.sampled_from(["while_do", "do_while"]))
    k = draw(st.sampled_from([2, 3, 1, 4, 2, 3, 4, 0]))
    cond = [draw(st.sampled_from([True, True, True, True, False])) for _ in range(k)]
    c = {"op": op, "form": "op", "srcs": [_scripted(draw, _MOSTLY_C)], "order": [0], "cond": cond}
    return _finish(draw, c)


def checks(tier):
    ex = lambda q: {"quick": q, "thorough": 16 * 10 * q}  # noqa: E731
    sh = {"quick": 4, "thorough": 16}
    return [
        Check("lists", _run, strategy=st.one_of(_lists(), _lists(), _lists(), _sync_async("C")), examples=ex(1600), shards=sh),
        Check("counts", _run, strategy=st.one_of(_counts(), _nested()), examples=ex(1600), shards=sh),
        Check("catch", _run, strategy=st.one_of(_catches(), _catches(), _sync_async("E")), examples=ex(1800), shards=sh),
        Check("loops", _run, strategy=_loops(), examples=ex(800), shards=sh),
    ]
