"""C41 Future, callback and blocking bridges keep their contracts."""
from __future__ import annotations

import asyncio
import concurrent.futures
import threading

from hypothesis import strategies as st

import reactivex
from reactivex import operators as ops
from reactivex.internal.exceptions import SequenceContainsNoElementsError
from reactivex.run import run as run_fn
from reactivex.scheduler import CurrentThreadScheduler, ImmediateScheduler

from vlib.core import FAIL, OK, SKIP, Check, HarnessError
from vlib.lab import Lab
from vlib.values import NAMES, Tagged, canon, val

PROPERTY_ID = "C41"
LEVEL = "exploration"
RULE = (
    "Four generated checks and one enumerated thread-race check. from_future: an asyncio future (fresh event loop per case, driven by a bounded number of "
    "zero-delay loop iterations, closed afterwards) or a concurrent.futures.Future, wrapped by from_future or start_async, "
    "1-2 subscribers, resolved before or after subscription with a result from V / an exception / cancellation, or the first "
    "subscriber unsubscribes first; oracle: [N(result), C] / [E(that exception)] / [E(CancelledError)] / nothing and "
    "future.cancelled(). blocking: a finite synchronous sequence (of / from_iterable / create / concat with throw; 0..4 values "
    "from V incl. None and falsy, ending in C or E) or a virtual-time cold source, consumed by ops.to_future (explicit asyncio ctor, concurrent.futures.Future ctor, "
    "default ctor inside a running loop, fluent), Observable.__await__ inside a coroutine, Observable.run / reactivex.run on "
    "CurrentThreadScheduler, ImmediateScheduler and the default (new-thread) scheduler; oracle: last element (by identity) / "
    "the sequence's error (by identity) / SequenceContainsNoElementsError. start: start(func, virtual scheduler) / "
    "to_async(func, virtual scheduler)(*args), called before the scheduler runs or from inside a scheduled action, with 0..3 "
    "probes subscribing synchronously after the call or at generated ticks (before and after the function ran), each "
    "unsubscribing never / immediately / after 0..2 ticks; oracle: func called exactly once with the arguments whatever the "
    "observers do, every probe still subscribed when the result exists sees [N(result), C] (or [E(exc)] if func raised), a "
    "probe that unsubscribed before the function ran sees nothing. "
    "start_race (Engine DET, vlib/det.py: line-level yield points, cooperative locks, objects created after patching): "
    "start(func, S) / to_async(func, S)(*args) with S a scheduler that hands the scheduled action to another thread (as the "
    "default TimeoutScheduler does); thread F runs that action (func, then the result is published and completed, or the "
    "error), thread S subscribes a recorder to the returned observable, 0/1 observer subscribed beforehand, either thread "
    "scheduled first, func returning or raising; every schedule with <=2 (quick) / <=3 (thorough) preemptions placed where "
    "the preempted thread is about to execute reactivex/subject/{subject,asyncsubject,innersubscription}.py or "
    "reactivex/observer/observer.py (the only code touching state shared by the two threads) is run; oracle: in EVERY "
    "schedule func is called once, the racing recorder, the earlier observer and an observer subscribed after both threads "
    "ended each hold exactly [N(result), C] (or [E(that exception)], by identity), no deadlock/exception; this is one "
    "producer completing while a consumer subscribes (legal use), not overlapping producer calls; non-trivial = the two "
    "calls overlapped in some schedule. "
    "from_callback: func(*args, cb) with 0..2 leading args, cb invoked with 0..4 arguments synchronously or at a later "
    "virtual tick, without mapper / with mapper / with raising mapper, 1-2 subscriptions; oracle: exactly [N(v), C] at the "
    "callback's tick with v = the argument list (the bare argument when there is exactly one; None/empty for none) or the "
    "mapper's result (mapper called once with the argument tuple), [E(exc)] when the mapper raised. Non-trivial: any outcome "
    "other than the plain single-result path (error, cancellation, unsubscribe-first, empty sequence, falsy/None result, "
    "late subscriber, mapper, asynchronous callback, >=2 or 0 callback arguments). Distinct = distinct case JSON."
)
ASSUMPTIONS = [
    "blocking bridges are called from a helper thread joined with a 20 s wall-clock limit; a bridge still blocked then is reported as a violation (finite synchronous sources cannot legitimately block)",
    "asyncio loops are created per case, driven only by run_until_complete over zero-delay work, and closed; helper threads started by the default scheduler are joined before the case returns",
    "to_future is given asyncio futures and, through future_ctor, concurrent.futures.Future (same set_result/set_exception/cancelled protocol); from_future is given both",
    "a future cancelled by unsubscription is judged by future.cancelled() only",
    "start_race: the capture scheduler stands for any scheduler that runs the function on a thread other than the consumer's; the search is bounded (2 threads, <=2/<=3 preemptions, preemption points restricted to the subject/observer files), every explored schedule is a real schedule and the oracle is the statement's single outcome, so the bound can only miss, not false-alarm; CPython-GIL atomicity of single lines as documented in vlib/det.py",
]

BLOCK_LIMIT_S = 20.0


class Rec:
    def __init__(self):
        self.events = []  # [kind, raw]
        self.d = None

    def subscribe(self, obs, scheduler=None):
        self.d = obs.subscribe(lambda v: self.events.append(["N", v]), lambda e: self.events.append(["E", e]), lambda: self.events.append(["C", None]), scheduler=scheduler)
        return self.d

    def shape(self):
        return [[k, canon(x)] if k != "C" else ["C"] for k, x in self.events]


def _spin(loop, n=4):
    for _ in range(n):
        loop.run_until_complete(asyncio.sleep(0))


def _close(loop):
    try:
        loop.run_until_complete(loop.shutdown_asyncgens())
    finally:
        loop.close()


# ---------------------------------------------------------------------------------------
# from_future / start_async


def _run_from_future(case):
    fk, outcome, when, via, nsub = case["fk"], case["outcome"], case["when"], case["via"], case["nsub"]
    loop = asyncio.new_event_loop() if fk == "asyncio" else None
    try:
        fut = loop.create_future() if fk == "asyncio" else concurrent.futures.Future()
        v = val(case["v"])
        err = Tagged("fut-error")

        def resolve():
            if outcome == "result":
                fut.set_result(v)
            elif outcome == "exception":
                fut.set_exception(err)
            elif outcome == "cancel":
                if not fut.cancel():
                    raise HarnessError("cancel() refused")
            if loop is not None:
                _spin(loop)

        if via == "from_future":
            obs = reactivex.from_future(fut)
        elif via == "start_async":
            obs = reactivex.start_async(lambda: fut)
        elif via == "start_async_raises":

            def boom():
                raise err

            obs = reactivex.start_async(boom)
        else:
            raise HarnessError(via)
        recs = [Rec() for _ in range(nsub)]
        if when == "before" and outcome != "unsub" and via != "start_async_raises":
            resolve()
        for r in recs:
            r.subscribe(obs)
        if loop is not None:
            _spin(loop)
        if via == "start_async_raises":
            for r in recs:
                if [e[0] for e in r.events] != ["E"] or r.events[0][1] is not err:
                    return FAIL("start_async:factory-raise", f"events {r.shape()} expected [E(fut-error)]; case={case}")
            return OK(True, ["factory-raised"])
        if outcome == "unsub":
            recs[0].d.dispose()
            if loop is not None:
                _spin(loop)
            if not fut.cancelled():
                return FAIL("from_future:not-cancelled-on-unsubscribe", f"future state cancelled={fut.cancelled()} done={fut.done()}; case={case}")
            if recs[0].events:
                return FAIL("from_future:events-after-unsubscribe", f"{recs[0].shape()}; case={case}")
            for r in recs[1:]:
                if [e[0] for e in r.events] != ["E"] or not isinstance(r.events[0][1], (asyncio.CancelledError, concurrent.futures.CancelledError)):
                    return FAIL("from_future:cancellation-not-on_error", f"other subscriber saw {r.shape()}; case={case}")
            return OK(True, ["unsubscribed-first", fk])
        if when == "after":
            for r in recs:
                if r.events:
                    return FAIL("from_future:early-events", f"{r.shape()} before the future resolved; case={case}")
            resolve()
        for r in recs:
            kinds = [e[0] for e in r.events]
            if outcome == "result":
                if kinds != ["N", "C"] or r.events[0][1] is not v and canon(r.events[0][1]) != canon(v):
                    return FAIL("from_future:result", f"events {r.shape()} expected [N({case['v']}), C]; case={case}")
            elif outcome == "exception":
                if kinds != ["E"] or r.events[0][1] is not err:
                    return FAIL("from_future:exception", f"events {r.shape()} expected [E(fut-error)]; case={case}")
            elif outcome == "cancel":
                if kinds != ["E"] or not isinstance(r.events[0][1], (asyncio.CancelledError, concurrent.futures.CancelledError)):
                    return FAIL("from_future:cancel", f"events {r.shape()} expected [E(CancelledError)]; case={case}")
        nt = outcome != "result" or case["v"] in ("none", "i0", "f0", "false", "s", "t", "l", "d") or nsub > 1 or when == "before"
        return OK(nt, [fk, outcome, when, via])
    finally:
        if loop is not None:
            _close(loop)


_ff = st.fixed_dictionaries(
    {
        "fk": st.sampled_from(["asyncio", "concurrent"]),
        "outcome": st.sampled_from(["result", "result", "exception", "cancel", "unsub"]),
        "when": st.sampled_from(["before", "after"]),
        "via": st.sampled_from(["from_future", "from_future", "start_async", "start_async_raises"]),
        "nsub": st.integers(1, 2),
        "v": st.sampled_from(NAMES),
    }
)


# ---------------------------------------------------------------------------------------
# to_future / await / run


def _sync_source(case, vals, err):
    k = case["src"]
    if k == "of":
        o = reactivex.of(*vals)
    elif k == "iter":
        o = reactivex.from_iterable(vals)
    elif k == "create":

        def sub(observer, scheduler=None):
            for x in vals:
                observer.on_next(x)
            if case["end"] == "E":
                observer.on_error(err)
            else:
                observer.on_completed()

        return reactivex.create(sub)
    else:
        raise HarnessError(k)
    if case["end"] == "E":
        o = reactivex.concat(o, reactivex.throw(err))
    return o


def _guarded(f):
    """Run f() in a helper thread; -> ("value", v) | ("raise", exc) | ("blocked", None)."""
    box = []

    def target():
        try:
            box.append(("value", f()))
        except BaseException as e:  # noqa
            box.append(("raise", e))

    before = set(threading.enumerate())
    t = threading.Thread(target=target, daemon=True)
    t.start()
    t.join(BLOCK_LIMIT_S)
    if t.is_alive():
        return ("blocked", None)
    for th in set(threading.enumerate()) - before:
        if th is not threading.current_thread():
            th.join(BLOCK_LIMIT_S)
    return box[0]


def _run_blocking(case):
    bridge = case["bridge"]
    vals = [val(n) for n in case["vals"]]
    err = Tagged("seq-error")
    loop = None
    lab = None
    try:
        if bridge in ("to_future_cold", "to_future_concurrent_cold"):
            lab = Lab()
            tl = [[i + 1, "N", n] for i, n in enumerate(case["vals"])]
            tl.append([len(tl) + 1, "E" if case["end"] == "E" else "C", "seq-error" if case["end"] == "E" else None])
            src = lab.cold(tl)
        else:
            src = _sync_source(case, vals, err)

        def fut_outcome(fut):
            if not fut.done():
                return ("pending", None)
            if fut.cancelled():
                return ("cancelled", None)
            e = fut.exception()
            return ("raise", e) if e is not None else ("value", fut.result())

        if bridge in ("to_future_ctor", "to_future_fluent", "to_future_cold", "to_future_concurrent", "to_future_concurrent_cold"):
            loop = asyncio.new_event_loop()
            made = []
            concurrent_kind = "concurrent" in bridge

            def ctor():
                # future_ctor may build any future; a concurrent.futures.Future needs no loop
                f = concurrent.futures.Future() if concurrent_kind else loop.create_future()
                made.append(f)
                return f

            fut = src.to_future(ctor) if bridge == "to_future_fluent" else src.pipe(ops.to_future(ctor))
            if made != [fut]:
                return FAIL("to_future:ctor", f"future_ctor called {len(made)} times / returned future is not the constructed one; case={case}")
            if lab is not None:
                if fut.done():
                    return FAIL("to_future:early", f"future done before the source emitted; case={case}")
                lab.run()
                if lab.escaped is not None:
                    return FAIL(f"to_future:escaped:{type(lab.escaped).__name__}", f"{lab.escaped!r}; case={case}")
                if lab.open_subscriptions():
                    return FAIL("to_future:subscription-open", f"{lab.open_subscriptions()}; case={case}")
            _spin(loop)
            got = fut_outcome(fut)
        elif bridge == "to_future_running":
            loop = asyncio.new_event_loop()

            async def main():
                f = src.pipe(ops.to_future())
                if not isinstance(f, asyncio.Future):
                    raise HarnessError("to_future() did not return an asyncio future")
                return await asyncio.wait_for(f, BLOCK_LIMIT_S)

            got = _loop_outcome(loop, main())
        elif bridge == "await":
            loop = asyncio.new_event_loop()

            async def main():
                async def inner():
                    return await src

                return await asyncio.wait_for(inner(), BLOCK_LIMIT_S)

            got = _loop_outcome(loop, main())
        elif bridge == "run_current":
            got = _guarded(lambda: src.run(CurrentThreadScheduler()))
        elif bridge == "run_immediate":
            got = _guarded(lambda: src.run(ImmediateScheduler()))
        elif bridge == "run_default":
            got = _guarded(lambda: src.run())
        elif bridge == "run_fn_default":
            got = _guarded(lambda: run_fn(src))
        elif bridge == "run_fn_current":
            got = _guarded(lambda: run_fn(src, CurrentThreadScheduler()))
        else:
            raise HarnessError(bridge)
    finally:
        if loop is not None:
            _close(loop)
    tag = bridge.split("_")[0] if not bridge.startswith("to_future") else "to_future"
    if got[0] == "blocked" or (got[0] == "raise" and isinstance(got[1], (asyncio.TimeoutError, TimeoutError))):
        return FAIL(f"{tag}:blocked", f"bridge did not return within {BLOCK_LIMIT_S}s for a finite sequence; case={case}")
    if got[0] == "raise" and isinstance(got[1], HarnessError):
        raise got[1]
    cls = [bridge, case["src"] if lab is None else "cold"]
    if case["end"] == "E":
        ok = got[0] == "raise" and (got[1] is err or (lab is not None and isinstance(got[1], Tagged) and got[1].tag == "seq-error"))
        if not ok:
            return FAIL(f"{tag}:error", f"got {_show(got)} expected raise of the sequence's error; case={case}")
        return OK(True, cls + ["error"])
    if not vals:
        if not (got[0] == "raise" and isinstance(got[1], SequenceContainsNoElementsError)):
            return FAIL(f"{tag}:empty", f"got {_show(got)} expected SequenceContainsNoElementsError; case={case}")
        return OK(True, cls + ["empty"])
    last = vals[-1]
    if got[0] != "value" or not (got[1] is last or canon(got[1]) == canon(last)):
        return FAIL(f"{tag}:last", f"got {_show(got)} expected last element {case['vals'][-1]}; case={case}")
    falsy = case["vals"][-1] in ("none", "i0", "f0", "false", "s", "t", "l", "d")
    return OK(falsy or len(vals) > 1, cls + (["falsy-last"] if falsy else []))


def _loop_outcome(loop, coro):
    try:
        return ("value", loop.run_until_complete(coro))
    except HarnessError:
        raise
    except BaseException as e:  # noqa
        return ("raise", e)


def _show(got):
    return [got[0], canon(got[1])]


_blocking = st.fixed_dictionaries(
    {
        "bridge": st.sampled_from(["to_future_ctor", "to_future_fluent", "to_future_cold", "to_future_concurrent", "to_future_concurrent_cold", "to_future_running", "await", "run_current", "run_immediate", "run_default", "run_fn_default", "run_fn_current"]),
        "src": st.sampled_from(["of", "iter", "create"]),
        "vals": st.lists(st.sampled_from(NAMES), max_size=4),
        "end": st.sampled_from(["C", "C", "E"]),
    }
)


# ---------------------------------------------------------------------------------------
# start / to_async


def _run_start(case):
    lab = Lab()
    args = [val(n) for n in case["args"]]
    if case["raises"]:
        lab.arm = {"func": {0}}

    def body(*a):
        return ("r",) + tuple(a)

    f = lab.fn("func", body)
    # subscribers: legacy form None|tick, or {"at": None|tick, "unsub": None|"now"|delta}
    subs = [s if isinstance(s, dict) else {"at": s, "unsub": None} for s in case["subs"]]
    call_at = case.get("call_at")
    holder = []
    probes = [lab.probe(f"p{i}") for i in range(len(subs))]

    def create():
        if case["form"] == "start":
            if args:
                raise HarnessError("start takes no args")
            holder.append(reactivex.start(f, lab.sched))
        else:
            holder.append(reactivex.to_async(f, lab.sched)(*args))
        if lab.cb_count.get("func", 0):
            raise _Early()
        for p, s in zip(probes, subs):
            if s["at"] is None:
                attach(p, s)

    def attach(p, s):
        p.subscribe(holder[0])
        if s["unsub"] == "now":
            p.dispose()
        elif s["unsub"] is not None:
            lab.at(lab.now() + s["unsub"], p.dispose)

    try:
        if call_at is None:
            create()
        else:
            lab.at(call_at, create)
        base = call_at or 0
        for p, s in zip(probes, subs):
            if s["at"] is not None:
                lab.at(base + s["at"], lambda p=p, s=s: attach(p, s))
        lab.run()
        if isinstance(lab.escaped, _Early):
            raise lab.escaped
    except _Early:
        return FAIL("start:called-before-scheduler-ran", f"func called at construction; case={case}")
    if lab.inconclusive:
        return SKIP(lab.inconclusive)
    if lab.escaped is not None:
        return FAIL(f"start:escaped:{type(lab.escaped).__name__}", f"{lab.escaped!r}; case={case}")
    calls = [e for e in lab.cb_log if e[2] == "func"]
    if len(calls) != 1:
        return FAIL("start:call-count", f"func called {len(calls)} times (every invocation of the async function must call it exactly once, whatever its observers do); case={case}")
    if calls[0][3] != [canon(a) for a in args]:
        return FAIL("start:call-args", f"func called with {calls[0][3]} expected {[canon(a) for a in args]}; case={case}")
    call_tick, call_seq = calls[0][0], calls[0][1]
    gone_early = 0
    for p, s in zip(probes, subs):
        if p.disposed_seq is not None and p.disposed_seq < call_seq:
            exp = []  # unsubscribed before the function ran
            gone_early += 1
        else:
            t = max(call_tick, p.sub_tick)
            if case["raises"]:
                exp = [[t, "E", ["exc", "inj:func:0"]]]
            else:
                exp = [[t, "N", canon(("r",) + tuple(args))], [t, "C", None]]
        if p.trace() != exp:
            return FAIL("start:trace" + ("-error" if case["raises"] else ""), f"probe {p.name} saw {p.trace()} expected {exp}; case={case}")
    late = any(p.sub_tick is not None and p.events and p.events[0][3] > call_seq and p.sub_tick >= call_tick and s["at"] not in (None, 0) for p, s in zip(probes, subs))
    cls = [case["form"]] + (["func-raised"] if case["raises"] else []) + (["late-subscriber"] if late else []) + (["no-subscriber"] if not probes else [])
    if gone_early:
        cls.append("unsubscribed-before-call")
        if gone_early < len(probes):
            cls.append("unsubscribed-before-call+other-observer")
    if call_at is not None:
        cls.append("called-inside-scheduler-action")
    return OK(case["raises"] or late or len(probes) != 1 or bool(args) or gone_early > 0, cls)


class _Early(Exception):
    pass


@st.composite
def _start_cases(draw):
    form = draw(st.sampled_from(["start", "to_async", "to_async"]))
    args = [] if form == "start" else draw(st.lists(st.sampled_from(NAMES), max_size=3))
    sub = st.fixed_dictionaries({"at": st.one_of(st.none(), st.none(), st.integers(0, 3)), "unsub": st.sampled_from([None, None, "now", "now", 0, 1, 2])})
    subs = draw(st.lists(sub, max_size=3))
    return {"form": form, "args": args, "raises": draw(st.booleans()), "call_at": draw(st.sampled_from([None, None, 0, 2])), "subs": subs}


# ---------------------------------------------------------------------------------------
# start / to_async: a consumer subscribing on one thread WHILE the function finishes on another (Engine DET)


class _CaptureScheduler:
    """Keeps the scheduled action so that a chosen logical thread can run it (stands for any scheduler that runs the
    function on a thread other than the consumer's, which the default TimeoutScheduler does)."""

    def __init__(self):
        self.actions = []

    def schedule(self, action, state=None):
        self.actions.append((action, state))


def _run_start_race(case):
    """case = {"form": "start"|"to_async", "args": [names], "raises": bool, "pre": 0|1, "first": "sub"|"func", "K": k}.
    Thread F runs the action that to_async/start scheduled (func, then result published and completed); thread S
    subscribes a recorder to the returned observable.  Every schedule with <= K preemptions is run."""
    from vlib import det
    from vlib.hist_subjects import _fresh_thread_state

    form, raises, pre, K = case["form"], case["raises"], case.get("pre", 0), case["K"]
    args = [val(n) for n in case["args"]]
    if form == "start" and args:
        raise HarnessError("start takes no args")
    err = Tagged("func-error")
    kw = dict(max_steps=6000, reuse_threads=True, wall_timeout=30.0)

    def factory():
        _fresh_thread_state()
        calls = []

        def func(*a):
            calls.append(a)
            if raises:
                raise err
            return ("r",) + tuple(a)

        sched = _CaptureScheduler()
        obs = reactivex.start(func, sched) if form == "start" else reactivex.to_async(func, sched)(*args)
        if len(sched.actions) != 1 or calls:
            raise HarnessError(f"start_race: expected one pending scheduled action, got {len(sched.actions)} (calls={len(calls)})")
        pres = [Rec() for _ in range(pre)]
        for r in pres:
            r.subscribe(obs)
        rec = Rec()

        def tf():
            action, state = sched.actions[0]
            action(sched, state)

        def ts():
            rec.subscribe(obs)

        return ([tf, ts] if case.get("first") == "func" else [ts, tf]), {"rec": rec, "pres": pres, "calls": calls, "obs": obs}

    exp = [["E", canon(err)]] if raises else [["N", canon(("r",) + tuple(args))], ["C"]]

    def judge(res, ctx):
        if res.deadlock:
            return "deadlock", f"{res.deadlock}"
        if res.exceptions:
            return "exception", f"{res.exceptions}"
        if len(ctx["calls"]) != 1 or list(ctx["calls"][0]) != args:
            return "call-count", f"func calls {ctx['calls']!r}"
        if ctx["rec"].shape() != exp:
            return "racing-subscriber", f"the observer that subscribed while the function was finishing received {ctx['rec'].shape()}, expected {exp}"
        if raises and ctx["rec"].events[0][1] is not err:
            return "racing-subscriber-error-identity", f"{ctx['rec'].events!r}"
        for r in ctx["pres"]:
            if r.shape() != exp:
                return "earlier-subscriber", f"observer subscribed before the race received {r.shape()}, expected {exp}"
        late = Rec()
        late.subscribe(ctx["obs"])
        if late.shape() != exp:
            return "late-subscriber", f"observer subscribed after the race received {late.shape()}, expected {exp}"
        return None

    runs = overlap = incomplete = 0
    with det.patched():
        for s, res, ctx in _explore_shared(det, factory, K, kw):
            if runs == 0:
                res_b, _ = det.run_checked(factory, s, **kw)  # determinism of the base run
                if res_b.fingerprint() != res.fingerprint():
                    raise HarnessError("start_race: base run not deterministic")
            runs += 1
            overlap += res.overlapped()
            if not res.complete and not res.deadlock:
                incomplete += 1
                continue
            bad = judge(res, ctx)
            if bad is not None:
                res2, ctx2 = det.run_checked(factory, s, **kw)
                bad2 = judge(res2, ctx2)
                if bad2 is None or bad2[0] != bad[0]:
                    raise HarnessError(f"start_race: verdict not reproducible for schedule {s}: {bad} vs {bad2}")
                return FAIL(f"start_race:{bad[0]}" + ("|error" if raises else ""), f"{bad[1]}; schedule={s}; {res2.describe()}; case={case}", classes=["det"])
    if incomplete:
        return SKIP("budget")
    cl = ["det", form, f"K{K}", "first:" + str(case.get("first")), f"pre={pre}"] + (["func-raised"] if raises else []) + [f"runs>={b}" for b in (10, 100, 1000) if runs >= b]
    return OK(overlap > 0, cl)


# files whose code reads/writes the state shared by the two threads (the AsyncSubject behind to_async/start); everything
# else either thread executes (building its own subscription chain, calling func) works on thread-private objects
_SHARED_FILES = ("subject.py", "asyncsubject.py", "innersubscription.py", "observer.py")


def _explore_shared(det, factory, K, kw):
    """det.explore (breadth-first, all schedules with <= K preemptions), except that a preemption is only placed where
    the thread being preempted is about to execute a line of _SHARED_FILES.  Every schedule run is a real schedule; the
    restriction only bounds the search (the full subscribe path is ~170 line steps, nearly all of them thread-private)."""
    c0 = det.clock_us()
    level = [[]]
    for k in range(K + 1):
        nxt = []
        for sched in level:
            det.set_clock_us(c0)
            threads, ctx = factory()
            res = det.run_program(threads, sched, **kw)
            yield sched, res, ctx
            if k < K:
                after = sched[-1][0] if sched else -1
                for p in det.next_preemptions(res, after):
                    if str(res.labels[p[0]]).split(":")[0] in _SHARED_FILES:
                        nxt.append(sched + [p])
        level = nxt


def _start_race_cases(tier):
    K = 2 if tier == "quick" else 3
    forms = [("start", []), ("to_async", []), ("to_async", ["i1", "none"])]
    for form, args in forms:
        for raises in (False, True):
            for pre in (0, 1):
                for first in ("sub", "func"):
                    yield {"form": form, "args": args, "raises": raises, "pre": pre, "first": first, "K": K}


# ---------------------------------------------------------------------------------------
# from_callback


def _run_from_callback(case):
    lab = Lab()
    fargs = [val(n) for n in case["fargs"]]
    cbargs = [val(n) for n in case["cb"]]
    calls = []  # [tick, args-without-callback ok?]
    later = case["when"] == "later"

    def func(*a):
        lab.step()
        *lead, cb = a
        calls.append([lab.now(), len(lead) == len(fargs) and all(x is y for x, y in zip(lead, fargs)) and callable(cb)])
        if later:
            lab.sched.schedule_relative(2, lambda s, st_=None: cb(*cbargs))
        else:
            cb(*cbargs)

    mres = []

    def mapper(a):
        r = ("m", a)
        mres.append(r)
        return r

    mk = case["mapper"]
    if mk == "raise":
        lab.arm = {"mapper": set(range(8))}
    m = lab.fn("mapper", mapper) if mk else None
    factory = reactivex.from_callback(func, m) if m is not None else reactivex.from_callback(func)
    o = factory(*fargs)
    if calls:
        return FAIL("from_callback:called-before-subscribe", f"func called when the observable was built; case={case}")
    probes = []
    for i, s in enumerate(case["subs"]):
        p = lab.probe(f"p{i}")
        probes.append(p)
        lab.at(s, lambda p=p: p.subscribe(o))
    lab.run()
    if lab.inconclusive:
        return SKIP(lab.inconclusive)
    k = len(cbargs)
    tag = "from_callback"
    if k == 0 and not mk:
        # one root cause, one signature: a callback invoked without arguments (no mapper)
        r = _cb_verdict(case, lab, probes, calls, cbargs, mk, later, tag)
        if not r.ok:
            r.sig = "from_callback:zero-args-no-mapper"
        return r
    return _cb_verdict(case, lab, probes, calls, cbargs, mk, later, tag)


def _cb_verdict(case, lab, probes, calls, cbargs, mk, later, tag):
    k = len(cbargs)
    fargs = case["fargs"]
    if lab.escaped is not None:
        return FAIL(f"{tag}:escaped:{type(lab.escaped).__name__}", f"{lab.escaped!r} escaped from the callback; case={case}")
    if len(calls) != len(probes) or not all(c[1] for c in calls):
        return FAIL(f"{tag}:func-call", f"func calls {calls} for {len(probes)} subscriptions (leading args must be passed through); case={case}")
    mcalls = [e for e in lab.cb_log if e[2] == "mapper"]
    if mk and len(mcalls) != len(probes):
        return FAIL(f"{tag}:mapper-count", f"mapper called {len(mcalls)} times for {len(probes)} subscriptions; case={case}")
    order = sorted(range(len(probes)), key=lambda i: (case["subs"][i], i))
    for n, i in enumerate(order):
        p = probes[i]
        t = case["subs"][i] + (2 if later else 0)
        ev = p.events
        if mk == "raise":
            exp = [[t, "E", ["exc", f"inj:mapper:{n}"]]]
            if p.trace() != exp:
                return FAIL(f"{tag}:mapper-raise", f"probe saw {p.trace()} expected {exp}; case={case}")
            continue
        kinds = [e[1] for e in ev]
        if kinds != ["N", "C"]:
            return FAIL(f"{tag}:not-one-value-then-complete" + ("|mapper" if mk else ""), f"probe saw {p.trace()} expected exactly one value then completion; case={case}")
        if [e[0] for e in ev] != [t, t]:
            return FAIL(f"{tag}:time", f"probe saw {p.trace()} expected at tick {t}; case={case}")
        got = ev[0][2]
        cargs = [canon(x) for x in cbargs]
        if mk:
            if mcalls[n][3] not in ([["tuple", cargs]], [["list", cargs]]):
                return FAIL(f"{tag}:mapper-args", f"mapper called with {mcalls[n][3]} expected the argument tuple {cargs}; case={case}")
            if got not in (["tuple", [["str", "m"], ["tuple", cargs]]], ["tuple", [["str", "m"], ["list", cargs]]]):
                return FAIL(f"{tag}:mapper-result", f"emitted {got}, expected the mapper's result; case={case}")
        else:
            allowed = [["list", cargs], ["tuple", cargs]]
            if k == 1:
                allowed.append(cargs[0])
            if k == 0:
                allowed.append(["none"])
            if got not in allowed:
                return FAIL(f"{tag}:value", f"emitted {got}, expected the callback arguments {cargs}; case={case}")
    cls = [f"k={k}", "mapper:" + str(mk), case["when"], f"subs={len(probes)}"]
    return OK(bool(mk) or later or k != 1 or len(probes) > 1, cls)


def _cb_cases(ks):
    return st.fixed_dictionaries(
        {
            "fargs": st.lists(st.sampled_from(NAMES), max_size=2),
            "cb": st.sampled_from(list(ks)).flatmap(lambda k: st.lists(st.sampled_from(NAMES), min_size=k, max_size=k)),
            "mapper": st.sampled_from([None, None, "map", "map", "raise"]),
            "when": st.sampled_from(["sync", "later"]),
            "subs": st.lists(st.integers(0, 3), min_size=1, max_size=2),
        }
    )


_cb_zero = st.fixed_dictionaries(
    {
        "fargs": st.lists(st.sampled_from(NAMES), max_size=2),
        "cb": st.just([]),
        "mapper": st.none(),
        "when": st.sampled_from(["sync", "later"]),
        "subs": st.lists(st.integers(0, 3), min_size=1, max_size=2),
    }
)


def _cb_main():
    # zero callback arguments without a mapper live in their own check (from_callback_zero)
    return _cb_cases([0, 1, 2, 3, 4]).filter(lambda c: not (len(c["cb"]) == 0 and c["mapper"] is None))


def checks(tier):
    return [
        Check("from_future", _run_from_future, strategy=_ff, examples={"quick": 1000, "thorough": 16 * 5000}, shards={"quick": 2, "thorough": 16}),
        Check("blocking", _run_blocking, strategy=_blocking, examples={"quick": 1500, "thorough": 16 * 5000}, shards={"quick": 2, "thorough": 16}),
        Check("start", _run_start, strategy=_start_cases(), examples={"quick": 800, "thorough": 16 * 5000}, shards={"quick": 2, "thorough": 16}),
        Check("start_race", _run_start_race, cases=_start_race_cases, shards={"quick": 4, "thorough": 16}, exhaustive=True),
        Check("from_callback", _run_from_callback, strategy=_cb_main(), examples={"quick": 1500, "thorough": 16 * 5000}, shards={"quick": 2, "thorough": 16}),
        Check("from_callback_zero", _run_from_callback, strategy=_cb_zero, examples={"quick": 40, "thorough": 16 * 100}, shards={"quick": 1, "thorough": 16}),
    ]
