"""C16 Rate-limiting operators follow their timing rules."""
from __future__ import annotations

from hypothesis import strategies as st

from reactivex import operators as ops

from vlib.core import OK, Check
from vlib.lab import conform
from vlib.timeops import mk_trigger, sched_modes, sched_setup, CLOCKS, combine, cv, effective, execute_all, first_fire, fwd, judge, mk_lab, nelems, outcomes, second_sub, sources, sub_ticks, targ, triggers, with_feedback

PROPERTY_ID = "C16"
LEVEL = "exploration"
RULE = (
    "Generated cases per operator: a cold / hot / synchronous logged source (0-6 uniquely numbered elements, gaps drawn from "
    "{0,1,2,3,d-1,d,d+1,2d,2d+1} around the due time / window / period d, terminal C/E/none), subscribed at tick 0/2/5, on the "
    "numeric TestScheduler clock and the datetime HistoricalScheduler clock; time arguments as int, float or timedelta. Oracles "
    "(independent reference loops over the effective timeline): debounce/throttle_with_timeout(d, d in 0..5): x at t is emitted "
    "at t+d iff no newer element arrives before t+d, the pending element is flushed at completion and dropped at an error; "
    "throttle_first(w, w in 1..5): an element is emitted iff it is the first or at least w after the last emitted one; "
    "throttle_with_mapper: the pending element is emitted when its throttle observable (never / immediate / N / C / multi-event; "
    "asynchronous or synchronous) first emits or completes, unless superseded; sample(period 1..4) and sample(sampler "
    "observable): at each tick the latest not-yet-sampled element, completion at the first tick after the source completed, "
    "source error immediately. A timer/tick and a source notification at exactly the same instant may be ordered either way "
    "(one order per timer and instant; for sample one order for ALL ticks of a subscription: an element arriving exactly on a "
    "tick is either always sampled by that tick or always by the next one). Non-trivial: >=1 element suppressed and >=1 emitted. In 1 case of 3 (not for sample with a sampler observable) the same built observable is subscribed a second time at a generated tick s1 in s0+{0,1,2,3,7} and the same per-subscription oracle is applied to that probe. Scheduler passing: debounce, throttle_first and sample(period) are run in the modes sub (no argument, subscription carries the lab scheduler), arg (scheduler argument, subscription carries none) and arg-other (argument, subscription carries a different never-started virtual scheduler reading +1000 ticks) and must behave identically; one in four throttle observables is a scheduler-less library factory (timer(d), empty(), return_value, never) and the sampler observable may be a scheduler-less interval(p): they must inherit the subscribe-time scheduler. Any request for the real-time TimeoutScheduler during a run is refused and reported (realtime-fallback), any action left on the decoy scheduler is reported (wrong-scheduler). Re-entrant feedback (check sample_feedback): sample(period) over a hot source into which the downstream pushes a new element while the k-th sample is being delivered - it arrived after that sample was taken, so it is the latest not-yet-sampled element at the next tick (ignored if the source had already completed). Check throttle_first_feedback: the consumer pushes a new element into the hot source from inside its on_next for the k-th emitted element; it arrives 0 < window after the last emitted element and must be suppressed. Distinct = distinct case JSON."
)
ASSUMPTIONS = [
    "throttle_first windows and sample periods are > 0 (documented precondition); debounce due time >= 0",
    "sample(sampler observable): behaviour from the sampler's own termination onwards is not judged (run is cut one tick before it)",
    "throttle observables do not error (the property is silent about it)",
    "at an exact tie between a timer/tick and a source notification either order is accepted; sample must use the same order at every tick of one subscription",
]

FORMS = ["num", "float", "td"]


def _nt(exp, n):
    k = sum(1 for e in exp if e[1] == "N")
    return 1 <= k < n


def _base_cls(case):
    return [f"clock:{case['clock']}", f"src:{case['src']['kind']}", f"sch:{case.get('sch') or 'sub'}"] + ([f"form:{case['form']}"] if "form" in case else [])


def _judge_nt(op, case, lab, p, outs, cls, n):
    r = judge(op, case, lab, p, outs, cls)
    if r.ok and not r.inconclusive:
        tr = p.trace()
        r.nontrivial = _nt(tr, n)
        if r.nontrivial:
            r.classes = tuple(r.classes) + ("suppressed+emitted",)
    return r


# ------------------------------------------------------------------------------ debounce
def _exp_debounce(eff, d, ch):
    out, pend, due = [], None, None
    for T, k, v in eff:
        if pend is not None and (due < T or (due == T and ch())):
            out.append([due, "N", pend])
            pend = None
        if k == "N":
            pend, due = cv(v), T + d
        elif k == "C":
            if pend is not None:
                out.append([T, "N", pend])
            out.append([T, "C", None])
            return out
        else:
            out.append([T, "E", ["exc", v]])
            return out
    if pend is not None:
        out.append([due, "N", pend])
    return out


def _run_debounce(case):
    lab = mk_lab(case["clock"])
    s0, d = case["s0"], case["d"]
    src = lab.source(case["src"])
    f = ops.throttle_with_timeout if case.get("alias") else ops.debounce
    ticks = sub_ticks(case)
    kw, sub = sched_setup(lab, case)
    probes = execute_all(lab, src.pipe(f(targ(lab, case["form"], d), **kw)), ticks, sub=sub)
    return combine([_judge_debounce(case, lab, p, s, d) for p, s in zip(probes, ticks)], ticks)


def _judge_debounce(case, lab, p, s0, d):
    eff = effective(case["src"], s0)
    cls = _base_cls(case)
    ts = [m[0] for m in eff]
    if d == 0:
        cls.append("d=0")
    if any(b - a == d for a, b in zip(ts, ts[1:])):
        cls.append("gap=d")
    if any(0 < b - a < d for a, b in zip(ts, ts[1:])):
        cls.append("gap<d")
    if any(b - a > d for a, b in zip(ts, ts[1:])):
        cls.append("gap>d")
    if len(eff) >= 2 and eff[-1][1] != "N" and eff[-2][1] == "N" and eff[-1][0] - eff[-2][0] < d:
        cls.append("terminal-with-pending:" + eff[-1][1])
    return _judge_nt("debounce", case, lab, p, outcomes(lambda ch: _exp_debounce(eff, d, ch)), cls, nelems({"tl": eff}))


# ------------------------------------------------------------------------------ throttle_first
def _run_tf(case):
    lab = mk_lab(case["clock"])
    s0, w = case["s0"], case["d"]
    src = lab.source(case["src"])
    ticks = sub_ticks(case)
    kw, sub = sched_setup(lab, case)
    probes = execute_all(lab, src.pipe(ops.throttle_first(targ(lab, case["form"], w), **kw)), ticks, sub=sub)
    return combine([_judge_tf(case, lab, p, s, w) for p, s in zip(probes, ticks)], ticks)


def _judge_tf(case, lab, p, s0, w):
    eff = effective(case["src"], s0)
    out, last = [], None
    cls = _base_cls(case)
    for m in eff:
        T, k, v = m
        if k != "N":
            out.append(fwd(m))
        elif last is None or T - last >= w:
            if last is not None and T - last == w:
                cls.append("gap=window-emitted")
            out.append(fwd(m))
            last = T
        elif T - last == w - 1:
            cls.append("gap=window-1-suppressed")
    return _judge_nt("throttle_first", case, lab, p, [((), out)], cls, nelems({"tl": eff}))


def _run_tf_fb(case):
    """throttle_first over a hot source into which the consumer pushes element 1000+k from inside its on_next for the k-th
    emitted element: the pushed element arrives at the same instant as the element just emitted, i.e. less than the window
    after the last emitted one, and must be suppressed (window > 0); later elements are judged against the same last emission."""
    lab = mk_lab(case["clock"])
    s0, w = case["s0"], case["d"]
    src = lab.source(case["src"])
    fb = set(case["fb"])
    probes = execute_all(lab, with_feedback(src.pipe(ops.throttle_first(targ(lab, case["form"], w))), src, fb), [s0])
    pend = list(effective(case["src"], s0))
    out, last, k, pushed = [], None, 0, 0
    while pend:
        m = pend.pop(0)
        T, kd, v = m
        if kd != "N":
            out.append(fwd(m))
            break
        if last is None or T - last >= w:
            out.append(fwd(m))
            last = T
            if k in fb:
                pend.insert(0, [T, "N", f"n:{1000 + k}"])
                pushed += 1
            k += 1
    cls = _base_cls(case) + ["feedback-during-delivery"] + (["feedback-element-suppressed"] if pushed else [])
    return judge("throttle_first", case, lab, probes[0], [((), out)], cls, pushed >= 1)


# ------------------------------------------------------------------------------ throttle_with_mapper
def _exp_twm(eff, ths, ch):
    out, pend, fire = [], None, None
    for T, k, v in eff:
        if pend is not None and fire is not None and (fire[0] < T or (fire[0] == T and ch())):
            if fire[1] == "E":
                out.append([fire[0], "E", ["exc", "dur"]])
                return out
            out.append([fire[0], "N", pend])
            pend = None
        if k == "N":
            pend = cv(v)
            ff = first_fire(ths[int(v[2:])]["tl"])
            fire = (T + ff[0], ff[1]) if ff else None
        elif k == "C":
            if pend is not None:
                out.append([T, "N", pend])
            out.append([T, "C", None])
            return out
        else:
            out.append([T, "E", ["exc", v]])
            return out
    if pend is not None and fire is not None:
        out.append([fire[0], "E", ["exc", "dur"]] if fire[1] == "E" else [fire[0], "N", pend])
    return out


def _run_twm(case):
    lab = mk_lab(case["clock"])
    s0, ths = case["s0"], case["ths"]
    src = lab.source(case["src"])
    ticks = sub_ticks(case)
    probes = execute_all(lab, src.pipe(ops.throttle_with_mapper(lambda x: mk_trigger(lab, ths[x]))), ticks)
    return combine([_judge_twm(case, lab, p, s, ths) for p, s in zip(probes, ticks)], ticks)


def _judge_twm(case, lab, p, s0, ths):
    eff = effective(case["src"], s0)
    cls = _base_cls(case)
    for q in ths:
        ff = first_fire(q["tl"])
        if q["kind"].startswith("lib:"):
            cls.append("throttle:" + q["kind"])
        cls.append("throttle:" + ("never" if ff is None else ("sync-immediate" if q["kind"] == "sync" and ff[0] == 0 else ("immediate" if ff[0] == 0 else "later"))))
        if len(conform(q["tl"])) > 1:
            cls.append("throttle:multi-event")
    return _judge_nt("throttle_with_mapper", case, lab, p, outcomes(lambda ch: _exp_twm(eff, ths, ch)), sorted(set(cls)), nelems({"tl": eff}))


# ------------------------------------------------------------------------------ sample
def _exp_sample(eff, ticks, ch, fb=()):
    """fb: indices k such that, while the k-th sample is being delivered, the downstream pushes element 1000+k into the
    (hot) source: it arrives after that sample was taken, so it is the latest not-yet-sampled element for the next tick."""
    out, pend, at_end = [], None, False
    ti = mi = 0
    dec = []  # ONE tie order for the whole run: every tick is either before or after the source notifications of its instant
    while ti < len(ticks) or mi < len(eff):
        nt = ticks[ti] if ti < len(ticks) else None
        nm = eff[mi][0] if mi < len(eff) else None
        tick_first = nm is None or (nt is not None and nt < nm)
        if not tick_first and nt is not None and nt == nm:
            if not dec:
                dec.append(ch())
            tick_first = dec[0]
        if tick_first:
            if pend is not None:
                out.append([nt, "N", pend])
                pend = None
                k = sum(1 for e in out if e[1] == "N") - 1
                if k in fb and not at_end:
                    pend = ["int", 1000 + k]
            if at_end:
                out.append([nt, "C", None])
                return out
            ti += 1
        else:
            T, k, v = eff[mi]
            mi += 1
            if k == "N":
                pend = cv(v)
            elif k == "C":
                at_end = True
            else:
                out.append([T, "E", ["exc", v]])
                return out
    return out


def _run_sample(case):
    lab = mk_lab(case["clock"])
    s0 = case["s0"]
    src = lab.source(case["src"])
    cls = _base_cls(case)
    if "period" in case:
        per = case["period"]
        subs = sub_ticks(case)
        effs = [effective(case["src"], s) for s in subs]
        H = max([max([s] + [m[0] for m in e]) for s, e in zip(subs, effs)]) + 2 * per + 1
        tickss = [list(range(s + per, H + 1, per)) for s in subs]
        kw, sub = sched_setup(lab, case)
        op = ops.sample(targ(lab, case["form"], per), **kw)
        cls.append("sampler:period")
        if case.get("fb"):
            cls.append("feedback-during-delivery")
    elif case["sampler"]["kind"] == "lib:interval":
        # a scheduler-less library interval as sampler observable: must inherit the subscribe-time scheduler
        per = case["sampler"]["period"]
        sub = "lab"
        subs = sub_ticks(case)
        effs = [effective(case["src"], s) for s in subs]
        H = max([max([s] + [m[0] for m in e]) for s, e in zip(subs, effs)]) + 2 * per + 1
        tickss = [list(range(s + per, H + 1, per)) for s in subs]
        op = ops.sample(mk_trigger(lab, case["sampler"]))
        cls.append("sampler:lib:interval")
    else:
        sub = "lab"
        subs = [s0]
        sm = lab.source(case["sampler"])
        seff = effective(case["sampler"], s0)
        tickss = [[m[0] for m in seff if m[1] == "N"]]
        effs = [effective(case["src"], s0)]
        H = None
        if seff and seff[-1][1] != "N":
            H = seff[-1][0] - 1
            cls.append("cut-before-sampler-terminal")
            if H < 1:
                return OK(False, cls + ["trivial-horizon"])
        op = ops.sample(sm)
        cls.append("sampler:" + case["sampler"]["kind"])
    fb = tuple(case.get("fb") or ())
    pipeline = src.pipe(op)
    if fb:
        seen = [0]

        def feedback(_v):
            k = seen[0]
            seen[0] += 1
            if k in fb:
                for o in list(src.observers):  # re-entrant: the source emits while the sample is being delivered
                    o.on_next(1000 + k)

        pipeline = pipeline.pipe(ops.do_action(feedback))
    probes = execute_all(lab, pipeline, subs, until=H, sub=sub)
    res = []
    for p, eff, ticks in zip(probes, effs, tickss):
        c = list(cls)
        if H is not None:
            eff = [m for m in eff if m[0] <= H]
            ticks = [t for t in ticks if t <= H]
        if any(m[0] in ticks for m in eff):
            c.append("element-at-tick-instant")
        if eff and eff[-1][1] == "C":
            c.append("source-completes")
        if fb and any(e[1] == "N" and e[2][1] >= 1000 for e in p.trace()):
            c.append("feedback-element-sampled")
        res.append(_judge_nt("sample", case, lab, p, outcomes(lambda ch, eff=eff, ticks=ticks: _exp_sample(eff, ticks, ch, fb)), c, nelems({"tl": eff}) + len(fb)))
    return combine(res, subs)


# ------------------------------------------------------------------------------ strategies
@st.composite
def _rel_cases(draw, ds, alias=False, max_len=6):
    d = draw(st.sampled_from(ds))
    s0, spec = draw(sources(d=d, max_len=max_len))
    c = {"clock": draw(st.sampled_from(CLOCKS)), "s0": s0, "src": spec, "d": d, "form": draw(st.sampled_from(FORMS)), "s1": second_sub(draw, s0), "sch": sched_modes(draw)}
    if alias:
        c["alias"] = draw(st.booleans())
    return c


@st.composite
def _twm_cases(draw):
    s0, spec = draw(sources(d=2, kinds=("cold", "cold", "sync"), max_len=5))
    ths = [draw(triggers(max_t=4)) for _ in range(nelems(spec))]
    return {"clock": draw(st.sampled_from(CLOCKS)), "s0": s0, "src": spec, "ths": ths, "s1": second_sub(draw, s0)}


@st.composite
def _sample_cases(draw):
    per = draw(st.sampled_from([1, 2, 2, 3, 4]))
    s0, spec = draw(sources(d=per, max_len=6))
    c = {"clock": draw(st.sampled_from(CLOCKS)), "s0": s0, "src": spec}
    if draw(st.booleans()):
        c["period"] = per
        c["form"] = draw(st.sampled_from(FORMS))
        c["s1"] = second_sub(draw, s0)
        c["sch"] = sched_modes(draw)
    elif draw(st.integers(0, 3)) == 0:
        c["sampler"] = {"kind": "lib:interval", "period": per}
        c["s1"] = second_sub(draw, s0)
    else:
        kind = draw(st.sampled_from(["cold", "cold", "hot"]))
        n = draw(st.integers(0, 6))
        t, tl = 0, []
        for i in range(n):
            t += draw(st.sampled_from([0, 1, 2, per, per, per + 1]))
            tl.append([t, "N", "n:7"])
        term = draw(st.sampled_from(["C", "E", None, None]))
        if term:
            tl.append([t + draw(st.sampled_from([0, 1, per])), term, "smp" if term == "E" else None])
        if kind == "hot":
            tl = [[s0 + a, k, v] for a, k, v in tl]
        c["sampler"] = {"kind": kind, "tl": tl}
    return c


@st.composite
def _tf_fb_cases(draw):
    w = draw(st.sampled_from([1, 2, 2, 3]))
    s0, spec = draw(sources(d=w, max_len=5, min_len=1, kinds=("hot",)))
    fb = sorted(set(draw(st.lists(st.integers(0, 3), min_size=1, max_size=2))))
    return {"clock": draw(st.sampled_from(CLOCKS)), "s0": s0, "src": spec, "d": w, "form": draw(st.sampled_from(FORMS)), "fb": fb}


@st.composite
def _sample_fb_cases(draw):
    """sample(period) over a hot source into which the downstream pushes a new element while the k-th sample is delivered."""
    per = draw(st.sampled_from([1, 2, 2, 3]))
    s0, spec = draw(sources(d=per, max_len=5, min_len=1, kinds=("hot",)))
    fb = sorted(set(draw(st.lists(st.integers(0, 3), min_size=1, max_size=2))))
    return {"clock": draw(st.sampled_from(CLOCKS)), "s0": s0, "src": spec, "period": per, "form": draw(st.sampled_from(FORMS)), "s1": None, "sch": "sub", "fb": fb}


def checks(tier):
    T = 16
    sh = {"quick": 4, "thorough": 16}
    return [
        Check("debounce", _run_debounce, strategy=_rel_cases([0, 1, 2, 2, 3, 5], alias=True), examples={"quick": 2400, "thorough": T * 12000}, shards=sh),
        Check("throttle_first", _run_tf, strategy=_rel_cases([1, 2, 2, 3, 5]), examples={"quick": 1600, "thorough": T * 8000}, shards=sh),
        Check("throttle_with_mapper", _run_twm, strategy=_twm_cases(), examples={"quick": 2000, "thorough": T * 8000}, shards=sh),
        Check("throttle_first_feedback", _run_tf_fb, strategy=_tf_fb_cases(), examples={"quick": 400, "thorough": T * 2000}, shards=sh),
        Check("sample_feedback", _run_sample, strategy=_sample_fb_cases(), examples={"quick": 600, "thorough": T * 3000}, shards=sh),
        Check("sample", _run_sample, strategy=_sample_cases(), examples={"quick": 2000, "thorough": T * 12000}, shards=sh),
    ]
