"""C23 An AsyncSubject delivers only the final value (Engine HIST)."""
from __future__ import annotations

from vlib.core import Check
from vlib.hist_subjects import det_race, enumerate_histories, histories, run_history

PROPERTY_ID = "C23"
LEVEL = "exploration"
RULE = (
    "Generated (Hypothesis): histories as for C20 (1..40 quick / 1..120 thorough commands; observers that unsubscribe "
    "themselves / another / subscribe a new observer inside their k-th callback) on an AsyncSubject; on_next values from "
    "the full domain incl. None and every falsy value. Enumerated: every command sequence of length <= 4 (quick) / <= 5 "
    "(thorough) over a 12-symbol alphabet (values None and 1). Oracle: explicit model (observer list, last value + "
    "has-value flag, terminal state, disposed flag) compared after EVERY command: nothing is delivered before "
    "termination; on completion every subscribed observer, and every later subscriber, receives the last value (if any "
    "on_next was accepted, whatever its truthiness) then completion; on error only the error; DisposedException after "
    "dispose. Non-trivial: the subject terminated by an error or by a completion with a value while >=1 observer was "
    "subscribed AND a subscriber arrived after termination. "
    "A third check (falsy_error, run last) repeats short histories in which on_error is given a valid exception object whose "
    "truth value is False (it defines __len__ == 0). det (Engine DET, vlib/det.py: line-level yield points, cooperative locks, subject created after patching): thread A subject.subscribe(recorder) || thread B a fixed list of 1-3 emitting calls, 0/1 observer subscribed beforehand, either thread scheduled first; every schedule with <=1 (quick) / <=2 (thorough) preemptions is run; oracle = linearizability against the same sequential model: the racing subscriber's list must equal the model's list for SOME position of its subscribe in the emitter's call sequence (so its first notification is the value current at registration and nothing earlier follows), earlier subscribers see the sequential outcome, no deadlock/exception; the racing call may also be dispose() on a live / completed / errored subject (allowed: the outcome of subscribing before it, or DisposedException raised or routed to on_error with nothing else); non-trivial = calls overlapped and >=2 distinct outcomes observed. raising: histories whose observers are plain except one whose k-th handler raises; checked afterwards: observers served before "
    "it, every later notification to every subscribed observer, terminal / current value for later subscribers; left open: "
    "re-raise to the caller, the rest of that one delivery, the raiser itself; non-trivial there = a notification was delivered in a "
    "later command than the raise. Histories also terminate through the public "
    "Observer.fail(e) (no effect on a terminated/disposed subject): same terminal clauses as on_error. Distinct = distinct case JSON."
)
ASSUMPTIONS = [
    "as C20 (public subscribe, subscription-order delivery, unsubscribe inside subscribe() effective at its return, non-raising callbacks outside the raising check)",
    "an observer that unsubscribes inside its on_next(last value) callback does not receive the completion (C03)",
]

_ALPHABET = [
    ["sub", {"k": "plain"}],
    ["sub", {"k": "unsub_self", "at": 0}],
    ["sub", {"k": "unsub_other", "at": 0, "who": 0}],
    ["sub", {"k": "sub_new", "at": 0, "child": {"k": "plain"}}],
    ["sub", {"k": "sub_new", "at": 1, "child": {"k": "plain"}}],
    ["unsub", 0],
    ["next", "none"],
    ["next", "i1"],
    ["error", "e1"],
    ["completed"],
    ["dispose"],
    ["fail", "e2"],
]


def _run(case):
    return run_history("async", case, check_observers_state=True)


def _enum(tier):
    return enumerate_histories(_ALPHABET, [{}], 4 if tier == "quick" else 5)


_DET_PROGRAMS = [({}, [['next', 'none'], ['completed']]), ({}, [['next', 'i0'], ['next', 'i1'], ['completed']]), ({}, [['completed']]), ({}, [['next', 'i1']])]

_DET_PROGRAMS_THOROUGH = [({}, [["next", "i0"], ["next", "none"], ["next", "f0"], ["completed"]]), ({}, [["next", "s"], ["next", "i1"]])]

# dispose() from another thread racing the subscribe: (cfg, racing calls, calls made before the race)
_DET_DISPOSE_PROGRAMS = [({}, [["dispose"]], [["next", "i0"], ["error", "e1"]]), ({}, [["dispose"]], [["next", "i0"], ["completed"]]), ({}, [["dispose"]], [["completed"]])]


def _det_cases(tier):
    K = 1 if tier == "quick" else 2
    programs = _DET_PROGRAMS if tier == "quick" else _DET_PROGRAMS + _DET_PROGRAMS_THOROUGH
    for cfg, emits in programs:
        for pre in ((0, 1) if tier == "quick" else (0, 1, 2)):
            for first in ("sub", "emit"):
                yield {"kind": "async", "cfg": cfg, "emits": emits, "pre": pre, "first": first, "K": K}
    for cfg, emits, before in _DET_DISPOSE_PROGRAMS:
        for first in ("sub", "emit"):
            yield {"kind": "async", "cfg": cfg, "emits": emits, "before": before, "pre": 1, "first": first, "K": K}


def checks(tier):
    n = 40 if tier == "quick" else 120
    return [
        Check("enum", _run, cases=_enum, shards={"quick": 8, "thorough": 16}, exhaustive=True),
        Check("gen", _run, strategy=histories("async", n), examples={"quick": 3200, "thorough": 16 * 20000}, shards={"quick": 8, "thorough": 16}),
        Check("raising", _run, strategy=histories("async", n, raising=True), examples={"quick": 800, "thorough": 16 * 6000}, shards={"quick": 8, "thorough": 16}),
        Check("det", det_race, cases=_det_cases, shards={"quick": 8, "thorough": 16}, exhaustive=True),
        # last on purpose: a failure here must not cut the searches above short
        Check("falsy_error", _run, strategy=histories("async", 12, falsy_error=True), examples={"quick": 400, "thorough": 16 * 1000}, shards={"quick": 1, "thorough": 16}),
    ]
