"""C29 Virtual-time runs always finish (Engine HIST + wall-clock watchdog)."""
from __future__ import annotations

from hypothesis import strategies as st

from vlib.core import FAIL, OK, Check
from vlib.vtsched import clock_of, enc_abs, enc_rel, escaped, guarded, make

PROPERTY_ID = "C29"
LEVEL = "exploration"
RULE = (
    "Generated schedules of 1..3 rounds on one scheduler (VirtualTimeScheduler(0), TestScheduler, HistoricalScheduler "
    "with epoch or later initial datetime clock; in the generated checks also with microsecond-granular arguments, kinds histus/vtsus): each round puts n in 0..400 actions at ONE instant (schedule(), "
    "schedule_relative(d) or schedule_absolute(clock+d), d>=0, numeric/timedelta/datetime arguments), optionally every "
    "m-th action re-schedules itself at the current time (scheduler.schedule) a bounded number of times, optionally some "
    "actions are cancelled and some are put at a later instant, then drains with start() or advance_to()/advance_by() to "
    "a target at/after the instant; later rounds re-use the drained scheduler (restart). The scheduler call runs in a "
    "daemon thread joined with a 10 s watchdog. Oracle: the call returns (else FAIL 'hang'), raises nothing, and every "
    "action due at or before the target (all of them for start()) ran exactly once per (re)scheduling, cancelled ones "
    "never, none more often. Some actions additionally call advance_to(now+k) / advance_by(k) (k>0) / start() on the scheduler that is running them (check 'nested_drive' enumerates this for every kind x drain with further due actions after the nested target): the running scheduler ignores such calls (guard in advance_to/start), so the same oracle applies and the clock must not move across the nested call. Checks 'step_chain' (enumerated) / 'step_chain_gen': a finite chain of n in 0..300 steps, each step returning scheduler.schedule*(next step) (spacing 0..2 units), optionally disposed from inside step k through the ROOT handle (or the running step's own handle): the drain returns under the watchdog, steps 0..k due by the target run exactly once, steps after k never run, and no more than n step invocations happen at all (invocation budget -> 'runaway-chain'). The clock value is otherwise not judged (MAX_SPINNING=100 legitimately nudges it). Non-trivial: more "
    "than 100 dequeues at one instant in some round. Distinct = distinct case JSON."
)
ASSUMPTIONS = [
    "a hang is decided by a 10 s wall-clock watchdog around work that takes milliseconds (0.5 s once a hang was already seen in the same process, so that shrinking a hanging case stays affordable)",
    "advance_to/advance_by targets are strictly after the current clock (advance to 'now' is a documented no-op)",
    "actions only re-schedule through scheduler.schedule() and make re-entrant advance_to/advance_by (target after now) / start() calls, which the running scheduler ignores; they do not raise, stop or sleep",
]

MAX_SPINNING = 100


def _run(case):
    kind, init = case["kind"], case.get("init", 0)
    sched = make(kind, init)
    cls = [kind]
    nontrivial = False
    counts, want, due = {}, {}, {}

    def new_action(at, runs, resched, nested=None):
        aid = len(counts)
        counts[aid] = 0
        want[aid] = runs
        due[aid] = at
        left = [resched]

        def action(scheduler, state=None):
            counts[aid] += 1
            if nested is not None and counts[aid] == 1:
                # re-entrant drive call on the running scheduler, target after 'now': documented-by-guard no-op
                # (virtualtimescheduler.py: `if self.now == dt or self._is_enabled: return`; start(): `if self._is_enabled: return`)
                how, k, nform = nested
                before = scheduler.clock
                if how == "to":
                    scheduler.advance_to(enc_abs(kind, clock_of(kind, scheduler) + k, nform))
                elif how == "by":
                    scheduler.advance_by(enc_rel(kind, k, nform))
                else:
                    scheduler.start()
                if scheduler.clock != before:
                    nested_moved.append([aid, str(before), str(scheduler.clock)])
            if left[0] > 0:
                left[0] -= 1
                scheduler.schedule(action)  # bounded self-rescheduling at the current time

        return action

    nested_moved = []

    for ri, rnd in enumerate(case["rounds"]):
        n, where, form, d = rnd["n"], rnd["where"], rnd["form"], rnd["d"]
        every, times, cancel_every = rnd["resched_every"], rnd["resched_times"], rnd["cancel_every"]
        now = clock_of(kind, sched)
        if not isinstance(now, int):
            return FAIL(f"clock-not-on-grid|{kind}", f"clock {now} case={case}", classes=cls)
        at = now if where == "now" else now + d
        at_instant = 0
        n_nested = 0
        for i in range(n):
            cancelled = bool(cancel_every and i % cancel_every == cancel_every - 1)
            r = times if (every and i % every == 0 and not cancelled) else 0
            nest = rnd.get("nested") if (rnd.get("nested_every") and i % rnd["nested_every"] == 0 and not cancelled) else None
            if nest is not None:
                n_nested += 1
            action = new_action(at, 0 if cancelled else 1 + r, r, nest)
            if where == "now":
                disp = sched.schedule(action)
            elif where == "rel":
                disp = sched.schedule_relative(enc_rel(kind, d, form), action)
            else:
                disp = sched.schedule_absolute(enc_abs(kind, at, form), action)
            if cancelled:
                disp.dispose()
            at_instant += 1 + r
        for i in range(rnd["later"]):
            action = new_action(at + rnd["gap"], 1, 0)
            sched.schedule_absolute(enc_abs(kind, at + rnd["gap"], "dt" if form == "dt" else "num"), action)
        run = rnd["run"]
        what = run[0]
        if what == "start":
            target = None
            call = sched.start
        else:
            target = max(at + run[1], now + 1)  # strictly after the clock: advance to 'now' is a documented no-op
            if what == "advance_to":
                call = lambda t=target, f=run[2]: sched.advance_to(enc_abs(kind, t, f))  # noqa: E731
            else:
                call = lambda t=target - now, f=run[2]: sched.advance_by(enc_rel(kind, t, f))  # noqa: E731
        if at_instant > MAX_SPINNING:
            nontrivial = True
            cls += [f"over-spin:{what}", f"over-spin:{kind}"]
        if ri > 0:
            cls.append("restart")
        if times and every and n:
            cls.append("self-rescheduling")
        if cancel_every and n >= cancel_every:
            cls.append("some-cancelled")
        if n_nested:
            cls.append(f"nested-{rnd['nested'][0]}-inside-{what}")
            later_after_nested = rnd["later"] and rnd["gap"] > (rnd["nested"][1] if rnd["nested"][0] != "start" else 0) and (target is None or at + rnd["gap"] <= target)
            if later_after_nested:
                cls.append("due-action-after-nested-target")
                nontrivial = True
        status, val = guarded(call)
        if status == "hang":
            return FAIL(f"hang|{kind}.{what}", f"{what}() did not return within the watchdog; round {ri} of case={case}", classes=cls)
        if status == "exc":
            if not isinstance(val, Exception):
                raise val
            return escaped(val, f"{kind}.{what}", f"round {ri} of case={case}", cls)
        for a in counts:
            c, w = counts[a], want[a]
            if c > w:
                return FAIL(f"ran-too-often|{kind}.{what}", f"action {a} (due {due[a]}) ran {c}x, expected {w}x; round {ri} case={case}", classes=cls)
            if c < w and (target is None or due[a] <= target):
                return FAIL(
                    f"due-action-not-run|{kind}.{what}",
                    f"action {a} (due {due[a]}, target {target}) ran {c}x, expected {w}x after {what}() returned; round {ri} case={case}",
                    classes=cls,
                )
    if nested_moved:
        return FAIL(f"nested-drive-call-moved-clock|{kind}.{what}", f"[action, clock before, after]={nested_moved[:3]} case={case}", classes=cls)
    return OK(nontrivial, cls)


_n = st.one_of(
    st.integers(0, 5),
    st.integers(95, 110),
    st.integers(0, 400),
    st.sampled_from([99, 100, 101, 102, 103, 200, 201, 202, 203, 300, 400]),
)


def _round():
    run = st.one_of(
        st.just(["start"]),
        st.just(["start"]),
        st.tuples(st.just("advance_to"), st.integers(0, 5), st.sampled_from(["num", "int", "dt"])).map(list),
        st.tuples(st.just("advance_by"), st.integers(0, 5), st.sampled_from(["num", "int", "td"])).map(list),
    )
    where = st.sampled_from(["now", "rel", "abs"])

    def with_form(w):
        forms = {"now": [None], "rel": ["num", "int", "td"], "abs": ["num", "int", "dt"]}[w]
        return st.fixed_dictionaries(
            {
                "n": _n,
                "where": st.just(w),
                "form": st.sampled_from(forms),
                "d": st.integers(0, 4),
                "resched_every": st.sampled_from([0, 0, 1, 2, 7, 50]),
                "resched_times": st.integers(0, 3),
                "cancel_every": st.sampled_from([0, 0, 0, 2, 5]),
                "later": st.integers(0, 3),
                "gap": st.integers(1, 8),
                "run": run,
                "nested_every": st.sampled_from([0, 0, 1, 2, 9]),
                "nested": st.one_of(
                    st.tuples(st.just("to"), st.integers(1, 5), st.sampled_from(["num", "int", "dt"])),
                    st.tuples(st.just("by"), st.integers(1, 5), st.sampled_from(["num", "int", "td"])),
                    st.tuples(st.just("start"), st.just(0), st.none()),
                ).map(list),
            }
        )

    return where.flatmap(with_form)


def _cases():
    def build(kind):
        init = st.just(0) if kind not in ("hist", "histus") else st.sampled_from([0, 0, 7, 86_400_000])
        return st.fixed_dictionaries({"kind": st.just(kind), "init": init, "rounds": st.lists(_round(), min_size=1, max_size=3)})

    return st.sampled_from(["vts", "test", "hist", "hist", "histus", "vtsus"]).flatmap(build)


def _enum(tier):
    """Deterministic sweep around the spin threshold: every scheduler kind x clock type x way of reaching the instant x
    way of draining, one or two rounds (the second round re-uses the drained scheduler)."""
    ns = [0, 1, 99, 100, 101, 102, 103, 201, 202, 203, 204, 306, 400]
    wheres = [("now", None), ("rel", "td"), ("rel", "num"), ("abs", "dt"), ("abs", "num")]
    runs = [["start"], ["advance_to", 0, "dt"], ["advance_to", 2, "num"], ["advance_by", 1, "td"]]
    for kind, init in (("hist", 0), ("hist", 86_400_000), ("vts", 0), ("test", 0)):
        for n in ns:
            for wi, (where, form) in enumerate(wheres):
                for ri, run in enumerate(runs):
                    for every, times in ((0, 0), (1, 1), (3, 2)):
                        if every and (n + wi + ri) % 2:
                            continue  # thin out: half of the self-rescheduling combinations
                        rnd = {
                            "n": n, "where": where, "form": form, "d": (n + wi) % 3, "resched_every": every, "resched_times": times,
                            "cancel_every": 0 if (n + ri) % 3 else 4, "later": (n + wi + ri) % 3, "gap": 1 + (n % 4), "run": run,
                        }  # fmt: skip
                        rounds = [rnd]
                        if (n + wi + ri) % 2 == 0:
                            second = dict(rnd, n=ns[(ns.index(n) + 4) % len(ns)], run=runs[(ri + 1) % len(runs)] if ri else ["start"])
                            rounds.append(second)
                        yield {"kind": kind, "init": init, "rounds": rounds}


# ------------------------------------------------------------------------------------------------ step chains
def _run_chain(case):
    """Recursive scheduling idiom: step i does its work and `return scheduler.schedule*(step i+1)`, so the ROOT handle
    owns the whole (finite, n steps) chain.  Step k disposes the root handle from inside; the successor it still
    schedules and returns must be cancelled by the hand-over to its (already disposed) item handle."""
    kind, init, n, k, spacing, run = case["kind"], case["init"], case["n"], case["dispose_at"], case["spacing"], case["run"]
    sched = make(kind, init)
    cls = [kind, "chain:" + run[0]]
    endless = bool(case.get("endless")) and k is not None  # generic recursive code: every step schedules a successor;
    # only the disposal inside step k ends the work
    if endless:
        n = k + 2
    counts = [0] * (n + 1)
    root = []
    budget = [3 * n + 50]

    def make_step(i):
        def step(scheduler, state=None):
            counts[min(i, n)] += 1
            budget[0] -= 1
            if budget[0] < 0:
                raise _Runaway()
            if k is not None and i == k:
                if case["dispose_via"] == "root":
                    root[0].dispose()
                else:
                    handles[i].dispose()  # the running step's own handle
            if i + 1 < n or endless:
                nxt = make_step(i + 1)
                if spacing == 0:
                    h = scheduler.schedule(nxt)
                else:
                    h = scheduler.schedule_relative(enc_rel(kind, spacing, case["form"]), nxt)
                handles[i + 1] = h
                return h
            return None

        return step

    handles = {}
    now = clock_of(kind, sched)
    at = now + case["d"]
    if n:
        h0 = sched.schedule_relative(enc_rel(kind, case["d"], case["form"]), make_step(0)) if case["d"] else sched.schedule(make_step(0))
        root.append(h0)
        handles[0] = h0
    if run[0] == "start":
        target = None
        call = sched.start
    else:
        target = max(at + run[1], now + 1)
        if run[0] == "advance_to":
            call = lambda: sched.advance_to(enc_abs(kind, target, run[2]))  # noqa: E731
        else:
            call = lambda: sched.advance_by(enc_rel(kind, target - now, run[2]))  # noqa: E731
    if k is not None and k < n - 1:
        cls.append("disposed-inside-step-with-successor")
    if endless:
        cls.append("endless-until-disposed")
    if n > MAX_SPINNING and spacing == 0:
        cls.append("over-spin")
    status, val = guarded(call)
    what = run[0]
    if status == "hang":
        return FAIL(f"hang|{kind}.{what}", f"{what}() did not return within the watchdog; case={case}", classes=cls)
    if status == "exc":
        if isinstance(val, _Runaway):
            ran = [i for i, c in enumerate(counts) if c]
            return FAIL(f"runaway-chain|{kind}.{what}", f"more step invocations than steps requested; steps run: {ran[:8]}.. case={case}", classes=cls)
        if not isinstance(val, Exception):
            raise val
        return escaped(val, f"{kind}.{what}", f"case={case}", cls)
    last = n - 1 if k is None else min(k, n - 1)  # last step that must run
    for i in range(n):
        due_i = at + i * spacing
        if counts[i] > 1:
            return FAIL(f"ran-too-often|{kind}.{what}", f"step {i} ran {counts[i]}x; case={case}", classes=cls)
        if i > last and counts[i]:
            return FAIL(f"cancelled-step-ran|{kind}.{what}", f"step {i} ran although the chain was disposed inside step {k}; case={case}", classes=cls)
        if i <= last and not counts[i] and (target is None or due_i <= target):
            return FAIL(f"due-action-not-run|{kind}.{what}", f"step {i} (due {due_i}, target {target}) did not run; case={case}", classes=cls)
    return OK(k is not None and k < n - 1 and n >= 3, cls)


class _Runaway(BaseException):
    """More step invocations than the finite chain contains."""


def _enum_chain(tier):
    for kind, init in (("hist", 0), ("hist", 86_400_000), ("vts", 0), ("test", 0)):
        for n in (0, 1, 2, 5, 102, 150):
            for k in sorted({None, 0, 1, n // 2, n - 2, n - 1} - {-1, -2}, key=lambda x: -1 if x is None else x):
                if k is not None and k >= max(n, 1):
                    continue
                for spacing, form in ((0, "num"), (1, "td"), (1, "num")):
                    for ri, run in enumerate((["start"], ["advance_to", 3, "dt"], ["advance_by", 200, "td"])):
                        for via in ("root", "own"):
                            if via == "own" and (k is None or (n + ri) % 2):
                                continue
                            yield {"kind": kind, "init": init, "n": n, "dispose_at": k, "dispose_via": via, "spacing": spacing,
                                   "form": form, "d": (n + ri) % 2, "run": run, "endless": bool(k is not None and (n + ri) % 3 == 0)}  # fmt: skip


def _chain_cases():
    def build(kind):
        init = st.just(0) if kind not in ("hist", "histus") else st.sampled_from([0, 0, 7, 86_400_000])
        n = st.one_of(st.integers(0, 8), st.integers(95, 110), st.integers(0, 300))

        def with_n(nv):
            return st.fixed_dictionaries(
                {
                    "kind": st.just(kind),
                    "init": init,
                    "n": st.just(nv),
                    "dispose_at": st.one_of(st.none(), st.integers(0, max(nv - 1, 0))),
                    "dispose_via": st.sampled_from(["root", "root", "own"]),
                    "spacing": st.sampled_from([0, 0, 1, 2]),
                    "form": st.sampled_from(["num", "int", "td"]),
                    "d": st.integers(0, 3),
                    "endless": st.booleans(),
                    "run": st.one_of(
                        st.just(["start"]),
                        st.tuples(st.just("advance_to"), st.integers(0, 300), st.sampled_from(["num", "int", "dt"])).map(list),
                        st.tuples(st.just("advance_by"), st.integers(0, 300), st.sampled_from(["num", "int", "td"])).map(list),
                    ),
                }
            )

        return n.flatmap(with_n)

    return st.sampled_from(["vts", "test", "hist", "hist", "histus", "vtsus"]).flatmap(build)


def _enum_nested(tier):
    """Actions that re-entrantly call advance_to / advance_by / start on the scheduler running them (targets after
    'now'), with further due actions after the nested target, for every scheduler kind and way of draining."""
    nesteds = [["to", 1, "dt"], ["to", 2, "num"], ["by", 1, "td"], ["by", 2, "num"], ["start", 0, None]]
    wheres = [("now", None), ("rel", "td"), ("abs", "dt"), ("abs", "num")]
    runs = [["start"], ["advance_to", 6, "dt"], ["advance_to", 5, "num"], ["advance_by", 6, "td"]]
    for kind, init in (("hist", 0), ("hist", 86_400_000), ("vts", 0), ("test", 0)):
        for n in (1, 3, 101):
            for nested in nesteds:
                for every in (1, 2):
                    for wi, (where, form) in enumerate(wheres):
                        for ri, run in enumerate(runs):
                            rnd = {
                                "n": n, "where": where, "form": form, "d": wi % 3, "resched_every": 0 if (wi + ri) % 2 else 2, "resched_times": 1,
                                "cancel_every": 0, "later": 2, "gap": 3 + (ri % 2), "run": run, "nested_every": every, "nested": nested,
                            }  # fmt: skip
                            rounds = [rnd] if (wi + ri) % 3 else [rnd, dict(rnd, n=2, run=["start"])]
                            yield {"kind": kind, "init": init, "rounds": rounds}


def checks(tier):
    return [
        Check("threshold", _run, cases=_enum, shards={"quick": 4, "thorough": 16}),
        Check("nested_drive", _run, cases=_enum_nested, shards={"quick": 4, "thorough": 16}),
        Check("step_chain", _run_chain, cases=_enum_chain, shards={"quick": 4, "thorough": 16}),
        Check("step_chain_gen", _run_chain, strategy=_chain_cases(), examples={"quick": 300, "thorough": 16 * 2000}, shards={"quick": 4, "thorough": 16}),
        Check(
            "finish",
            _run,
            strategy=_cases(),
            examples={"quick": 320, "thorough": 16 * 2000},
            shards={"quick": 4, "thorough": 16},
        ),
    ]
