"""C01 Every subscriber sees a well-formed notification sequence."""
from __future__ import annotations

from hypothesis import strategies as st

from vlib.core import FAIL, OK, SKIP, Check
from vlib.lab import Lab
from vlib.pipes import Builder, op_names, pipelines
from vlib.values import Tagged

PROPERTY_ID = "C01"
LEVEL = "exploration"
RULE = (
    "Random well-kinded pipelines (0..4 quick / 0..6 thorough operators from the shared table of ~130 operator forms, "
    "root = one source or merge/concat/zip/combine_latest/amb/catch/on_error_resume_next/fork_join/with_latest_from/defer "
    "over 1-3 sources) over cold/hot/synchronous logged virtual-time sources whose timelines may be non-conforming "
    "(emit after terminal, terminate twice) or whose subscribe function raises after arranging its emissions; optionally the probe raises at its k-th callback and/or one user callback "
    "slot is armed to raise at its k-th call. Oracle: every probe and every inner (window/group) probe trace matches "
    "N*(E|C)? with nothing after its own dispose. Non-trivial: (a source timeline is non-conforming, or a fault was "
    "actually raised) and the top probe saw >=1 notification. Distinct = distinct case JSON."
)
ASSUMPTIONS = [
    "exceptions raised by the probe's own callbacks may propagate to the emitter (AutoDetachObserver lets them through); only the grammar is judged here",
    "cases with >=90 actions at one virtual instant or exceeding the work budget are discarded as inconclusive and counted",
]


def _nonconforming(tl):
    seen = False
    for m in tl:
        if seen:
            return True
        if m[1] in ("E", "C"):
            seen = True
    return False


def _run(case):
    lab = Lab()
    B = Builder(lab)
    pc = case["pipe"]
    if case.get("arm"):
        slot_i, k = case["arm"]
    if case.get("bad_dispose"):
        # fault injection: unsubscribing from the root sources raises (a user teardown callback that fails)
        pc = dict(pc, root=dict(pc["root"], srcs=[dict(sp, bad_dispose=True) for sp in pc["root"]["srcs"]]))
    o = B.build(pc)
    p = lab.probe("p", raise_at=case.get("probe_raise") or (), inner={"mode": case.get("inner", "now")}, reenter_on_terminal=bool(case.get("reenter")))
    if case.get("arm"):
        _install_arm(lab, slot_i, k)
    try:
        p.subscribe(o)
    except Tagged:
        pass  # the probe's own exception / a raising teardown propagating out of subscribe() is allowed
    if not lab.inconclusive:
        lab.run()
    n_resume = 0
    while isinstance(lab.escaped, Tagged) and lab.escaped.tag.startswith(("probe:", "teardown:")) and n_resume < 50:
        n_resume += 1
        # the probe's own exception escaped into the scheduler: allowed; keep draining
        lab.escaped = None
        lab.run()
    if lab.inconclusive:
        return SKIP(lab.inconclusive)
    bad = []
    for q in lab.probes:
        ok, msg = q.grammar_ok()
        if not ok:
            bad.append(msg)
    subfault = any(s.raise_in_subscribe and s.subs for s in lab.sources)
    faulted = bool(lab.injected) or bool(p.raised) or subfault
    nonconf = any(_nonconforming(s["tl"]) for s in pc["root"]["srcs"])
    nontrivial = (nonconf or faulted) and len(p.events) >= 1
    cls = []
    if nonconf:
        cls.append("nonconforming-source")
    if lab.injected:
        cls.append("callback-raised")
    if p.raised:
        cls.append("probe-raised")
    if subfault:
        cls.append("subscribe-raised-after-wiring")
    if p.reentered:
        cls.append("terminal-handler-reentered-source")
        faulted = True
        nontrivial = len(p.events) >= 1
    if case.get("bad_dispose") and any(isinstance(getattr(s_, "bad_dispose", False), bool) and s_.bad_dispose and any(b is not None for a, b in s_.subs) for s_ in lab.sources):
        cls.append("teardown-raised")
        nontrivial = len(p.events) >= 1
    if len(lab.probes) > 1:
        cls.append("inner-probes")
    if bad:
        return FAIL("grammar|" + ",".join(sorted(set(op_names(pc)))[:4]), f"{bad[0]} case={case}", classes=cls)
    return OK(nontrivial, cls)


def _install_arm(lab, slot_i, k):
    """Arm the slot_i-th slot (in order of first invocation) to raise at its k-th call."""
    order = []

    class ArmDict(dict):
        def get(self, slot, default=()):
            if slot not in order:
                order.append(slot)
            if order.index(slot) == slot_i:
                return {k}
            return default

    lab.arm = ArmDict()


def _cases(max_ops):
    return st.fixed_dictionaries(
        {
            "pipe": pipelines(max_ops=max_ops, conforming=False, src_kinds=("cold", "cold", "sync", "hot", "hot", "faulty", "hotfaulty")),
            "probe_raise": st.one_of(st.none(), st.none(), st.lists(st.integers(0, 5), min_size=1, max_size=2)),
            "arm": st.one_of(st.none(), st.tuples(st.integers(0, 3), st.integers(0, 3)).map(list)),
            "inner": st.sampled_from(["now", "now", "late", "never"]),
            "reenter": st.sampled_from([False, False, True]),
            "bad_dispose": st.sampled_from([False, False, False, True]),
        }
    )


def checks(tier):
    return [
        Check("pipelines", _run, strategy=_cases(4 if tier == "quick" else 6), examples={"quick": 3000, "thorough": 16 * 40000}, shards={"quick": 4, "thorough": 16}),
    ]
