"""C39 Fluent operator methods equal their piped operators (differential, virtual time)."""
from __future__ import annotations

import asyncio
import collections
import importlib
import inspect
import json
import os
import pkgutil
import re

from hypothesis import strategies as st

import reactivex
from reactivex import ConnectableObservable, Observable
from reactivex import operators as ops
from reactivex.subject import BehaviorSubject, ReplaySubject, Subject

from vlib.core import FAIL, OK, SKIP, Check, HarnessError
from vlib.lab import BudgetExceeded, Lab, SpinGuard, timelines
from vlib.values import HASHABLE_NAMES, NAMES, canon, stable_hash, val

PROPERTY_ID = "C39"
LEVEL = "exploration"
RULE = (
    "Every public method defined by the mixin classes under reactivex/observable/mixins/*.py is enumerated by introspection "
    "at start-up; each must have a row in this module's argument table whose parameter names equal the method's signature "
    "(a missing/outdated row is a harness error, exit 2). A case = (method, one generated value per parameter, which "
    "defaulted parameters are omitted, how many leading arguments are passed positionally (the rest by keyword), a logged "
    "cold/sync/hot source timeline shaped for the method (numbers, dicts, tuples, notifications, inner observables, a "
    "connectable), for the operator families whose callback result is polymorphic the RESULT KIND of the user mapper -- "
    "flat_map / flat_map_indexed: an Observable, a plain iterable (list, tuple, generator, range, str, empty list, an "
    "object with only __iter__), an already-resolved or failed concurrent.futures.Future, per element or mixed with "
    "Observables, and the non-callable overload given such a constant; concat_map / switch_map / switch_map_indexed / "
    "flat_map_latest: Observable or resolved/failed Future --, the virtual clock (TestScheduler, or HistoricalScheduler with timedelta durations and absolute datetime "
    "arguments for delay / delay_subscription / skip_until_with_time / take_until_with_time), probe scenario: inner-subscription policy for window/group outputs, optional dispose tick, connect tick "
    "for connectables). The case is executed twice on fresh identical labs: source.<method>(args) and "
    "source.pipe(ops.<same name>(same args)) (keyword names mapped by position onto the operator's own parameter names; "
    "`do` is compared with ops.do_action as its docstring says; an omitted fluent default is passed explicitly only where "
    "the operator function has no default). Oracle: identical observations -- outcome of the call (exception type/message), "
    "probe trees (ticks, kinds, canonical values, nested window/group traces), both outputs of partition, future outcome of "
    "to_future, every logged source's subscribe/unsubscribe ticks, the complete ordered log of user-callback invocations "
    "with arguments, and any exception escaping the scheduler. Non-trivial: the fluent output has >=1 notification and (the "
    "method has no parameters or >=1 argument is passed explicitly). Distinct = distinct case JSON."
)
ASSUMPTIONS = [
    "virtual time is cut at tick 60; sources of <=4 elements with gaps <=3 and durations <=6 finish well before",
    "replay(window=...) is always given the virtual scheduler explicitly (its default clock would be the wall clock)",
    "keyword arguments are mapped by position between the fluent and the operator signature (parameter *names* may differ by design, e.g. pluck_attr(attr) vs ops.pluck_attr(prop))",
    "mapper result kinds are limited to what the piped operator itself documents/normalises (flat_map family: Observable, Future, anything from_() accepts; concat_map/switch_map/flat_map_latest family: Observable or Future); Futures are concurrent.futures.Future objects resolved before they are returned (no event loop runs in virtual time); whatever the piped form does with such a result, including raising, is the reference",
    "cases hitting the 90-same-instant-actions spin guard or the work budget in either world are discarded as inconclusive",
]

HORIZON = 60
P_T = collections.namedtuple("P_T", ["a", "b"])


# ---------------------------------------------------------------------------------------
# context: builds real objects for one world


class Ctx:
    def __init__(self, lab, case):
        self.lab = lab
        self.case = case

    def h(self, *xs):
        return stable_hash([canon(x, lambda o: 0) for x in xs])

    def fn(self, slot, f):
        return self.lab.fn(slot, f)

    def src(self, spec):
        return self.lab.source(spec)


# ---------------------------------------------------------------------------------------
# argument kinds: name -> (strategy of JSON spec, build(ctx, slot, spec) -> python object)

KINDS = {}


def kind(name, strategy):
    def deco(f):
        KINDS[name] = (strategy, f)
        return f

    return deco


def opt(s):
    return st.one_of(st.none(), s)


s_pred = st.tuples(st.integers(2, 4), st.lists(st.integers(0, 3), max_size=3, unique=True)).map(lambda t: {"m": t[0], "r": t[1]})
s_val = st.sampled_from(NAMES)
s_tl = timelines(max_len=4, max_dt=3)
s_src = st.fixed_dictionaries({"kind": st.sampled_from(["cold", "cold", "sync", "hot"]), "tl": s_tl})
s_src_cs = st.fixed_dictionaries({"kind": st.sampled_from(["cold", "cold", "sync"]), "tl": timelines(max_len=3, max_dt=3)})
s_inners = st.lists(s_src_cs, min_size=1, max_size=3)


def _ident(ctx, slot, spec):
    return spec


for _n, _s in {
    "int05": st.integers(0, 5),
    "int14": st.integers(1, 4),
    "optint14": opt(st.integers(1, 4)),
    "optint03": st.one_of(st.integers(0, 3), st.integers(0, 3), st.none()),
    "optint05": opt(st.integers(0, 5)),
    "bool": st.sampled_from([True, True, True, False]),
    "sliceint": opt(st.integers(-3, 5)),
    "step": opt(st.integers(1, 3)),
    "strkey": st.sampled_from(["k", "j"]),
    "attr": st.sampled_from(["a", "b"]),
    "timespan": st.sampled_from([0.5, 1, 2, 0.25]),
}.items():
    KINDS[_n] = (_s, _ident)


@kind("val", s_val)
def _(ctx, slot, spec):
    return val(spec)


@kind("vals", st.lists(s_val, max_size=3))
def _(ctx, slot, spec):
    return [val(v) for v in spec]


@kind("iter", st.lists(s_val, max_size=4))
def _(ctx, slot, spec):
    return [val(v) for v in spec]


def _pred(ctx, slot, spec):
    m, r = spec["m"], set(spec["r"])
    return ctx.fn(slot, lambda *xs: ctx.h(*xs) % m in r)


KINDS["pred"] = (s_pred, _pred)
KINDS["optpred"] = (opt(s_pred), lambda ctx, slot, spec: None if spec is None else _pred(ctx, slot, spec))


def _key(ctx, slot, m):
    return ctx.fn(slot, lambda *xs: ctx.h(*xs) % m)


KINDS["key"] = (st.integers(1, 4), _key)
KINDS["optkey"] = (opt(st.integers(1, 4)), lambda ctx, slot, m: None if m is None else _key(ctx, slot, m))
KINDS["optnumkey"] = (opt(st.just(7)), lambda ctx, slot, m: None if m is None else _key(ctx, slot, m))


def _eq(ctx, slot, m):
    return ctx.fn(slot, lambda a, b: ctx.h(a) % m == ctx.h(b) % m)


KINDS["opteq"] = (opt(st.integers(1, 4)), lambda ctx, slot, m: None if m is None else _eq(ctx, slot, m))
KINDS["optsub"] = (opt(st.just(7)), lambda ctx, slot, m: None if m is None else ctx.fn(slot, lambda a, b: (ctx.h(a) % m) - (ctx.h(b) % m)))


def _mapper(ctx, slot, tag):
    return ctx.fn(slot, lambda *xs: (tag,) + tuple(xs))


KINDS["mapper"] = (st.sampled_from(["a", "b"]), _mapper)
KINDS["optmapper"] = (opt(st.sampled_from(["a", "b"])), lambda ctx, slot, t: None if t is None else _mapper(ctx, slot, t))
KINDS["acc"] = (st.just("r"), lambda ctx, slot, t: ctx.fn(slot, lambda s, x: (t, ctx.h(s) % 5, x)))


@kind("src", s_src)
def _(ctx, slot, spec):
    return ctx.src(spec)


@kind("optsrc", st.one_of(st.none(), s_src, s_src))
def _(ctx, slot, spec):
    return None if spec is None else ctx.src(spec)


@kind("srcs", st.lists(s_src, max_size=2))
def _(ctx, slot, spec):
    return [ctx.src(s) for s in spec]


def _inner(ctx, slot, specs):
    return ctx.fn(slot, lambda *xs: ctx.src(specs[ctx.h(*xs) % len(specs)]))


KINDS["inner"] = (s_inners, _inner)
KINDS["optinner"] = (opt(s_inners), lambda ctx, slot, specs: None if specs is None else _inner(ctx, slot, specs))


@kind("inner0", s_inners)
def _(ctx, slot, specs):
    cnt = [0]

    def f():
        i = cnt[0]
        cnt[0] += 1
        return ctx.src(specs[i % len(specs)])

    return ctx.fn(slot, f)


@kind("groupdur", s_inners)
def _(ctx, slot, specs):
    return ctx.fn(slot, lambda g: ctx.src(specs[ctx.h(g.key) % len(specs)]))


# result kinds of a user mapper beyond "an Observable" (what ops.flat_map & co. normalise themselves: from_(iterable),
# from_future(future)); the fluent method must hand the very same callable to the operator, so every kind must agree.
RK_ITER = ["list", "tuple", "gen", "range", "str", "empty", "iterobj"]
RK_FUT = ["future", "future-err"]


class _IterOnly:
    """An iterable that is neither a sequence nor a generator (only __iter__)."""

    def __init__(self, items):
        self._items = items

    def __iter__(self):
        return iter(list(self._items))


def _plain_result(ctx, rk, xs):
    """A non-Observable mapper result of kind rk, a pure function of (rk, xs)."""
    n = ctx.h("rk", *xs) % 3
    items = [("i", j) + tuple(xs) for j in range(n + 1)]
    if rk == "list":
        return items
    if rk == "tuple":
        return tuple(items)
    if rk == "gen":
        return (v for v in items)
    if rk == "range":
        return range(n + 1)
    if rk == "str":
        return "xyz"[: n + 1]
    if rk == "empty":
        return []
    if rk == "iterobj":
        return _IterOnly(items)
    import concurrent.futures

    f = concurrent.futures.Future()  # already resolved: from_future's done-callback runs synchronously on subscribe
    if rk == "future":
        f.set_result(("f",) + tuple(xs))
    else:
        f.set_exception(ValueError("future-failed:%d" % n))
    return f


def _inner_rk(ctx, slot, specs, rk, mix):
    """Mapper whose result is an Observable for some elements (when mix) and a plain result of kind rk for the others."""

    def f(*xs):
        if mix and ctx.h("mix", *xs) % 3 == 0:
            return ctx.src(specs[ctx.h(*xs) % len(specs)])
        return _plain_result(ctx, rk, xs)

    return ctx.fn(slot, f)


s_rk_fn = lambda kinds: st.fixed_dictionaries({"fn": s_inners, "rk": st.sampled_from(kinds), "mix": st.booleans()})


@kind(
    "flatmapper",
    st.one_of(
        st.none(),
        s_inners.map(lambda x: {"fn": x}),
        s_inners.map(lambda x: {"fn": x}),
        s_src_cs.map(lambda x: {"obs": x}),
        s_rk_fn(RK_ITER),
        s_rk_fn(RK_ITER + RK_FUT),
        st.sampled_from(RK_ITER + RK_FUT).map(lambda k: {"const": k}),
    ),
)
def _(ctx, slot, spec):
    if spec is None:
        return None
    if "const" in spec:  # non-callable overload: one constant plain result for every element
        return _plain_result(ctx, spec["const"], ())
    if "rk" in spec:
        return _inner_rk(ctx, slot, spec["fn"], spec["rk"], spec["mix"])
    if "fn" in spec:
        return _inner(ctx, slot, spec["fn"])
    return ctx.src(spec["obs"])


# mappers of the operators that accept Observable-or-Future results (merge / switch_latest convert futures themselves)
@kind("innerf", st.one_of(s_inners.map(lambda x: {"fn": x}), s_inners.map(lambda x: {"fn": x}), s_rk_fn(RK_FUT)))
def _(ctx, slot, spec):
    if "rk" in spec:
        return _inner_rk(ctx, slot, spec["fn"], spec["rk"], spec["mix"])
    return _inner(ctx, slot, spec["fn"])


@kind("expandmapper", st.lists(st.fixed_dictionaries({"kind": st.sampled_from(["cold", "sync"]), "tl": timelines(max_len=2, max_dt=2, terminal=("C", "E"))}), min_size=1, max_size=2))
def _(ctx, slot, specs):
    def depth(x):
        return 1 + depth(x[1]) if isinstance(x, tuple) and len(x) == 2 and x[0] == "x" else 0

    def mapper(x):
        if depth(x) >= 2:
            return reactivex.empty()
        return ctx.src(specs[ctx.h(x) % len(specs)]).pipe(ops.map(lambda y: ("x", x)))

    return ctx.fn(slot, mapper)


@kind("dur", st.integers(0, 6))
def _(ctx, slot, d):
    return ctx.lab.rel(d)


@kind("durabs", st.fixed_dictionaries({"d": st.integers(0, 8), "abs": st.booleans()}))
def _(ctx, slot, spec):
    # absolute form: a datetime on the HistoricalScheduler clock (on the TestScheduler clock lab.abs is the bare number)
    return ctx.lab.abs(spec["d"]) if spec["abs"] else ctx.lab.rel(spec["d"])


@kind("dur1", st.integers(1, 6))
def _(ctx, slot, d):
    return ctx.lab.rel(d)


@kind("optdur1", opt(st.integers(1, 6)))
def _(ctx, slot, d):
    return None if d is None else ctx.lab.rel(d)


@kind("sched", st.booleans())
def _(ctx, slot, on):
    return ctx.lab.sched if on else None


@kind("sched!", st.just(True))
def _(ctx, slot, on):
    return ctx.lab.sched


@kind("cond", st.integers(0, 3))
def _(ctx, slot, n):
    cnt = [0]

    def cond(_):
        cnt[0] += 1
        return cnt[0] <= n

    return ctx.fn(slot, cond)


@kind("action", st.just(0))
def _(ctx, slot, _):
    return ctx.fn(slot, lambda: None)


@kind("optcb", st.booleans())
def _(ctx, slot, on):
    return ctx.fn(slot, lambda *a: None) if on else None


def _subject(ctx, k):
    return Subject() if k == "subject" else BehaviorSubject("init") if k == "behavior" else ReplaySubject(2, scheduler=ctx.lab.sched)


@kind("optsubject", st.sampled_from(["subject", "subject", "behavior", "replay", None]))
def _(ctx, slot, k):
    return None if k is None else _subject(ctx, k)


@kind("submapper", st.sampled_from([None, "subject", "replay", "replay"]))
def _(ctx, slot, k):
    return None if k is None else ctx.fn(slot, lambda: _subject(ctx, k))


@kind("obsmapper", st.sampled_from([None, None, "merge", "concat", "concat", "late", "zip"]))
def _(ctx, slot, k):
    if k is None:
        return None
    if k == "merge":
        return ctx.fn(slot, lambda shared: reactivex.merge(shared.pipe(ops.map(lambda x: ("m", x))), shared))
    if k == "concat":
        return ctx.fn(slot, lambda shared: reactivex.concat(shared, shared))
    if k == "late":
        return ctx.fn(slot, lambda shared: reactivex.merge(shared, shared.pipe(ops.delay_subscription(3))))
    return ctx.fn(slot, lambda shared: reactivex.zip(shared, shared))


@kind("handler", st.one_of(s_src.map(lambda x: {"obs": x}), s_inners.map(lambda x: {"fn": x})))
def _(ctx, slot, spec):
    if "obs" in spec:
        return ctx.src(spec["obs"])
    f = _inner(ctx, slot, spec["fn"])
    return lambda e, source: f(e)


@kind("sampler", st.one_of(st.integers(1, 6).map(lambda d: {"d": d}), s_src.map(lambda x: {"obs": x})))
def _(ctx, slot, spec):
    return ctx.lab.rel(spec["d"]) if "d" in spec else ctx.src(spec["obs"])


@kind("subdelay", st.one_of(st.none(), s_src_cs.map(lambda x: {"obs": x}), s_inners.map(lambda x: {"fn": x})))
def _(ctx, slot, spec):
    if spec is None:
        return None
    if "obs" in spec:
        return ctx.src(spec["obs"])
    return _inner(ctx, slot, spec["fn"])


@kind("futurector", st.booleans())
def _(ctx, slot, on):
    if not on:
        return None
    loop = ctx.loop
    return ctx.fn(slot, lambda: loop.create_future())


# ---------------------------------------------------------------------------------------
# the method table.  "name: param=kind, ... | key=value ..."   (shape = how the source is shaped)

TABLE_SRC = """
merge: sources=srcs, max_concurrent=optint14 | shape=@merge
concat: sources=srcs
zip: sources=srcs
combine_latest: sources=srcs
with_latest_from: sources=srcs
start_with: args=vals
fork_join: others=srcs
switch_latest: | shape=obs
amb: right_source=src
merge_all: | shape=obs
zip_with_iterable: second=iter
join: right=src, left_duration_mapper=inner, right_duration_mapper=inner
group_join: right=src, left_duration_mapper=inner, right_duration_mapper=inner | post=groupjoin
default_if_empty: default_value=val
find: predicate=pred
find_index: predicate=pred
catch: handler=handler
retry: retry_count=optint03
on_error_resume_next: second=src
filter: predicate=pred
take: count=int05
skip: count=int05
first: predicate=optpred
last: predicate=optpred
take_last: count=int05
skip_last: count=int05
distinct: key_mapper=optkey, comparer=opteq
distinct_until_changed: key_mapper=optkey, comparer=opteq
take_while: predicate=pred, inclusive=bool
skip_while: predicate=pred
take_until: other=src
skip_until: other=src
element_at: index=int05
filter_indexed: predicate_indexed=pred
take_while_indexed: predicate_indexed=pred, inclusive=bool
skip_while_indexed: predicate_indexed=pred
single: predicate=optpred
single_or_default: predicate=optpred, default_value=val
single_or_default_async: has_default=bool, default_value=val
element_at_or_default: index=int05, default_value=val
first_or_default: predicate=optpred, default_value=val
last_or_default: default_value=val, predicate=optpred
slice: start=sliceint, stop=sliceint, step=step
take_last_buffer: count=int05
skip_with_time: duration=dur, scheduler=sched
take_with_time: duration=dur, scheduler=sched
skip_last_with_time: duration=dur, scheduler=sched
take_last_with_time: duration=dur, scheduler=sched
skip_until_with_time: start_time=durabs, scheduler=sched
take_until_with_time: end_time=durabs, scheduler=sched
count: predicate=optpred
sum: key_mapper=optnumkey | shape=num
average: key_mapper=optnumkey | shape=num
min: comparer=optsub | shape=num
max: comparer=optsub | shape=num
min_by: key_mapper=key, comparer=optsub
max_by: key_mapper=key, comparer=optsub
share:
publish: mapper=obsmapper
replay: buffer_size=optint05, window=optdur1, mapper=obsmapper, scheduler=sched | norm=@replay
multicast: subject=optsubject
ref_count: | shape=conn
publish_value: initial_value=val, mapper=obsmapper
all: predicate=pred
some: predicate=optpred
is_empty:
contains: value=val, comparer=opteq
sequence_equal: second=src, comparer=opteq
sample: sampler=sampler, scheduler=sched
debounce: duetime=dur, scheduler=sched
throttle_first: window_duration=dur1, scheduler=sched
throttle_with_mapper: throttle_duration_mapper=inner
throttle_with_timeout: duetime=dur, scheduler=sched
map: mapper=mapper
reduce: accumulator=acc, seed=val
scan: accumulator=acc, seed=val
flat_map: mapper=flatmapper
concat_map: project=innerf
switch_map: project=innerf
map_indexed: mapper_indexed=optmapper
flat_map_indexed: mapper_indexed=flatmapper
flat_map_latest: mapper=innerf
switch_map_indexed: mapper_indexed=innerf
starmap: mapper=optmapper | shape=pair
starmap_indexed: mapper_indexed=optmapper | shape=pair
pluck: key=strkey | shape=dict
pluck_attr: attr=attr | shape=attr
expand: mapper=expandmapper
exclusive: | shape=obs
do_action: on_next=optcb, on_error=optcb, on_completed=optcb
delay: duetime=durabs, scheduler=sched
timeout: duetime=dur1, other=optsrc, scheduler=sched
timestamp: scheduler=sched
observe_on: scheduler=sched!
subscribe_on: scheduler=sched!
materialize:
dematerialize: | shape=notif
time_interval: scheduler=sched
delay_subscription: duetime=durabs, scheduler=sched
do: on_next=optcb, on_error=optcb, on_completed=optcb | piped=do_action
do_while: condition=cond
while_do: condition=cond
finally_action: action=action
ignore_elements:
repeat: repeat_count=optint03
to_iterable:
to_list:
to_set: | shape=hash
to_dict: key_mapper=key, element_mapper=optmapper
to_future: future_ctor=futurector
to_marbles: timespan=timespan, scheduler=sched
delay_with_mapper: subscription_delay=subdelay, delay_duration_mapper=optinner
timeout_with_mapper: first_timeout=optsrc, timeout_duration_mapper=optinner, other=optsrc
as_observable:
buffer: boundaries=src
group_by: key_mapper=key, element_mapper=optmapper, subject_mapper=submapper
partition: predicate=pred
pairwise:
partition_indexed: predicate_indexed=pred
buffer_with_count: count=int14, skip=optint14
buffer_with_time: timespan=dur1, timeshift=optdur1, scheduler=sched
buffer_with_time_or_count: timespan=dur1, count=int14, scheduler=sched
buffer_when: closing_mapper=inner0
buffer_toggle: openings=src, closing_mapper=inner
window: boundaries=src
window_with_count: count=int14, skip=optint14
window_with_time: timespan=dur1, timeshift=optdur1, scheduler=sched
window_with_time_or_count: timespan=dur1, count=int14, scheduler=sched
window_when: closing_mapper=inner0
window_toggle: openings=src, closing_mapper=inner
group_by_until: key_mapper=key, element_mapper=optmapper, duration_mapper=groupdur, subject_mapper=submapper
"""


class Row:
    def __init__(self, name, params, opts):
        self.name = name
        self.params = params  # [(pname, kind)]
        self.shape = opts.get("shape", "any")
        self.piped = opts.get("piped", name)
        self.post = opts.get("post")
        self.norm = opts.get("norm")


def _parse_table():
    out = {}
    for line in TABLE_SRC.strip().splitlines():
        line = line.strip()
        if not line:
            continue
        name, rest = line.split(":", 1)
        ps, _, os_ = rest.partition("|")
        params = []
        for item in ps.split(","):
            item = item.strip()
            if item:
                pn, k = item.split("=")
                if k.strip() not in KINDS:
                    raise HarnessError(f"C39 table: unknown kind {k} for {name}.{pn}")
                params.append((pn.strip(), k.strip()))
        opts = {}
        for item in os_.split():
            k, v = item.split("=")
            opts[k] = v
        if name in out:
            raise HarnessError(f"C39 table: duplicate row {name}")
        out[name.strip()] = Row(name.strip(), params, opts)
    return out


TABLE = _parse_table()


# ---------------------------------------------------------------------------------------
# introspection of the mixins


def fluent_methods():
    """[(module, method name, [inspect.Parameter...])] for every public method defined by a mixin class."""
    import reactivex.observable.mixins as pkg

    found = []
    for mi in sorted(pkgutil.iter_modules(pkg.__path__), key=lambda m: m.name):
        mod = importlib.import_module(f"{pkg.__name__}.{mi.name}")
        for cname, cls in sorted(inspect.getmembers(mod, inspect.isclass)):
            if cls.__module__ != mod.__name__:
                continue
            for mname, member in cls.__dict__.items():
                if mname.startswith("_"):
                    continue
                if isinstance(member, (staticmethod, classmethod)):
                    member = member.__func__
                if not inspect.isfunction(member):
                    continue
                params = [p for p in inspect.signature(member).parameters.values() if p.name != "self"]
                found.append((mi.name, mname, params))
    return found


def _validate(found):
    """Harness error unless every fluent method has an up-to-date argument row and a piped counterpart."""
    problems = []
    seen = set()
    for mod, name, params in found:
        if name in seen:
            problems.append(f"{name}: defined by two mixins")
        seen.add(name)
        row = TABLE.get(name)
        if row is None:
            problems.append(f"{mod}.{name}: no argument strategy in props/C39.py TABLE_SRC")
            continue
        if [p.name for p in params] != [pn for pn, _ in row.params]:
            problems.append(f"{mod}.{name}: signature {[p.name for p in params]} != table {[pn for pn, _ in row.params]}")
        if not hasattr(Observable, name):
            problems.append(f"{mod}.{name}: not reachable on Observable")
        if not hasattr(ops, row.piped):
            problems.append(f"{mod}.{name}: no operator function ops.{row.piped}")
    if problems:
        raise HarnessError("C39 argument table out of date:\n  " + "\n  ".join(problems))


def _sig_params(f):
    return [p for p in inspect.signature(f).parameters.values() if p.name != "self"]


# ---------------------------------------------------------------------------------------
# call forms


def _normalise(case):
    """(vals, given) after per-method constraints; pure function of the case."""
    row = TABLE[case["m"]]
    vals = dict(case["vals"])
    given = dict(case["given"])
    if row.norm == "@replay":
        if given.get("window") and vals.get("window") is not None:
            given["scheduler"] = True
            vals["scheduler"] = True
    return vals, given


def _shape_of(case, vals, given):
    row = TABLE[case["m"]]
    if row.shape == "@merge":
        return "obs" if (given.get("max_concurrent") and vals.get("max_concurrent") is not None) else "any"
    return row.shape


def _plan(case, fparams, vals, given):
    """-> (positional names, keyword names, var-positional name) in fluent terms."""
    pos, kw, var = [], [], None
    npos = case["npos"]
    still_pos = True
    i = 0
    for p in fparams:
        if p.kind is p.VAR_POSITIONAL:
            var = p.name
            continue
        g = given.get(p.name, True) or p.default is p.empty
        if p.kind is p.KEYWORD_ONLY:
            if g:
                kw.append(p.name)
            continue
        if not g:
            still_pos = False
            continue
        if still_pos and i < npos:
            pos.append(p.name)
            i += 1
        else:
            still_pos = False
            kw.append(p.name)
    return pos, kw, var


def _call(form, src, case, built, fparams, pos, kw, var):
    row = TABLE[case["m"]]
    args = [built[n] for n in pos]
    if var is not None:
        args = args + list(built[var])
    if form == "fluent":
        return getattr(src, case["m"])(*args, **{n: built[n] for n in kw})
    opf = getattr(ops, row.piped)
    oparams = _sig_params(opf)
    o_pk = [p for p in oparams if p.kind in (p.POSITIONAL_ONLY, p.POSITIONAL_OR_KEYWORD)]
    o_names = {p.name for p in oparams}
    f_pk = [p for p in fparams if p.kind in (p.POSITIONAL_ONLY, p.POSITIONAL_OR_KEYWORD)]
    kwargs = {}
    for n in kw:
        fp = next(p for p in fparams if p.name == n)
        if fp.kind is fp.KEYWORD_ONLY:
            if n not in o_names:
                raise HarnessError(f"{case['m']}: operator has no keyword {n}")
            kwargs[n] = built[n]
        else:
            idx = [p.name for p in f_pk].index(n)
            if idx >= len(o_pk):
                raise HarnessError(f"{case['m']}: operator has no parameter at position {idx}")
            kwargs[o_pk[idx].name] = built[n]
    # a fluent default that the operator function lacks is passed explicitly (same arguments after default expansion)
    for idx, fp in enumerate(f_pk):
        if fp.name in pos or fp.name in kw:
            continue
        if idx < len(o_pk) and o_pk[idx].default is o_pk[idx].empty and idx >= len(pos):
            kwargs[o_pk[idx].name] = fp.default
    op = opf(*args, **kwargs)
    return src.pipe(op)


# ---------------------------------------------------------------------------------------
# one world


def _shape_source(ctx, src, shape, case):
    lab = ctx.lab
    if shape == "any":
        return src
    if shape == "num":
        return src.pipe(ops.map(lambda x: ctx.h(x) % 7))
    if shape == "hash":
        return src.pipe(ops.map(lambda x: ctx.h(x) % 5))
    if shape == "obs":
        specs = case["inners"]
        return src.pipe(ops.map(ctx.fn("source.inner", lambda x: ctx.src(specs[ctx.h(x) % len(specs)]))))
    if shape == "notif":
        return src.pipe(ops.materialize())
    if shape == "dict":
        return src.pipe(ops.map(lambda x: {"k": x, "j": ("j", x)}))
    if shape == "attr":
        return src.pipe(ops.map(lambda x: P_T(a=x, b=("b", x))))
    if shape == "pair":
        return src.pipe(ops.map(lambda x: (x, ctx.h(x) % 3)))
    if shape == "conn":
        return src.pipe(ops.publish())
    raise HarnessError(f"shape {shape}")


def _future_state(f):
    if not f.done():
        return ["pending"]
    if f.cancelled():
        return ["cancelled"]
    e = f.exception()
    return ["raise", canon(e)] if e is not None else ["value", canon(f.result())]


def _world(case, form, fparams):
    lab = Lab(case.get("clock", "test"), tick_s=1.0, budget=6000)
    ctx = Ctx(lab, case)
    row = TABLE[case["m"]]
    vals, given = _normalise(case)
    loop = None
    if case["m"] == "to_future":
        loop = asyncio.new_event_loop()
        asyncio.set_event_loop(loop)
        ctx.loop = loop
    try:
        src = _shape_source(ctx, lab.source(case["src"]), _shape_of(case, vals, given), case)
        pos, kw, var = _plan(case, fparams, vals, given)
        built = {}
        for p in fparams:
            if p.name in pos or p.name in kw or p.name == var:
                k = dict(row.params)[p.name]
                built[p.name] = KINDS[k][1](ctx, f"{case['m']}.{p.name}", vals[p.name])
        obs = {"outcome": None}
        res = None
        try:
            res = _call(form, src, case, built, fparams, pos, kw, var)
        except HarnessError:
            raise
        except (SpinGuard, BudgetExceeded, RecursionError):
            return None
        except Exception as e:  # the call itself raised: part of the observable behaviour
            obs["outcome"] = ["raise", type(e).__name__, str(e)]
        sc = case["scen"]
        tops = []
        fut = None
        if obs["outcome"] is None:
            if isinstance(res, asyncio.Future):
                fut = res
                obs["kind"] = "future"
            else:
                outs = list(res) if isinstance(res, (list, tuple)) else [res]
                if not all(isinstance(o, Observable) for o in outs):
                    obs["outcome"] = ["returned", [type(o).__name__ for o in outs]]
                    outs = []
                obs["kind"] = ["connectable" if isinstance(o, ConnectableObservable) else "observable" for o in outs]
                for i, o in enumerate(outs):
                    if row.post == "groupjoin":
                        o = o.pipe(ops.flat_map(lambda t: t[1].pipe(ops.map(lambda r: (t[0], r)))))
                    p = lab.probe(f"p{i}", inner=sc["inner"])
                    tops.append(p)
                    lab.at(0, lambda p=p, o=o: p.subscribe(o))
                    if isinstance(outs[i], ConnectableObservable):
                        lab.at(sc["connect"], lambda c=outs[i]: c.connect(lab.sched))
                    if sc["dispose"] is not None:
                        lab.at(sc["dispose"], p.dispose)
        lab.run(until=HORIZON)
        if lab.inconclusive:
            return None
        obs["trees"] = [p.tree() for p in tops]
        obs["future"] = _future_state(fut) if fut is not None else None
        obs["sources"] = [[s.name, s.subs, s.emitted] for s in lab.sources]
        obs["callbacks"] = lab.cb_log
        obs["escaped"] = canon(lab.escaped) if lab.escaped is not None else None
        obs["events"] = sum(len(q.events) for q in lab.probes)
        return obs
    finally:
        if loop is not None:
            asyncio.set_event_loop(None)
            loop.close()


_ADDR = re.compile(r"0x[0-9a-fA-F]+")


def _norm_json(x):
    return _ADDR.sub("0x?", json.dumps(x, sort_keys=True, default=repr))


_FPARAMS = {}


def _fparams(name):
    if name not in _FPARAMS:
        _FPARAMS[name] = _sig_params(getattr(Observable, name))
    return _FPARAMS[name]


def _forms(case, fparams):
    """Call forms to execute for one case: the case's own form plus (bounded) every combination of
    omitted/given defaulted parameters x positional-prefix length; de-duplicated by effective plan."""
    import itertools

    optional = [p.name for p in fparams if p.default is not p.empty and p.kind is not p.VAR_POSITIONAL]
    n_pk = sum(1 for p in fparams if p.kind in (p.POSITIONAL_ONLY, p.POSITIONAL_OR_KEYWORD))
    if len(optional) <= 3:
        subsets = [set(c) for r in range(len(optional) + 1) for c in itertools.combinations(optional, r)]
    else:
        subsets = [set(optional), set()] + [{o} for o in optional] + [set(optional) - {o} for o in optional]
    own_given = dict(case["given"])
    cands = [(own_given, case["npos"])]
    for sub in subsets:
        g = {k: (k in sub if k in optional else True) for k in own_given}
        for npos in sorted({0, n_pk, case["npos"], 1 if n_pk > 1 else 0}):
            cands.append((g, npos))
    out, seen = [], set()
    for g, npos in cands:
        c2 = dict(case)
        c2["given"] = g
        c2["npos"] = npos
        vals, given = _normalise(c2)
        plan = _plan(c2, fparams, vals, given)
        key = repr(plan)
        if key in seen:
            continue
        seen.add(key)
        out.append(c2)
        if len(out) >= 16:
            break
    return out


def _run(case):
    m = case["m"]
    if m not in TABLE:
        raise HarnessError(f"no table row for {m}")
    fparams = _fparams(m)
    forms = [case] if case.get("forms") == "own" else _forms(case, fparams)
    nontrivial = False
    classes = []
    skipped = 0
    for c2 in forms:
        r = _run_form(c2, fparams)
        if r.inconclusive:
            skipped += 1
            continue
        if not r.ok:
            return r
        nontrivial = nontrivial or r.nontrivial
        for c in r.classes:
            if c not in classes:
                classes.append(c)
    if skipped == len(forms):
        return SKIP("spin-or-budget")
    classes.append(f"forms>={min(len(forms), 8)}" if len(forms) >= 8 else f"forms={len(forms)}")
    return OK(nontrivial, classes)


def _run_form(case, fparams):
    m = case["m"]
    a = _world(case, "fluent", fparams)
    b = _world(case, "piped", fparams)
    if a is None or b is None:
        return SKIP("spin-or-budget")
    vals, given = _normalise(case)
    pos, kw, var = _plan(case, fparams, vals, given)
    explicit = len(pos) + len(kw) + (1 if var and vals.get(var) else 0)
    cls = ["m:" + m]
    if case.get("clock", "test") == "hist":
        cls.append("clock:historical")
    for pn, k in TABLE[m].params:
        if k == "durabs" and (pn in pos or pn in kw) and vals[pn]["abs"]:
            cls.append("abs-time:" + case.get("clock", "test"))
        if k in ("flatmapper", "innerf") and (pn in pos or pn in kw) and isinstance(vals[pn], dict):
            sp = vals[pn]
            if "const" in sp:
                cls.append("mapper-const:" + sp["const"])
            elif "rk" in sp:
                cls.append("mapper-result:" + sp["rk"] + ("+observable" if sp["mix"] else ""))
    if kw:
        cls.append("form:keyword")
    if pos:
        cls.append("form:positional")
    if any(p.default is not p.empty and p.name not in pos and p.name not in kw for p in fparams if p.kind is not p.VAR_POSITIONAL):
        cls.append("form:default-omitted")
    if a["outcome"] is not None:
        cls.append("call-raised")
    if a.get("kind") == "future":
        cls.append("future")
    elif a.get("kind") and "connectable" in a["kind"]:
        cls.append("connectable")
    if any(t["inner"] for t in a.get("trees", [])):
        cls.append("inner-observables")
    for key, label in (("outcome", "call-outcome"), ("kind", "result-kind"), ("trees", "trace"), ("future", "future"), ("sources", "subscriptions"), ("callbacks", "callbacks"), ("escaped", "escaped")):
        ja, jb = _norm_json(a.get(key)), _norm_json(b.get(key))
        if ja != jb:
            return FAIL(f"{label}|{m}", f"fluent {key}={ja[:700]}  !=  piped {key}={jb[:700]}; case={case}", classes=cls)
    nontrivial = a["events"] >= 1 and (not fparams or explicit >= 1)
    if a.get("kind") == "future" and a["future"][0] != "pending":
        nontrivial = explicit >= 1
    return OK(nontrivial, cls)


# ---------------------------------------------------------------------------------------
# guaranteed per-method coverage: enumerated (method, block) cases expanded deterministically

_METHODS = {}


def _each_cases(tier):
    seed = int(os.environ.get("VERIF_SEED", "1") or "1")
    scale = float(os.environ.get("VERIF_SCALE", "1") or "1")
    blocks, k = (3, 8) if tier == "quick" else (max(1, int(20 * scale)), 25)
    for name in sorted(_METHODS):
        for j in range(blocks):
            yield {"m": name, "seed": seed, "block": j, "k": k}


def _expand(case):
    from hypothesis import HealthCheck, Phase, given, seed, settings

    name = case["m"]
    if name not in _METHODS:
        found = fluent_methods()
        _METHODS.update({n: p for _, n, p in found})
    if name not in _METHODS:
        raise HarnessError(f"replayed method {name} no longer exists")
    out = []

    @seed(stable_hash([name, case["seed"], case["block"]]))
    @settings(max_examples=case["k"], database=None, deadline=None, phases=[Phase.generate], suppress_health_check=list(HealthCheck))
    @given(_case_strategy(name, _METHODS[name]))
    def collect(c):
        out.append(c)

    collect()
    return out


def _run_each(case):
    nontrivial = False
    classes = []
    n = 0
    for c in _expand(case):
        r = _run(c)
        if r.inconclusive:
            continue
        n += 1
        if not r.ok:
            return r
        nontrivial = nontrivial or r.nontrivial
        for x in r.classes:
            if x not in classes and not x.startswith("forms"):
                classes.append(x)
    if n == 0:
        return SKIP("spin-or-budget")
    classes.append(f"expanded={n}")
    return OK(nontrivial, classes)


# ---------------------------------------------------------------------------------------
# strategies


_TIER = {"max_len": 4}


def _case_strategy(name, params):
    row = TABLE[name]
    kinds = dict(row.params)
    n_pk = sum(1 for p in params if p.kind in (p.POSITIONAL_ONLY, p.POSITIONAL_OR_KEYWORD))
    needs_inners = row.shape in ("obs", "@merge")
    src = st.fixed_dictionaries({"kind": st.sampled_from(["cold", "cold", "sync", "hot"]), "tl": timelines(max_len=_TIER["max_len"], max_dt=3, values=(HASHABLE_NAMES if row.shape == "hash" else NAMES))})
    inner_pol = st.one_of(
        st.just({"mode": "now"}),
        st.fixed_dictionaries({"mode": st.just("late"), "d": st.integers(0, 3)}),
        st.fixed_dictionaries({"mode": st.just("late"), "d": st.integers(1, 4)}),
        st.just({"mode": "never"}),
        st.fixed_dictionaries({"mode": st.just("now"), "unsub": st.integers(0, 4)}),
    )
    d = {
        "m": st.just(name),
        "clock": st.sampled_from(["test", "test", "hist"]),
        "vals": st.fixed_dictionaries({p.name: KINDS[kinds[p.name]][0] for p in params}),
        "given": st.fixed_dictionaries({p.name: (st.just(True) if (p.default is p.empty and p.kind is not p.VAR_POSITIONAL) else st.just(True) if p.kind is p.VAR_POSITIONAL else st.booleans()) for p in params}),
        "npos": st.integers(0, n_pk),
        "src": src,
        "scen": st.fixed_dictionaries({"inner": inner_pol, "dispose": st.one_of(st.none(), st.none(), st.integers(0, 12)), "connect": st.integers(0, 4)}),
    }
    if needs_inners:
        d["inners"] = s_inners
    return st.fixed_dictionaries(d)


def checks(tier):
    found = fluent_methods()
    _validate(found)
    _TIER["max_len"] = 4 if tier == "quick" else 6
    ms = {name: params for _, name, params in found}
    _METHODS.clear()
    _METHODS.update(ms)
    strat = st.sampled_from(sorted(ms)).flatmap(lambda n: _case_strategy(n, ms[n]))
    # "each": enumerated over (method, block) so that every method is exercised in every run -- a block draws K cases for
    #   that one method from its strategy with a seed derived from (method, VERIF_SEED, block).
    # "fluent": one generated check over all methods (shrinking, larger per-shard example counts); failures are bucketed
    #   per method by their signature "<clause>|<method>".
    return [
        Check("each", _run_each, cases=_each_cases, shards={"quick": 8, "thorough": 16}),
        Check("fluent", _run, strategy=strat, examples={"quick": 20 * len(ms), "thorough": 1500 * len(ms)}, shards={"quick": 8, "thorough": 16}),
    ]
