"""C43 Combinators serialize concurrently emitting sources (Engine DET)."""
from __future__ import annotations

import itertools

from hypothesis import strategies as st

from vlib import conc, det
from vlib.core import Check, HarnessError

PROPERTY_ID = "C43"
LEVEL = "exploration"
RULE = (
    "2-3 source threads, each pushing a conforming sequence ('N'* then 'C' or 'E', <=3 elements) serially into its own "
    "Subject; the subjects are combined by reactivex.merge / ops.merge, merge_all, flat_map and merge(max_concurrent=n) "
    "(thread 0 is the OUTER source emitting the inner subjects 'I'* then 'C'/'E'; `pre` of its emissions are done before "
    "the run), reactivex.zip / ops.zip, combine_latest (both forms), with_latest_from (parent = first or last source), "
    "ops.amb / reactivex.amb, and by "
    "window_with_time / window_with_time_or_count (one source thread that also sleeps 'S'=1 timespan / 's'=half a "
    "timespan on the fake clock, racing the operator's timer threads started through the patched TimeoutScheduler; the "
    "probe subscribes to every window with a child probe; optionally the probe is a slow consumer that blocks on the fake "
    "clock inside one call, e.g. inside the delivery of the very first window made at subscribe time, so that a timer armed "
    "too early fires meanwhile - for those cases only the overlap/grammar clauses are judged). One downstream probe (plus one per window) yields inside every "
    "callback and records the calls in flight. Engine DET (vlib/det.py) runs the real code with line-level yield points "
    "('full': every reactivex line; 'focus': the operator's own files + autodetachobserver.py + internal/concurrency.py "
    "+ every lock operation + probe yields). enum-k1: every schedule with <=1 preemption for all 2-source programs over "
    "{C,NC,NE,NNC} (+3 three-source programs) per plain operator form, over {C,NC,NE} x outer {IIE pre 2, IIC pre 0} for "
    "merge_all/merge(max_concurrent=1|2), 4 timed programs per window operator (focus), and over {NC,NE} for every form "
    "(full); thorough: full alphabets {C,E,NC,NE,NNC}, all four outer variants, 10 timed programs; enum-k2: every schedule with <=2 preemptions "
    "(focus) for zip/combine_latest/with_latest_from/amb on NNC|NNC and NNE|NNC (thorough: all forms over {NC,NE,NNC,NNE}); gen: generated programs "
    "with a drawn descent of <=3 effective preemptions, every prefix schedule judged too. Oracle, every run, every probe: "
    "no callback starts while a callback of ANOTHER thread is in flight on the same probe (same-thread re-entrancy is not "
    "counted); the calls in entry order match N*(E|C)? (both reported under the one signature 'unserialized|<operator>': "
    "behind AutoDetachObserver a grammar violation can only arise from two threads inside the downstream observer at "
    "once); no deadlock; no escaped exception (signature names the file:function that raised). For the two time-window "
    "operators additionally (statement of C18, judged from the global order of probe calls and their fake-clock times, no "
    "tie rule assumed): every source element goes to exactly the windows open when it arrives, once each, with no "
    "open/close in the middle, in arrival order ('window-content'); a window is closed only by the source's terminal "
    "(with that kind), by the on_next that delivered its count-th element, or by a timer exactly one timespan after it "
    "was opened; window_with_time opens window j exactly j*timeshift after the first, window_with_time_or_count opens "
    "the next window the instant the previous one closed and never exceeds count; no window stays open after the "
    "terminal ('window-rule'). For the other combinators nothing is demanded about WHICH values arrive. Non-trivial: in some explored run a thread executed a step inside its own emission (or a "
    "timer thread ran operator code) strictly between the entry and the return of another source's emission. "
    "Distinct = distinct case JSON."
)
ASSUMPTIONS = [
    "each source emits serially from its own thread and obeys the grammar (the Rx contract); only different sources (and operator timers) race",
    "the outer sequence of merge_all/flat_map/merge(max_concurrent) counts as one of the operator's sources",
    "subscription happens before the run (window operators: at the start of the source thread, because subscribing starts a timer thread)",
    "CPython GIL-build atomicity: a source line is the unit of interleaving; locks/timers/threads are the cooperative replacements of vlib/det.py",
    "bounds: <=3 sources, <=3 elements per source, exhaustive <=1 preemption everywhere and <=2 on the listed programs, <=3 drawn",
    "lost or misrouted values of the non-window combinators (e.g. an inner source left in merge(max_concurrent)'s queue) are outside this property's statement and not judged",
    "a slow consumer (probe sleeping inside a call) is generated for the window operators only, and then only overlap/grammar are judged",
    "window timing equalities rely on Engine DET's clock: it only advances when no thread is runnable, the source never sleeps inside an emission and probes never sleep, so a timer action runs at exactly its due instant",
]
TIMEOUT = {"quick": 300, "thorough": 3600}

MERGE_ALL_FAMILY = ("merge_all", "flat_map", "merge_max")
WINDOW_FAMILY = ("window_time", "window_time_count")
FORMS = ("merge", "merge_op", "merge_all", "flat_map", "merge_max", "zip", "zip_op", "combine_latest", "combine_latest_op",
         "with_latest_from", "with_latest_from_rev", "amb", "amb_fn", "window_time", "window_time_count")  # fmt: skip
_FILES = {
    "merge": ["operators/_merge.py", "observable/merge.py"],
    "merge_op": ["operators/_merge.py", "observable/merge.py"],
    "merge_all": ["operators/_merge.py"],
    "flat_map": ["operators/_merge.py", "operators/_flatmap.py"],
    "merge_max": ["operators/_merge.py"],
    "zip": ["observable/zip.py"],
    "zip_op": ["observable/zip.py", "operators/_zip.py"],
    "combine_latest": ["observable/combinelatest.py"],
    "combine_latest_op": ["observable/combinelatest.py", "operators/_combinelatest.py"],
    "with_latest_from": ["observable/withlatestfrom.py", "operators/_withlatestfrom.py"],
    "with_latest_from_rev": ["observable/withlatestfrom.py", "operators/_withlatestfrom.py"],
    "amb": ["operators/_amb.py"],
    "amb_fn": ["operators/_amb.py", "observable/amb.py"],
    "window_time": ["operators/_windowwithtime.py"],
    "window_time_count": ["operators/_windowwithtimeorcount.py"],
}
CULPRIT = {
    "merge": "merge_all", "merge_op": "merge_all", "merge_all": "merge_all", "flat_map": "merge_all", "merge_max": "merge_max",
    "zip": "zip", "zip_op": "zip", "combine_latest": "combine_latest", "combine_latest_op": "combine_latest",
    "with_latest_from": "with_latest_from", "with_latest_from_rev": "with_latest_from", "amb": "amb", "amb_fn": "amb", "window_time": "window_with_time",
    "window_time_count": "window_with_time_or_count",
}  # fmt: skip


def _kw(case):
    kw = {}
    if case.get("focus"):
        d = det.reactivex_dir()
        files = _FILES[case["op"]] + ["observer/autodetachobserver.py", "internal/concurrency.py"]
        kw.update(trace=False, extra_trace=tuple(d + f for f in files))
    if case["op"] in WINDOW_FAMILY:
        kw.update(time_limit_s=60.0, max_steps=20000)
    return kw


def _build(case):
    import reactivex
    from reactivex import operators as ops
    from reactivex.subject import Subject
    from vlib.values import Tagged

    conc.fresh_thread_state()
    op, srcs = case["op"], case["srcs"]
    S = [Subject() for _ in srcs]
    outer = None
    if op in MERGE_ALL_FAMILY:
        outer = Subject()
        if op == "merge_all":
            obs = outer.pipe(ops.merge_all())
        elif op == "flat_map":
            obs = outer.pipe(ops.flat_map(lambda j: S[j]))
        else:
            obs = outer.pipe(ops.merge(max_concurrent=case["n"]))
    elif op == "merge":
        obs = reactivex.merge(*S)
    elif op == "merge_op":
        obs = S[0].pipe(ops.merge(*S[1:]))
    elif op == "zip":
        obs = reactivex.zip(*S)
    elif op == "zip_op":
        obs = S[0].pipe(ops.zip(*S[1:]))
    elif op == "combine_latest":
        obs = reactivex.combine_latest(*S)
    elif op == "combine_latest_op":
        obs = S[0].pipe(ops.combine_latest(*S[1:]))
    elif op == "with_latest_from":
        obs = S[0].pipe(ops.with_latest_from(*S[1:]))
    elif op == "with_latest_from_rev":  # the parent is the LAST source: its thread comes after the children's in the default order
        obs = S[-1].pipe(ops.with_latest_from(*S[:-1]))
    elif op == "amb":
        obs = S[0].pipe(ops.amb(S[1]))
    elif op == "amb_fn":
        obs = reactivex.amb(*S)
    elif op == "window_time":
        obs = S[0].pipe(ops.window_with_time(1.0, case.get("shift")))
    elif op == "window_time_count":
        obs = S[0].pipe(ops.window_with_time_or_count(1.0, case["n"]))
    else:
        raise HarnessError(f"bad op {op}")
    windows = op in WINDOW_FAMILY
    ps = case.get("probe_sleep")  # [call index, seconds]: the downstream observer is slow inside that call (fake clock)
    probe = conc.Probe("out", window_factory=(lambda parent, k: conc.Probe(f"win{k}")) if windows else None, sleep_at={ps[0]: ps[1]} if ps else None)
    if not windows:
        obs.subscribe(probe)
    for s in S + ([outer] if outer is not None else []):
        bad = det.audit_object(s)
        if bad:
            raise HarnessError(f"object under test carries real locks: {bad}")

    def emit(subj, t, j, tok, nxt):
        if tok == "S" or tok == "s":
            det.CEvent().wait(1.0 if tok == "S" else 0.5)
            return
        det.log("emit", t, j)
        if tok == "N":
            subj.on_next(t * 10 + j)
        elif tok == "I":
            subj.on_next(nxt)
        elif tok == "E":
            subj.on_error(Tagged(f"e{t}"))
        elif tok == "C":
            subj.on_completed()
        else:
            raise HarnessError(f"bad token {tok}")
        det.log("emit-ret", t, j)

    def source_thread(t, subj, prog, first=0):
        def body():
            if windows:
                det.log("subscribe")
                obs.subscribe(probe)
                det.log("subscribe-ret")
            for j in range(first, len(prog)):
                emit(subj, t, j, prog[j], inner_of(prog, j))

        return body

    def inner_of(prog, j):
        k = prog[: j + 1].count("I") - 1
        if prog[j] != "I":
            return None
        return k if op == "flat_map" else S[k]

    threads = []
    if outer is not None:
        prog = case["outer"]
        pre = case.get("pre", 0)
        for j in range(pre):  # free mode, before the run
            emit(outer, 0, j, prog[j], inner_of(prog, j))
        threads.append(source_thread(0, outer, prog, pre))
        threads += [source_thread(i + 1, S[i], p) for i, p in enumerate(srcs)]
    else:
        threads += [source_thread(i, S[i], p) for i, p in enumerate(srcs)]
    return threads, {"probes": [probe], "nprog": len(threads), "case": case}


def _judge(ctx, res):
    if res.deadlock:
        return "deadlock", repr(res.deadlock)
    for tid, e in sorted(res.exceptions.items()):
        where = conc.innermost_library_file(e)
        # the root cause of an escaped exception is where it was raised (e.g. Subject's InnerSubscription), not the combinator
        return f"escaped:{type(e).__name__}", f"thread {tid} ({res.names.get(tid)}): {e!r} raised in {where}", where or CULPRIT[ctx["case"]["op"]]
    for p in ctx["probes"][0].all_probes():
        if p.overlaps:
            kind, tid, others = p.overlaps[0]
            pair = "+".join(sorted([kind] + [k for k, _ in others]))
            return "unserialized", f"overlap: probe {p.name}: [{pair}] {kind} from thread {tid} started while {others} (kind, tid) in flight; calls so far {p.kinds()!r}"
        if not p.grammar_ok():
            # every probe sits behind an AutoDetachObserver, which swallows a SEQUENTIAL second terminal / late on_next; a
            # grammar violation at the probe therefore means two threads were inside that gate at once: same root cause
            return "unserialized", f"grammar: probe {p.name} saw {p.kinds()!r} (values {[e[1] for e in p.events]}, tids {[e[2] for e in p.events]})"
    if ctx["case"]["op"] in WINDOW_FAMILY and not ctx["case"].get("probe_sleep"):
        return _judge_windows(ctx, res)  # the exact-time rules assume a downstream that never blocks; skipped for a sleeping probe
    return None


SPAN_US = 1_000_000


def _judge_windows(ctx, res):
    """Content and rule clauses for the two time-window operators under threads (statement of C18: every source element is
    delivered to exactly the windows open when it arrives, in arrival order; windows open and close when their rule
    dictates; all open windows end with the source's terminal kind).  Everything is read off the global order of probe
    calls (det.log) and the fake-clock time of each call; because the operator must do all of this under one lock, the
    order in which a timer and a racing emission got the lock is simply whatever the log shows - no tie rule is assumed.
    Rules: a window may only be closed (a) by the source's terminal, with that kind, (b) window_with_time_or_count: by
    the source's on_next that delivered its count-th element, (c) otherwise by a timer exactly `timespan` after it was
    opened.  window_with_time opens window j exactly j*timeshift after the first; window_with_time_or_count opens the
    next window at the instant the previous one closed and never puts more than `count` elements into one."""
    case = ctx["case"]
    op, prog = case["op"], case["srcs"][0]
    outer = ctx["probes"][0]
    wins = outer.children
    shift_us = int(round((case.get("shift") or 1.0) * 1e6)) if op == "window_time" else None
    count = case.get("n")
    wcl = ctx.setdefault("wclasses", set())
    open_set, opened, closed = [], {}, {}  # k -> (pos, time) ; k -> (pos, time, kind, tid, during_terminal, n_at_close)
    got = {}  # value -> [(pos, k)]
    marks = {}  # pos -> open/close marker, to test contiguity of one element's deliveries
    emitting = None
    k_next = 0
    pos = 0
    for _, tid, pl in res.events:
        if not isinstance(pl, tuple) or not pl:
            continue
        if pl[0] == "emit":
            emitting = prog[pl[2]]
        elif pl[0] == "emit-ret":
            emitting = None
        if pl[0] != "cb":
            continue
        pos += 1
        name, kind, idx = pl[1], pl[2], pl[3]
        if name == "out":
            if kind == "N":
                opened[k_next] = (pos, outer.times[idx])
                open_set.append(k_next)
                marks[pos] = "open"
                k_next += 1
            continue
        k = int(name[3:])
        w = wins[k]
        if kind == "N":
            v = w.events[idx][1]
            if k not in open_set:
                return "window-content", f"element {v} delivered to window {k} which is not open (open: {open_set})"
            got.setdefault(v, []).append((pos, k, list(open_set)))
        else:
            if k in open_set:
                open_set.remove(k)
            n_at = sum(1 for e in w.events[:idx] if e[0] == "N")
            closed[k] = (pos, w.times[idx], kind, tid, tid == 0 and emitting in ("C", "E"), n_at, tid == 0 and emitting == "N")
            marks[pos] = "close"
    desc = f"windows {[(k, w.kinds(), [e[1] for e in w.events if e[0] == 'N']) for k, w in enumerate(wins)]} outer {outer.kinds()!r} program {prog!r}"
    # ---- content: exactly the windows open at arrival, once each, contiguous, arrival order
    emitted = [j for j, tok in enumerate(prog) if tok == "N"]
    always_open = op == "window_time_count" or shift_us <= SPAN_US
    for v in emitted:
        d = got.get(v)
        if not d:
            src_done = any(pl == ("emit-ret", 0, v) for _, _, pl in res.events)
            if src_done and always_open and res.complete and not any(c[2] == "E" for c in closed.values()):
                return "window-content", f"element {v} was delivered to no window although one must be open; {desc}"
            if src_done:
                wcl.add("element-in-gap")
            continue
        ks = [k for _, k, _ in d]
        first, last = d[0][0], d[-1][0]
        if sorted(ks) != sorted(d[0][2]) or len(set(ks)) != len(ks):
            return "window-content", f"element {v} went to windows {ks} but the windows open when it arrived were {d[0][2]}; {desc}"
        if any(first < p < last for p in marks):
            return "window-content", f"a window was opened/closed in the middle of the delivery of element {v}; {desc}"
        if len(ks) > 1:
            wcl.add("element-in-2-windows")
    for k, w in enumerate(wins):
        vals = [e[1] for e in w.events if e[0] == "N"]
        if vals != sorted(vals):
            return "window-content", f"window {k} received {vals}: not in arrival order; {desc}"
        if count is not None and len(vals) > count:
            return "window-rule", f"window {k} holds {len(vals)} > count={count} elements; {desc}"
    # ---- rules
    term = outer.kinds()[-1:] if outer.kinds()[-1:] in ("C", "E") else None
    for k in sorted(opened):
        o_pos, o_time = opened[k]
        if op == "window_time" and o_time - opened[0][1] != k * shift_us:
            return "window-rule", f"window {k} opened at +{(o_time - opened[0][1]) / 1e6}s, rule says +{k * shift_us / 1e6}s; {desc}"
        if op == "window_time_count" and k > 0 and k - 1 in closed and (closed[k - 1][1] != o_time or closed[k - 1][0] != o_pos - 1):
            return "window-rule", f"window {k} was not opened at the instant window {k - 1} closed; {desc}"
        if k not in closed:
            if res.complete and term is not None and k < len(wins):
                return "window-rule", f"window {k} still open after the source terminated with {term}; {desc}"
            continue
        c_pos, c_time, kind, tid, by_terminal, n_at, by_next = closed[k]
        age = c_time - o_time
        if by_terminal:
            wcl.add("closed-by-terminal")
            if kind != {"C": "C", "E": "E"}[prog[-1]]:
                return "window-rule", f"window {k} ended with {kind} but the source terminated with {prog[-1]}; {desc}"
        elif op == "window_time_count" and by_next and n_at == count:
            wcl.add("closed-by-count")
            if _timer_ran_between(ctx, res, c_pos):
                wcl.add("timer-thread-ran-during-count-close")
        else:
            wcl.add("closed-by-timer")
            if kind != "C" or age != SPAN_US or tid == 0:
                return "window-rule", (
                    f"window {k} was closed ({kind}, by thread {tid}) {age / 1e6}s after it was opened holding {n_at} element(s): "
                    f"neither its timespan (1.0s) nor its count ({count}) nor the source's terminal dictates that; {desc}"
                )
    return None


def _timer_ran_between(ctx, res, c_pos):
    """True if a timer thread executed operator/lock steps while the source was inside the emission that closed a window by count
    (the situation in which a timer that has already fired must find out that its window is gone)."""
    pos = 0
    start = None
    for step, tid, pl in res.events:
        if isinstance(pl, tuple) and pl and pl[0] == "emit" and tid == 0:
            start = step - 1
        if isinstance(pl, tuple) and pl and pl[0] == "cb":
            pos += 1
            if pos == c_pos:
                break
    if start is None:
        return False
    end = next((st - 1 for st, tid, pl in res.events if st - 1 >= start and tid == 0 and isinstance(pl, tuple) and pl and pl[0] == "emit-ret"), res.steps)
    return any(res.owners[s] >= ctx["nprog"] and res.labels[s] not in ("start", "event-wait") for s in range(max(start, 0), min(end, res.steps)))


def _nontrivial(ctx, res):
    nprog = ctx["nprog"]
    iv, open_ = {}, {}
    for step, tid, pl in res.events:
        if isinstance(pl, tuple) and pl and pl[0] == "emit":
            open_[tid] = step - 1
        elif isinstance(pl, tuple) and pl and pl[0] == "emit-ret" and tid in open_:
            iv.setdefault(tid, []).append((open_.pop(tid), step - 1))
    for tid, a in open_.items():
        iv.setdefault(tid, []).append((a, res.steps))
    for t, lst in iv.items():
        for a, b in lst:
            for s in range(max(a, 0), min(b, res.steps)):
                o = res.owners[s]
                if o == t:
                    continue
                if o >= nprog:
                    if res.labels[s] not in ("start", "event-wait"):
                        return True
                elif any(x <= s < y for x, y in iv.get(o, ())):
                    return True
    return False


def _classes(ctx, res):
    case = ctx["case"]
    probes = ctx["probes"][0].all_probes()
    cl = ["op:" + case["op"], f"T{ctx['nprog']}", "trace:" + ("focus" if case.get("focus") else "full")]
    k = probes[0].kinds()
    cl.append("out:" + ("empty" if not k else ("N+" if "N" in k else "") + (k[-1] if k[-1] in "EC" else "open")))
    if len(probes) > 1:
        cl.append(f"windows:{min(len(probes) - 1, 4)}")
        if any("N" in p.kinds() for p in probes[1:]):
            cl.append("window-got-N")
    if res.horizon_reached:
        cl.append("horizon")
    if res.nthreads > ctx["nprog"]:
        cl.append("timer-threads")
    if probes[0].slept:
        cl.append(f"probe-slept-in-call:{probes[0].slept[0]}")
        if any(e[2] != probes[0].events[0][2] for e in probes[0].events):
            cl.append("probe-slept+other-thread-called-downstream")
    cl += sorted("win:" + c for c in ctx.get("wclasses", ()))
    return cl


def run(case):
    return conc.drive(case, lambda: _build(case), _judge, culprit=CULPRIT[case["op"]], kw=_kw(case), nontrivial=_nontrivial, classes=_classes)


# ---------------------------------------------------------------------------------------------
# case spaces
# ---------------------------------------------------------------------------------------------
def _case(op, srcs, sched, focus, **extra):
    d = {"op": op, "srcs": list(srcs), "focus": focus, "sched": sched}
    d.update(extra)
    return d


_TIMED = ["NSNC", "SNC", "NsNC", "NSE", "NSC", "NsNsNC", "SNSNE", "NNSNC", "sNsNSC", "SSC"]
_PLAIN = tuple(f for f in FORMS if f not in MERGE_ALL_FAMILY + WINDOW_FAMILY)
_TRIPLES = [["NC", "NC", "NE"], ["NC", "E", "NC"], ["NNC", "NC", "C"]]
_OUTERS = (("IIE", 2), ("IIC", 0), ("IIC", 2), ("IIE", 1))


def _pairs(alpha):
    return [list(p) for p in itertools.product(alpha, repeat=2)]


def _plain(alpha, triples=True):
    for op in _PLAIN:
        for srcs in _pairs(alpha):
            yield op, srcs, {}
        if triples and op != "amb":
            for srcs in _TRIPLES:
                yield op, srcs, {}


def _nested(alpha, forms=MERGE_ALL_FAMILY, outers=_OUTERS, ns=(1, 2)):
    for op in forms:
        for srcs in _pairs(alpha):
            for outer, pre in outers:
                if op == "merge_max":
                    for n in ns:
                        yield op, srcs, {"outer": outer, "pre": pre, "n": n}
                else:
                    yield op, srcs, {"outer": outer, "pre": pre}


def _windows(timed, shifts=(None, 0.5), ns=(1, 2)):
    for prog in timed:
        for shift in shifts:
            yield "window_time", [prog], {"shift": shift}
        for n in ns:
            yield "window_time_count", [prog], {"n": n}


# timed programs aimed at the rules: a sleep right after a count-close (a timer that fired while the source held the lock
# gets to run next), count-close and timer due at the same instant, gapped windows (timeshift > timespan), overlapping ones
_WINDOW_EXTRA = [
    ("window_time_count", "NSNsNC", {"n": 2}),
    ("window_time_count", "SNsNC", {"n": 1}),
    ("window_time_count", "NSNsC", {"n": 2}),
    ("window_time_count", "NNsNSNC", {"n": 2}),
    ("window_time", "NSNSNC", {"shift": 2.0}),
    ("window_time", "sNSsNC", {"shift": 0.5}),
]
# round 6: a slow consumer - the probe blocks (fake clock) inside one call, in particular inside the delivery of the very
# first window, which the operators make at subscribe time on the subscribing thread: is a timer already armed then?
_WINDOW_SLEEP = [
    ("window_time", "NSNC", {"shift": None, "probe_sleep": [0, 1.5]}),
    ("window_time", "NC", {"shift": 0.5, "probe_sleep": [0, 1.5]}),
    ("window_time_count", "NSNC", {"n": 2, "probe_sleep": [0, 1.5]}),
    ("window_time", "NSNSC", {"shift": None, "probe_sleep": [1, 0.5]}),
]
_WINDOW_EXTRA_THOROUGH = [
    ("window_time_count", "SNsC", {"n": 1}),
    ("window_time_count", "NNNsNSE", {"n": 3}),
    ("window_time_count", "sNsNsNSC", {"n": 2}),
    ("window_time", "NsNSNsNC", {"shift": 2.0}),
    ("window_time", "SNSNE", {"shift": 2.0}),
    ("window_time", "NsNsNsNC", {"shift": 0.5}),
]


def _window_extra(items):
    for op, prog, extra in items:
        yield op, [prog], dict(extra)


def _nested3(outers=(("IIIE", 3), ("IIIC", 0)), forms=("merge_all", "merge_max"), ns=(2,)):
    """three inner sources + the outer one = four racing source threads"""
    for op in forms:
        for srcs in _TRIPLES:
            for outer, pre in outers:
                if op == "merge_max":
                    for n in ns:
                        yield op, srcs, {"outer": outer, "pre": pre, "n": n}
                else:
                    yield op, srcs, {"outer": outer, "pre": pre}


def _enum_k1(tier):
    """(trace focus?, K, programs).  quick stays within ~150 CPU-seconds; thorough uses the full alphabets and K=2."""
    A5, A4, A3, A2 = ["C", "E", "NC", "NE", "NNC"], ["C", "NC", "NE", "NNC"], ["C", "NC", "NE"], ["NC", "NE"]
    if tier == "quick":
        plan = [
            (True, 1, _plain(A4)),
            (True, 1, _nested(A3, forms=("merge_all", "merge_max"), outers=_OUTERS[:2])),
            (True, 1, _nested(A2, forms=("flat_map",), outers=_OUTERS[:2])),
            (True, 1, _windows(_TIMED[:4], ns=(2,))),
            (True, 1, _window_extra(_WINDOW_EXTRA)),
            (True, 1, _window_extra(_WINDOW_SLEEP)),
            (True, 1, _nested3(outers=(("IIIE", 3),), forms=("merge_all",))),
            (False, 1, _plain(A2, triples=False)),
            (False, 1, _nested(A2, outers=_OUTERS[:1], ns=(1,))),
            (False, 1, _windows(_TIMED[:1], shifts=(None,), ns=(2,))),
        ]
    else:
        plan = [
            (True, 1, _plain(A5)),
            (True, 1, _nested(A5)),
            (True, 1, _windows(_TIMED, shifts=(None, 0.5, 2.0), ns=(1, 2, 3))),
            (True, 1, _window_extra(_WINDOW_EXTRA + _WINDOW_EXTRA_THOROUGH)),
            (True, 1, _window_extra(_WINDOW_SLEEP)),
            (False, 1, _window_extra(_WINDOW_SLEEP[:3])),
            (True, 2, _windows(_TIMED[:3], ns=(2,))),
            (True, 2, _window_extra(_WINDOW_EXTRA[:3])),
            (True, 1, _nested3(forms=MERGE_ALL_FAMILY, ns=(1, 2))),
            (False, 1, _window_extra(_WINDOW_EXTRA)),
            (False, 1, _plain(A4)),
            (False, 1, _nested(A3)),
            (False, 1, _windows(_TIMED[:5])),
        ]
    for focus, K, progs in plan:
        for op, srcs, extra in progs:
            if K >= 2 and not focus or K >= 2 and op in WINDOW_FAMILY:
                for i in range(8):
                    yield _case(op, srcs, conc.sched_all(K, [i, 8]), focus, **extra)
            else:
                yield _case(op, srcs, conc.sched_all(K), focus, **extra)


def _enum_k2(tier):
    """Two preemptions (focus trace): needed where a downstream call only happens once BOTH sources have emitted
    (zip, combine_latest, with_latest_from) or where the first racing step is a decision (amb): with one preemption the
    preempting thread always runs to its end, so the two sources are never both in the middle of an emission."""
    if tier == "quick":
        progs = [(op, srcs, {}) for op in ("zip", "combine_latest", "with_latest_from", "with_latest_from_rev", "amb") for srcs in (["NNC", "NNC"], ["NNE", "NNC"])]
        m = 4
    else:
        progs = list(_plain(["NC", "NE", "NNC", "NNE"]))
        progs += list(_nested(["NC", "NE"], outers=_OUTERS[:2], ns=(1,)))
        m = 8
    for op, srcs, extra in progs:
        for i in range(m):
            yield _case(op, srcs, conc.sched_all(2, [i, m]), True, **extra)


_untimed = st.builds(lambda n, t: "N" * n + t, st.integers(0, 3), st.sampled_from("CE"))
_timed = st.lists(st.sampled_from(["N", "N", "S", "s"]), min_size=1, max_size=6).flatmap(
    lambda body: st.sampled_from("CE").map(lambda t: "".join(body) + t)
)


def _gen_for(op):
    base = {"op": st.just(op), "focus": st.sampled_from([False, False, True]), "sched": conc.sched_walks(3)}
    if op in WINDOW_FAMILY:
        base["srcs"] = st.lists(_timed, min_size=1, max_size=1)
        base["probe_sleep"] = st.one_of(st.none(), st.none(), st.tuples(st.integers(0, 2), st.sampled_from([0.5, 1.5])).map(list))
        if op == "window_time":
            base["shift"] = st.sampled_from([None, 0.5, 2.0])
        else:
            base["n"] = st.integers(1, 3)
        return st.fixed_dictionaries(base)
    if op in MERGE_ALL_FAMILY:
        return st.integers(2, 3).flatmap(
            lambda m: st.fixed_dictionaries(
                dict(
                    base,
                    srcs=st.lists(_untimed, min_size=m, max_size=m),
                    outer=st.sampled_from("CE").map(lambda t: "I" * m + t),
                    pre=st.integers(0, m),
                    **({"n": st.integers(1, 2)} if op == "merge_max" else {}),
                )
            )
        )
    n_max = 2 if op == "amb" else 3
    base["srcs"] = st.lists(_untimed, min_size=2, max_size=n_max)
    return st.fixed_dictionaries(base)


_gen = st.sampled_from(FORMS).flatmap(_gen_for)


def checks(tier):
    return [
        Check("enum-k1", run, cases=lambda tier: conc.scaled(_enum_k1(tier), tier), shards={"quick": 8, "thorough": 16}, exhaustive=True),
        Check("enum-k2", run, cases=lambda tier: conc.scaled(_enum_k2(tier), tier), shards={"quick": 8, "thorough": 16}, exhaustive=True),
        Check("gen", run, strategy=_gen, examples={"quick": 400, "thorough": 16 * 3000}, shards={"quick": 8, "thorough": 16}),
    ]
