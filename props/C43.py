"""C43 Combinators serialize concurrently emitting sources (Engine DET)."""
from __future__ import annotations

import itertools

from hypothesis import strategies as st

from vlib import conc, det
from vlib.core import Check, HarnessError

PROPERTY_ID = "C43"
LEVEL = "exploration"
RULE = (
    "2-3 source threads, each pushing a conforming sequence ('N'* then 'C' or 'E', <=3 elements) serially into its own "
    "Subject; the subjects are combined by reactivex.merge / ops.merge, merge_all, flat_map and merge(max_concurrent=n) "
    "(thread 0 is the OUTER source emitting the inner subjects 'I'* then 'C'/'E'; `pre` of its emissions are done before "
    "the run), reactivex.zip / ops.zip, combine_latest (both forms), with_latest_from (parent = first or last source), "
    "ops.amb / reactivex.amb, and by "
    "window_with_time / window_with_time_or_count (one source thread that also sleeps 'S'=1 timespan / 's'=half a "
    "timespan on the fake clock, racing the operator's timer threads started through the patched TimeoutScheduler; the "
    "probe subscribes to every window with a child probe). One downstream probe (plus one per window) yields inside every "
    "callback and records the calls in flight. Engine DET (vlib/det.py) runs the real code with line-level yield points "
    "('full': every reactivex line; 'focus': the operator's own files + autodetachobserver.py + internal/concurrency.py "
    "+ every lock operation + probe yields). enum-k1: every schedule with <=1 preemption for all 2-source programs over "
    "{C,NC,NE,NNC} (+3 three-source programs) per plain operator form, over {C,NC,NE} x outer {IIE pre 2, IIC pre 0} for "
    "merge_all/merge(max_concurrent=1|2), 4 timed programs per window operator (focus), and over {NC,NE} for every form "
    "(full); thorough: full alphabets {C,E,NC,NE,NNC}, all four outer variants, 10 timed programs; enum-k2: every schedule with <=2 preemptions "
    "(focus) for zip/combine_latest/with_latest_from/amb on NNC|NNC and NNE|NNC (thorough: all forms over {NC,NE,NNC,NNE}); gen: generated programs "
    "with a drawn descent of <=3 effective preemptions, every prefix schedule judged too. Oracle, every run, every probe: "
    "no callback starts while a callback of ANOTHER thread is in flight on the same probe (same-thread re-entrancy is not "
    "counted); the calls in entry order match N*(E|C)? (both reported under the one signature 'unserialized|<operator>': "
    "behind AutoDetachObserver a grammar violation can only arise from two threads inside the downstream observer at "
    "once); no deadlock; no escaped exception (signature names the file:function that raised). Nothing is demanded about "
    "WHICH values arrive. Non-trivial: in some explored run a thread executed a step inside its own emission (or a "
    "timer thread ran operator code) strictly between the entry and the return of another source's emission. "
    "Distinct = distinct case JSON."
)
ASSUMPTIONS = [
    "each source emits serially from its own thread and obeys the grammar (the Rx contract); only different sources (and operator timers) race",
    "the outer sequence of merge_all/flat_map/merge(max_concurrent) counts as one of the operator's sources",
    "subscription happens before the run (window operators: at the start of the source thread, because subscribing starts a timer thread)",
    "CPython GIL-build atomicity: a source line is the unit of interleaving; locks/timers/threads are the cooperative replacements of vlib/det.py",
    "bounds: <=3 sources, <=3 elements per source, exhaustive <=1 preemption everywhere and <=2 on the listed programs, <=3 drawn",
    "lost or misrouted values (e.g. an inner source left in merge(max_concurrent)'s queue) are outside this property's statement and not judged",
]
TIMEOUT = {"quick": 300, "thorough": 3600}

MERGE_ALL_FAMILY = ("merge_all", "flat_map", "merge_max")
WINDOW_FAMILY = ("window_time", "window_time_count")
FORMS = ("merge", "merge_op", "merge_all", "flat_map", "merge_max", "zip", "zip_op", "combine_latest", "combine_latest_op",
         "with_latest_from", "with_latest_from_rev", "amb", "amb_fn", "window_time", "window_time_count")  # fmt: skip
_FILES = {
    "merge": ["operators/_merge.py", "observable/merge.py"],
    "merge_op": ["operators/_merge.py", "observable/merge.py"],
    "merge_all": ["operators/_merge.py"],
    "flat_map": ["operators/_merge.py", "operators/_flatmap.py"],
    "merge_max": ["operators/_merge.py"],
    "zip": ["observable/zip.py"],
    "zip_op": ["observable/zip.py", "operators/_zip.py"],
    "combine_latest": ["observable/combinelatest.py"],
    "combine_latest_op": ["observable/combinelatest.py", "operators/_combinelatest.py"],
    "with_latest_from": ["observable/withlatestfrom.py", "operators/_withlatestfrom.py"],
    "with_latest_from_rev": ["observable/withlatestfrom.py", "operators/_withlatestfrom.py"],
    "amb": ["operators/_amb.py"],
    "amb_fn": ["operators/_amb.py", "observable/amb.py"],
    "window_time": ["operators/_windowwithtime.py"],
    "window_time_count": ["operators/_windowwithtimeorcount.py"],
}
CULPRIT = {
    "merge": "merge_all", "merge_op": "merge_all", "merge_all": "merge_all", "flat_map": "merge_all", "merge_max": "merge_max",
    "zip": "zip", "zip_op": "zip", "combine_latest": "combine_latest", "combine_latest_op": "combine_latest",
    "with_latest_from": "with_latest_from", "with_latest_from_rev": "with_latest_from", "amb": "amb", "amb_fn": "amb", "window_time": "window_with_time",
    "window_time_count": "window_with_time_or_count",
}  # fmt: skip


def _kw(case):
    kw = {}
    if case.get("focus"):
        d = det.reactivex_dir()
        files = _FILES[case["op"]] + ["observer/autodetachobserver.py", "internal/concurrency.py"]
        kw.update(trace=False, extra_trace=tuple(d + f for f in files))
    if case["op"] in WINDOW_FAMILY:
        kw.update(time_limit_s=60.0, max_steps=20000)
    return kw


def _build(case):
    import reactivex
    from reactivex import operators as ops
    from reactivex.subject import Subject
    from vlib.values import Tagged

    conc.fresh_thread_state()
    op, srcs = case["op"], case["srcs"]
    S = [Subject() for _ in srcs]
    outer = None
    if op in MERGE_ALL_FAMILY:
        outer = Subject()
        if op == "merge_all":
            obs = outer.pipe(ops.merge_all())
        elif op == "flat_map":
            obs = outer.pipe(ops.flat_map(lambda j: S[j]))
        else:
            obs = outer.pipe(ops.merge(max_concurrent=case["n"]))
    elif op == "merge":
        obs = reactivex.merge(*S)
    elif op == "merge_op":
        obs = S[0].pipe(ops.merge(*S[1:]))
    elif op == "zip":
        obs = reactivex.zip(*S)
    elif op == "zip_op":
        obs = S[0].pipe(ops.zip(*S[1:]))
    elif op == "combine_latest":
        obs = reactivex.combine_latest(*S)
    elif op == "combine_latest_op":
        obs = S[0].pipe(ops.combine_latest(*S[1:]))
    elif op == "with_latest_from":
        obs = S[0].pipe(ops.with_latest_from(*S[1:]))
    elif op == "with_latest_from_rev":  # the parent is the LAST source: its thread comes after the children's in the default order
        obs = S[-1].pipe(ops.with_latest_from(*S[:-1]))
    elif op == "amb":
        obs = S[0].pipe(ops.amb(S[1]))
    elif op == "amb_fn":
        obs = reactivex.amb(*S)
    elif op == "window_time":
        obs = S[0].pipe(ops.window_with_time(1.0, case.get("shift")))
    elif op == "window_time_count":
        obs = S[0].pipe(ops.window_with_time_or_count(1.0, case["n"]))
    else:
        raise HarnessError(f"bad op {op}")
    windows = op in WINDOW_FAMILY
    probe = conc.Probe("out", window_factory=(lambda parent, k: conc.Probe(f"win{k}")) if windows else None)
    if not windows:
        obs.subscribe(probe)
    for s in S + ([outer] if outer is not None else []):
        bad = det.audit_object(s)
        if bad:
            raise HarnessError(f"object under test carries real locks: {bad}")

    def emit(subj, t, j, tok, nxt):
        if tok == "S" or tok == "s":
            det.CEvent().wait(1.0 if tok == "S" else 0.5)
            return
        det.log("emit", t, j)
        if tok == "N":
            subj.on_next(t * 10 + j)
        elif tok == "I":
            subj.on_next(nxt)
        elif tok == "E":
            subj.on_error(Tagged(f"e{t}"))
        elif tok == "C":
            subj.on_completed()
        else:
            raise HarnessError(f"bad token {tok}")
        det.log("emit-ret", t, j)

    def source_thread(t, subj, prog, first=0):
        def body():
            if windows:
                det.log("subscribe")
                obs.subscribe(probe)
                det.log("subscribe-ret")
            for j in range(first, len(prog)):
                emit(subj, t, j, prog[j], inner_of(prog, j))

        return body

    def inner_of(prog, j):
        k = prog[: j + 1].count("I") - 1
        if prog[j] != "I":
            return None
        return k if op == "flat_map" else S[k]

    threads = []
    if outer is not None:
        prog = case["outer"]
        pre = case.get("pre", 0)
        for j in range(pre):  # free mode, before the run
            emit(outer, 0, j, prog[j], inner_of(prog, j))
        threads.append(source_thread(0, outer, prog, pre))
        threads += [source_thread(i + 1, S[i], p) for i, p in enumerate(srcs)]
    else:
        threads += [source_thread(i, S[i], p) for i, p in enumerate(srcs)]
    return threads, {"probes": [probe], "nprog": len(threads), "case": case}


def _judge(ctx, res):
    if res.deadlock:
        return "deadlock", repr(res.deadlock)
    for tid, e in sorted(res.exceptions.items()):
        where = conc.innermost_library_file(e)
        # the root cause of an escaped exception is where it was raised (e.g. Subject's InnerSubscription), not the combinator
        return f"escaped:{type(e).__name__}", f"thread {tid} ({res.names.get(tid)}): {e!r} raised in {where}", where or CULPRIT[ctx["case"]["op"]]
    for p in ctx["probes"][0].all_probes():
        if p.overlaps:
            kind, tid, others = p.overlaps[0]
            pair = "+".join(sorted([kind] + [k for k, _ in others]))
            return "unserialized", f"overlap: probe {p.name}: [{pair}] {kind} from thread {tid} started while {others} (kind, tid) in flight; calls so far {p.kinds()!r}"
        if not p.grammar_ok():
            # every probe sits behind an AutoDetachObserver, which swallows a SEQUENTIAL second terminal / late on_next; a
            # grammar violation at the probe therefore means two threads were inside that gate at once: same root cause
            return "unserialized", f"grammar: probe {p.name} saw {p.kinds()!r} (values {[e[1] for e in p.events]}, tids {[e[2] for e in p.events]})"
    return None


def _nontrivial(ctx, res):
    nprog = ctx["nprog"]
    iv, open_ = {}, {}
    for step, tid, pl in res.events:
        if isinstance(pl, tuple) and pl and pl[0] == "emit":
            open_[tid] = step - 1
        elif isinstance(pl, tuple) and pl and pl[0] == "emit-ret" and tid in open_:
            iv.setdefault(tid, []).append((open_.pop(tid), step - 1))
    for tid, a in open_.items():
        iv.setdefault(tid, []).append((a, res.steps))
    for t, lst in iv.items():
        for a, b in lst:
            for s in range(max(a, 0), min(b, res.steps)):
                o = res.owners[s]
                if o == t:
                    continue
                if o >= nprog:
                    if res.labels[s] not in ("start", "event-wait"):
                        return True
                elif any(x <= s < y for x, y in iv.get(o, ())):
                    return True
    return False


def _classes(ctx, res):
    case = ctx["case"]
    probes = ctx["probes"][0].all_probes()
    cl = ["op:" + case["op"], f"T{ctx['nprog']}", "trace:" + ("focus" if case.get("focus") else "full")]
    k = probes[0].kinds()
    cl.append("out:" + ("empty" if not k else ("N+" if "N" in k else "") + (k[-1] if k[-1] in "EC" else "open")))
    if len(probes) > 1:
        cl.append(f"windows:{min(len(probes) - 1, 4)}")
        if any("N" in p.kinds() for p in probes[1:]):
            cl.append("window-got-N")
    if res.horizon_reached:
        cl.append("horizon")
    if res.nthreads > ctx["nprog"]:
        cl.append("timer-threads")
    return cl


def run(case):
    return conc.drive(case, lambda: _build(case), _judge, culprit=CULPRIT[case["op"]], kw=_kw(case), nontrivial=_nontrivial, classes=_classes)


# ---------------------------------------------------------------------------------------------
# case spaces
# ---------------------------------------------------------------------------------------------
def _case(op, srcs, sched, focus, **extra):
    d = {"op": op, "srcs": list(srcs), "focus": focus, "sched": sched}
    d.update(extra)
    return d


_TIMED = ["NSNC", "SNC", "NsNC", "NSE", "NSC", "NsNsNC", "SNSNE", "NNSNC", "sNsNSC", "SSC"]
_PLAIN = tuple(f for f in FORMS if f not in MERGE_ALL_FAMILY + WINDOW_FAMILY)
_TRIPLES = [["NC", "NC", "NE"], ["NC", "E", "NC"], ["NNC", "NC", "C"]]
_OUTERS = (("IIE", 2), ("IIC", 0), ("IIC", 2), ("IIE", 1))


def _pairs(alpha):
    return [list(p) for p in itertools.product(alpha, repeat=2)]


def _plain(alpha, triples=True):
    for op in _PLAIN:
        for srcs in _pairs(alpha):
            yield op, srcs, {}
        if triples and op != "amb":
            for srcs in _TRIPLES:
                yield op, srcs, {}


def _nested(alpha, forms=MERGE_ALL_FAMILY, outers=_OUTERS, ns=(1, 2)):
    for op in forms:
        for srcs in _pairs(alpha):
            for outer, pre in outers:
                if op == "merge_max":
                    for n in ns:
                        yield op, srcs, {"outer": outer, "pre": pre, "n": n}
                else:
                    yield op, srcs, {"outer": outer, "pre": pre}


def _windows(timed, shifts=(None, 0.5), ns=(1, 2)):
    for prog in timed:
        for shift in shifts:
            yield "window_time", [prog], {"shift": shift}
        for n in ns:
            yield "window_time_count", [prog], {"n": n}


def _enum_k1(tier):
    """(trace focus?, K, programs).  quick stays within ~150 CPU-seconds; thorough uses the full alphabets and K=2."""
    A5, A4, A3, A2 = ["C", "E", "NC", "NE", "NNC"], ["C", "NC", "NE", "NNC"], ["C", "NC", "NE"], ["NC", "NE"]
    if tier == "quick":
        plan = [
            (True, 1, _plain(A4)),
            (True, 1, _nested(A3, forms=("merge_all", "merge_max"), outers=_OUTERS[:2])),
            (True, 1, _nested(A2, forms=("flat_map",), outers=_OUTERS[:2])),
            (True, 1, _windows(_TIMED[:4], ns=(2,))),
            (False, 1, _plain(A2, triples=False)),
            (False, 1, _nested(A2, outers=_OUTERS[:1], ns=(1,))),
            (False, 1, _windows(_TIMED[:1], shifts=(None,), ns=(2,))),
        ]
    else:
        plan = [
            (True, 1, _plain(A5)),
            (True, 1, _nested(A5)),
            (True, 1, _windows(_TIMED)),
            (True, 2, _windows(_TIMED[:3], ns=(2,))),
            (False, 1, _plain(A4)),
            (False, 1, _nested(A3)),
            (False, 1, _windows(_TIMED[:5])),
        ]
    for focus, K, progs in plan:
        for op, srcs, extra in progs:
            if K >= 2 and not focus or K >= 2 and op in WINDOW_FAMILY:
                for i in range(8):
                    yield _case(op, srcs, conc.sched_all(K, [i, 8]), focus, **extra)
            else:
                yield _case(op, srcs, conc.sched_all(K), focus, **extra)


def _enum_k2(tier):
    """Two preemptions (focus trace): needed where a downstream call only happens once BOTH sources have emitted
    (zip, combine_latest, with_latest_from) or where the first racing step is a decision (amb): with one preemption the
    preempting thread always runs to its end, so the two sources are never both in the middle of an emission."""
    if tier == "quick":
        progs = [(op, srcs, {}) for op in ("zip", "combine_latest", "with_latest_from", "with_latest_from_rev", "amb") for srcs in (["NNC", "NNC"], ["NNE", "NNC"])]
        m = 4
    else:
        progs = list(_plain(["NC", "NE", "NNC", "NNE"]))
        progs += list(_nested(["NC", "NE"], outers=_OUTERS[:2], ns=(1,)))
        m = 8
    for op, srcs, extra in progs:
        for i in range(m):
            yield _case(op, srcs, conc.sched_all(2, [i, m]), True, **extra)


_untimed = st.builds(lambda n, t: "N" * n + t, st.integers(0, 3), st.sampled_from("CE"))
_timed = st.lists(st.sampled_from(["N", "N", "S", "s"]), min_size=1, max_size=6).flatmap(
    lambda body: st.sampled_from("CE").map(lambda t: "".join(body) + t)
)


def _gen_for(op):
    base = {"op": st.just(op), "focus": st.sampled_from([False, False, True]), "sched": conc.sched_walks(3)}
    if op in WINDOW_FAMILY:
        base["srcs"] = st.lists(_timed, min_size=1, max_size=1)
        if op == "window_time":
            base["shift"] = st.sampled_from([None, 0.5, 2.0])
        else:
            base["n"] = st.integers(1, 3)
        return st.fixed_dictionaries(base)
    if op in MERGE_ALL_FAMILY:
        return st.integers(2, 3).flatmap(
            lambda m: st.fixed_dictionaries(
                dict(
                    base,
                    srcs=st.lists(_untimed, min_size=m, max_size=m),
                    outer=st.sampled_from("CE").map(lambda t: "I" * m + t),
                    pre=st.integers(0, m),
                    **({"n": st.integers(1, 2)} if op == "merge_max" else {}),
                )
            )
        )
    n_max = 2 if op == "amb" else 3
    base["srcs"] = st.lists(_untimed, min_size=2, max_size=n_max)
    return st.fixed_dictionaries(base)


_gen = st.sampled_from(FORMS).flatmap(_gen_for)


def checks(tier):
    return [
        Check("enum-k1", run, cases=lambda tier: conc.scaled(_enum_k1(tier), tier), shards={"quick": 8, "thorough": 16}, exhaustive=True),
        Check("enum-k2", run, cases=lambda tier: conc.scaled(_enum_k2(tier), tier), shards={"quick": 8, "thorough": 16}, exhaustive=True),
        Check("gen", run, strategy=_gen, examples={"quick": 400, "thorough": 16 * 3000}, shards={"quick": 8, "thorough": 16}),
    ]
