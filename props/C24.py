"""C24 Multicasting shares one source subscription per connection (engine HIST on the virtual-time lab).

A case is a history (JSON command list) executed against ONE multicast observable built over one logged
cold / synchronous-cold / hot source, and against an explicit Python model (connection flag + subject model +
ref-count / auto-connect counter + a tiny virtual scheduler).  After every `adv` command the source's
subscription log and every subscriber's timed trace are compared with the model.
"""
from __future__ import annotations

import heapq
import itertools

from hypothesis import strategies as st

from reactivex import Observable
from reactivex import operators as ops
from reactivex.disposable import CompositeDisposable
from reactivex.subject import AsyncSubject, BehaviorSubject, ReplaySubject, Subject

from vlib.core import FAIL, OK, SKIP, Check, HarnessError
from vlib.lab import Lab, Probe, timelines
from vlib.values import canon, val

PROPERTY_ID = "C24"
LEVEL = "exploration"
RULE = (
    "Generated histories (2..16 commands quick, ..22 thorough; indices resolved modulo the objects created so far) of "
    "sub[plain | take(k): completes and unsubscribes inside its k-th on_next | kill(k, j): unsubscribes subscriber j, possibly itself, "
    "from inside its k-th on_next | spawn(k): subscribes a new plain subscriber from inside its k-th on_next] / unsub(i) / conn / disc(i) / adv(dt>=1) over one multicast observable built on a logged cold, synchronous-cold "
    "or hot virtual-time source (<=5 values, gaps 0..3, ending in C / E / nothing) on a TestScheduler or a HistoricalScheduler (datetime clock). Forms: check `connectable` = "
    "publish(), replay(buffer 0..3|None, window 0..5|None, scheduler=lab), publish_value(v), multicast(Subject | "
    "BehaviorSubject | ReplaySubject | AsyncSubject) driven by explicit connect()/dispose of ANY previously returned "
    "connection (stale ones included); check `refcount` = share() and ref_count() on each of those connectables; check "
    "`autoconnect` = auto_connect(0..3) on each; in a third of the refcount/autoconnect cases explicit connect() calls on the underlying "
    "connectable are mixed into the history (never an explicit dispose); check `mapper` = publish(mapper), replay(mapper=), publish_value(v, "
    "mapper), multicast(subject_factory=, mapper=) with mapper in {identity, use-the-connectable-twice, use-it-at-once-and-again-d=1..4-ticks-later}; check `enum` = "
    "ALL histories of length <= 5 (thorough; quick: <= 3, and 4 over the cold source) over a fixed alphabet for 11 forms x 3 sources; "
    "check `enum_reentrant` = ALL histories of length <= 5 (thorough; quick <= 3, and 4 for share over the cold source) with >= 2 "
    "subscribers, one of them take(1)/kill/spawn, for 6 forms x 2 sources. Oracle = "
    "independent model: one source subscription per effective connect, open from the connect tick to the tick of the "
    "disconnect or of the source's terminal; connect while connected is a no-op whose returned handle disconnects the "
    "same connection; ref_count/share connect at count 0->1 and disconnect at ->0; auto_connect(n) connects at the "
    "n-th subscriber (n=0 at creation) and never disconnects; mapper forms own one source subscription per subscriber "
    "however often the mapper uses the connectable; each subscriber's [tick, kind, value] trace = what the subject "
    "model (plain / current value / replay buffer+window / last value) delivers from its subscription until its "
    "unsubscription; one notification is delivered to the snapshot of the subscribers at the start of the delivery, skipping "
    "those unsubscribed earlier during the same delivery (every other subscriber must still get it); a take(k) subscriber gets "
    "exactly k elements then completion and leaves the subject / decrements the ref-count at that instant; a subscriber created inside a "
    "delivery gets nothing of that delivery from a plain subject, the element exactly once as current/replayed value from publish_value/replay; "
    "with mixed explicit connects there is still one connection: the wrapper's connect is a no-op on it and ref_count's ->0 edge disconnects it. "
    "Non-trivial: >=2 subscribe commands and (>=2 source subscriptions of the one connectable, i.e. a "
    "reconnect after a disconnect, or a subscribe and an effective unsubscribe at the same virtual instant, or an unsubscription "
    "from inside a delivery while a later subscriber of the snapshot stays subscribed). "
    "Distinct = distinct case JSON."
)
ASSUMPTIONS = [
    "subscribers never raise (C02's business); from inside on_next they may unsubscribe themselves (take(k), kill) or another subscriber (kill) or "
    "subscribe a new plain subscriber (spawn); source timelines conform to the grammar",
    "unsubscribing a subscriber whose subscribe() call has not returned yet (possible only from inside a synchronous emission) takes effect when that call returns",
    "after the source terminated the connection still counts as connected until it is disposed (what connect() does here and in Rx.NET); "
    "a model variant that resets the flag at termination (RxJS) is accepted as well and counted in class alt_only",
    "auto_connect(n): the library counts *concurrent* subscribers (the counter is decremented on unsubscribe); the docstring reading "
    "'after that many subscriptions occur' (cumulative, RxJava) is accepted as well; histories where the two differ are counted in class variants_differ",
    "a zero-length source subscription made for a ref_count subscriber that found the subject already terminated is optional "
    "(RxJS skips it); everything else in the source log is compared exactly",
    "a subscriber unsubscribed while replayed/buffered items are still queued on the replay scheduler for the current instant may have received "
    "any part of them; the library delivers none",
    "explicit connect() may be mixed with ref_count/auto_connect on the same connectable, an explicit dispose of the connection may not "
    "(who owns a connection that was re-made behind ref_count's back, or whether auto_connect re-connects, is not defined by the property text)",
    "the late second subscription of the late mapper sees exactly what a subscriber of replay(buffer, window) / publish_value / publish arriving at that tick sees "
    "(replayed items still inside buffer and window, current value, nothing), then the live elements, i.e. every live element twice from then on",
    "for the use-twice and late mappers the N events of one instant are compared as a multiset (cross-subscription interleaving on the replay scheduler is not specified)",
    "cases with >=90 actions at one virtual instant are discarded as inconclusive and counted",
]

VALS = ["none", "i0", "false", "s", "i1", "i2", "i3", "sa", "sb", "t1"]
SUBJ_OF = {
    "publish": "subject",
    "share": "subject",
    "replay": "replay",
    "publish_value": "behavior",
    "mc_subject": "subject",
    "mc_behavior": "behavior",
    "mc_replay": "replay",
    "mc_async": "async",
}


# =======================================================================================
# the model


class _MS:
    """Model scheduler: FIFO among equal ticks; advance(to) runs everything due <= to."""

    def __init__(self):
        self.now = 0
        self.seq = 0
        self.heap = []
        self.work = 0

    def schedule(self, tick, fn):
        self.seq += 1
        heapq.heappush(self.heap, (tick, self.seq, fn))

    def advance(self, to):
        while self.heap and self.heap[0][0] <= to:
            t, _, fn = heapq.heappop(self.heap)
            if t > self.now:
                self.now = t
            self.work += 1
            if self.work > 100000:
                raise HarnessError("model runaway")
            fn()
        self.now = to


class _SrcSub:
    def __init__(self, src, idx):
        self.src = src
        self.idx = idx
        self.closed = False
        self.stopped = False

    def close(self):
        if not self.closed:
            self.closed = True
            self.src.log[self.idx][1] = self.src.ms.now


class _MSrc:
    """Logged source model. log = [[sub_tick, unsub_tick|None, optional], ...]"""

    def __init__(self, ms, kind, tl):
        self.ms = ms
        self.kind = kind
        self.tl = tl
        self.log = []
        self.hot_obs = []
        if kind == "hot":
            for t, k, p in tl:
                ms.schedule(t, self._hot(k, p))

    def _hot(self, k, p):
        def fire():
            for s, f in list(self.hot_obs):
                f(k, p)

        return fire

    def subscribe(self, cb, optional=False):
        ms = self.ms
        s = _SrcSub(self, len(self.log))
        self.log.append([ms.now, None, optional])

        def fire(k, p):
            # the auto-detaching subscription between the source and the subject
            if s.closed or s.stopped:
                return
            if k == "N":
                cb(k, p)
            else:
                s.stopped = True
                cb(k, p)
                s.close()

        if self.kind == "hot":
            self.hot_obs.append((s, fire))
        else:
            for t, k, p in self.tl:
                if self.kind == "sync" and t == 0:
                    fire(k, p)
                else:
                    ms.schedule(ms.now + t, lambda k=k, p=p: fire(k, p))
        return s


class _SO:
    """Per-subscriber delivery queue of the replay subject: items are handed over by scheduler actions at the same tick."""

    def __init__(self, ms, down):
        self.ms = ms
        self.down = down
        self.queue = []
        self.acquired = False
        self.stopped = False

    def put(self, k, p):
        if self.stopped:
            return
        if k != "N":
            self.stopped = True
        self.queue.append((k, p))

    def ensure_active(self):
        if self.queue and not self.acquired:
            self.acquired = True
            self.ms.schedule(self.ms.now, self.run)

    def run(self):
        if not self.queue:
            self.acquired = False
            return
        k, p = self.queue.pop(0)
        self.down(k, p)
        self.ms.schedule(self.ms.now, self.run)


class _Direct:
    def __init__(self, down):
        self.put = down


class _Subj:
    def __init__(self, ms, kind, buf=None, win=None, init=None):
        self.ms = ms
        self.kind = kind
        self.buf = buf
        self.win = win
        self.value = init
        self.has_value = False
        self.queue = []  # replay: [(tick, payload)]
        self.observers = []
        self.stopped = False
        self.term = None
        self.stats = set()
        self.nremoved = 0

    def _retained(self):
        items = self.queue
        if self.buf is not None:
            items = items[-self.buf:] if self.buf > 0 else []
        if self.win is not None:
            items = [(t, v) for t, v in items if self.ms.now - t <= self.win]
            if any(self.ms.now - t == self.win for t, v in items):
                self.stats.add("replay_window_boundary_retained")
            if self.win == 0 and self.queue:
                self.stats.add("replay_window_zero")
        if items:
            self.stats.add("replay_nonempty")
            if len(items) < len(self.queue):
                self.stats.add("replay_strict_subset")
        return [v for _, v in items]

    def subscribe(self, down, ep=None):
        if self.stopped:
            self.stats.add("sub_after_terminal")
        if self.kind == "replay":
            so = _SO(self.ms, down)
            if ep is not None:
                ep.sos.append(so)
            self.observers.append(so)
            for v in self._retained():
                so.put("N", v)
            if self.stopped:
                so.put(*self.term)
            so.ensure_active()
            return so
        if not self.stopped:
            ob = _Direct(down)
            self.observers.append(ob)
            if self.kind == "behavior":
                down("N", self.value)
            return ob
        if self.term[0] == "E":
            down(*self.term)
        elif self.kind == "async" and self.has_value:
            down("N", self.value)
            down("C", None)
        else:
            down("C", None)
        return None

    def unsubscribe(self, tok):
        if tok is not None and tok in self.observers:
            self.observers.remove(tok)
            self.nremoved += 1

    def on_event(self, k, p):
        if self.stopped:
            return
        if k == "N":
            if self.kind == "async":
                self.value = p
                self.has_value = True
                return
            if self.kind == "behavior":
                self.value = p
            if self.kind == "replay":
                self.queue.append((self.ms.now, p))
            # delivery rule: snapshot of the subscribers at the start of the delivery; a subscriber unsubscribed
            # earlier during the same delivery is skipped (its endpoint is stopped), everybody else gets the element
            obs = list(self.observers)
            for i, o in enumerate(obs):
                before = self.nremoved
                o.put("N", p)
                if self.nremoved != before and any(x in self.observers for x in obs[i + 1:]):
                    self.stats.add("unsub_in_delivery_before_later_subscriber")
        else:
            self.stopped = True
            self.term = (k, p)
            obs = list(self.observers)
            self.observers.clear()
            for o in obs:
                if k == "C" and self.kind == "async" and self.has_value:
                    o.put("N", self.value)
                o.put(k, p)
        if self.kind == "replay":
            for o in obs:
                o.ensure_active()


class _Connection:
    def __init__(self, conn):
        self.conn = conn
        self.disposed = False
        self.sub = None
        self.origin = "explicit"

    def dispose(self, by="explicit"):
        if self.disposed:
            return
        if by == "wrapper" and self.origin == "explicit":
            self.conn.stats.add("mix_refcount_disposed_explicit_connection")
        self.disposed = True
        if self.sub is None:
            raise HarnessError("model: connection disposed while its connect() is still running")
        self.sub.close()
        if self.conn.cur is self:
            self.conn.connected = False


class _Conn:
    def __init__(self, ms, src, subj, reset_on_term=False):
        self.ms = ms
        self.src = src
        self.subj = subj
        self.reset_on_term = reset_on_term
        self.connected = False
        self.cur = None
        self.noop_connects = 0
        self.connects_after_term = 0
        self.stats = set()

    def connect(self, optional=False, origin="explicit"):
        if self.connected:
            self.noop_connects += 1
            if self.cur.sub is not None and self.cur.sub.stopped:  # sub is None while the connect itself is still running
                self.connects_after_term += 1
            if origin == "wrapper" and self.cur.origin == "explicit":
                self.stats.add("mix_wrapper_connect_noop_on_explicit_connection")
            if origin == "explicit" and self.cur.origin == "wrapper":
                self.stats.add("mix_explicit_connect_noop_on_wrapper_connection")
            return self.cur
        self.connected = True
        c = _Connection(self)
        c.origin = origin
        self.cur = c

        def on_event(k, p):
            self.subj.on_event(k, p)
            if k != "N" and self.reset_on_term and self.cur is c:
                self.connected = False

        c.sub = self.src.subscribe(on_event, optional)
        return c


class _EP:
    """Model of one subscriber (probe + its auto-detaching subscription)."""

    def __init__(self, ms):
        self.ms = ms
        self.trace = []
        self.stopped = False
        self.in_subscribe = False
        self.pending_detach = False
        self.disposer = None
        self.disposed = False
        self.user_disposed = False
        self.sos = []
        self.lenient = None
        self.sub_instant = None
        self.take = None  # k: completes (and unsubscribes) synchronously inside its k-th on_next
        self.kill = None  # (k, j, model): unsubscribes subscriber j from inside its k-th on_next
        self.spawn = None  # (k, model): subscribes a new plain subscriber from inside its k-th on_next
        self.nn = 0
        self.pending_user_dispose = False

    def emit(self, k, p):
        if self.stopped:
            return
        self.trace.append([self.ms.now, k, p])
        if k != "N":
            self._terminated()
            return
        self.nn += 1
        if self.take is not None and self.nn == self.take:
            self.trace.append([self.ms.now, "C", None])
            self._terminated()
        if self.kill is not None and self.nn == self.kill[0]:
            model = self.kill[2]
            model.stats.add("kill_fired")
            model.unsub(self.kill[1] % len(model.eps))
        if self.spawn is not None and self.nn == self.spawn[0]:
            model = self.spawn[1]
            model.stats.add("spawn_in_own_subscribe" if self.in_subscribe else "spawn_in_delivery")
            model.sub(("sub",))

    def _terminated(self):
        self.stopped = True
        if self.in_subscribe:
            self.pending_detach = True
        else:
            self.dispose()

    def dispose(self):
        if not self.disposed:
            self.disposed = True
            if self.disposer is not None:
                self.disposer()


class _RC:
    def __init__(self, conn, variant):
        self.conn = conn
        self.count = 0
        self.handle = None
        self.connected_once = False

    def subscribe(self, ep):
        conn = self.conn
        self.count += 1
        was_stopped = conn.subj.stopped
        should_connect = self.count == 1  # decided by the arrival itself, not by what its first delivery triggers
        tok = conn.subj.subscribe(ep.emit, ep)
        if should_connect:
            self.handle = conn.connect(optional=was_stopped, origin="wrapper")

        def dispose():
            conn.subj.unsubscribe(tok)
            self.count -= 1
            if self.count == 0 and self.handle is not None:
                self.handle.dispose(by="wrapper")

        ep.disposer = dispose


class _AC:
    def __init__(self, conn, n, cumulative):
        self.conn = conn
        self.n = n
        self.cumulative = cumulative
        self.count = 0
        self.arrivals = 0
        if n == 0:
            conn.connect(origin="wrapper")

    def subscribe(self, ep):
        conn = self.conn
        self.count += 1
        self.arrivals += 1
        should_connect = (self.arrivals if self.cumulative else self.count) == self.n  # decided by the arrival itself
        tok = conn.subj.subscribe(ep.emit, ep)
        if should_connect:
            conn.connect(origin="wrapper")  # no-op once connected: the connection is never disposed

        def dispose():
            conn.subj.unsubscribe(tok)
            self.count -= 1

        ep.disposer = dispose


def _mk_subj(ms, form):
    kind = SUBJ_OF[form["base"]]
    init = canon(val(form["init"])) if kind == "behavior" else None
    return _Subj(ms, kind, form.get("buf"), form.get("win"), init)


class _Model:
    def __init__(self, case, reset=False, cumulative=False):
        form = case["form"]
        self.form = form
        self.ms = _MS()
        s = case["src"]
        tl = [[t, k, (canon(val(p)) if k == "N" else (["exc", p] if k == "E" else None))] for t, k, p in s["tl"]]
        self.src = _MSrc(self.ms, s["kind"], tl)
        self.mapper = form.get("mapper")
        self.wrap = form.get("wrap") or ("ref_count" if form["base"] == "share" else None)
        self.eps = []
        self.handles = []
        self.instant = 0
        self.stats = set()
        self.subjects = []
        self.conn = None
        if not self.mapper:
            subj = _mk_subj(self.ms, form)
            self.subjects.append(subj)
            self.conn = _Conn(self.ms, self.src, subj, reset_on_term=reset)
            if self.wrap == "ref_count":
                self.w = _RC(self.conn, None)
            elif self.wrap == "auto_connect":
                self.w = _AC(self.conn, form["n"], cumulative=cumulative)
        self.mix = bool(form.get("mix")) and self.conn is not None and self.wrap is not None

    # commands ------------------------------------------------------------------------
    def sub(self, cmd=("sub",)):
        ep = _EP(self.ms)
        ep.sub_instant = self.instant
        if len(cmd) > 1 and cmd[1] == "take":
            ep.take = cmd[2]
        elif len(cmd) > 1 and cmd[1] == "kill":
            ep.kill = (cmd[2], cmd[3], self)
        elif len(cmd) > 1 and cmd[1] == "spawn":
            ep.spawn = (cmd[2], self)
        self.eps.append(ep)
        ep.in_subscribe = True
        if self.mapper:
            self._sub_mapper(ep)
        elif self.wrap is None:
            subj = self.conn.subj
            tok = subj.subscribe(ep.emit, ep)
            ep.disposer = lambda: subj.unsubscribe(tok)
        else:
            self.w.subscribe(ep)
        ep.in_subscribe = False
        if ep.pending_detach:
            ep.dispose()
        if ep.pending_user_dispose:
            self.unsub(len(self.eps) - 1 if self.eps[-1] is ep else self.eps.index(ep))

    def _sub_mapper(self, ep):
        subj = _mk_subj(self.ms, self.form)
        self.subjects.append(subj)
        conn = _Conn(self.ms, self.src, subj)
        if self.mapper == "id":
            toks = [subj.subscribe(ep.emit, ep)]
        else:
            done = [0]

            def put(k, p):
                if k == "C":
                    done[0] += 1
                    if done[0] == 2:
                        ep.emit("C", None)
                else:
                    ep.emit(k, p)

            if self.mapper == "merge2":
                toks = [subj.subscribe(put, ep), subj.subscribe(put, ep)]
            else:  # late2: the second subscription of the shared sequence is made d ticks later (scheduled before the connect)
                toks = [subj.subscribe(put, ep)]

                def late():
                    if ep.disposed or ep.stopped:
                        return
                    self.stats.add("late_sub_fired")
                    if subj.kind == "replay" and subj.win is not None:
                        by_buf = subj.queue if subj.buf is None else (subj.queue[-subj.buf:] if subj.buf else [])
                        if any(self.ms.now - t > subj.win for t, _ in by_buf):
                            self.stats.add("late_sub_window_dropped_items")
                    toks.append(subj.subscribe(put, ep))

                self.ms.schedule(self.ms.now + self.form["d"], late)
        h = conn.connect()

        def dispose():
            for t in toks:
                subj.unsubscribe(t)
            h.dispose()

        ep.disposer = dispose

    def unsub(self, k):
        ep = self.eps[k]
        if ep.in_subscribe:
            # its disposable does not exist yet (the probe disposes as soon as subscribe() returned)
            ep.pending_user_dispose = True
            self.stats.add("unsub_during_own_subscribe")
            return
        if ep.user_disposed:
            self.stats.add("unsub_twice")
            return
        ep.user_disposed = True
        if not ep.stopped:
            self.stats.add("unsub_live")
            if ep.sub_instant == self.instant:
                self.stats.add("self_same_instant")
            if any(e.sub_instant == self.instant for e in self.eps):
                self.stats.add("same_instant")
            pend = [[self.ms.now, kk, pp] for so in ep.sos for kk, pp in so.queue]
            if pend:
                ep.lenient = pend
                self.stats.add("lenient_prefix")
        else:
            self.stats.add("unsub_terminated")
        ep.stopped = True
        ep.dispose()

    def connect(self):
        if self.conn is None or (self.wrap is not None and not self.mix):
            return
        self.handles.append(self.conn.connect())

    def disc(self, i):
        if self.conn is None or self.wrap is not None:
            return
        h = self.handles[i]
        if h.disposed:
            self.stats.add("stale_disc")
        h.dispose()

    def adv(self, dt):
        self.instant += 1
        self.ms.advance(self.ms.now + dt)

    def view(self):
        return [[list(e) for e in ep.trace] for ep in self.eps], [list(x) for x in self.src.log]


# =======================================================================================
# the real thing


def _merge2(c):
    """A mapper result that uses the connectable twice (synchronously subscribing twice)."""

    def subscribe(observer, scheduler=None):
        done = [0]

        def on_completed():
            done[0] += 1
            if done[0] == 2:
                observer.on_completed()

        d1 = c.subscribe(observer.on_next, observer.on_error, on_completed, scheduler=scheduler)
        d2 = c.subscribe(observer.on_next, observer.on_error, on_completed, scheduler=scheduler)
        return CompositeDisposable(d1, d2)

    return Observable(subscribe)


def _late2(lab, d):
    """A mapper result that subscribes the connectable at once and a second time d ticks later."""

    def mapper(c):
        def subscribe(observer, scheduler=None):
            done = [0]
            comp = CompositeDisposable()

            def on_completed():
                done[0] += 1
                if done[0] == 2:
                    observer.on_completed()

            comp.add(c.subscribe(observer.on_next, observer.on_error, on_completed, scheduler=scheduler))

            def action(s, st_=None):
                comp.add(c.subscribe(observer.on_next, observer.on_error, on_completed, scheduler=scheduler))

            comp.add(lab.sched.schedule_relative(lab.rel(d), action))
            return comp

        return Observable(subscribe)

    return mapper


_MAPPERS = {"id": lambda c: c, "merge2": _merge2}


def _win(lab, form):
    w = form.get("win")
    return None if w is None else lab.rel(w)


def _real_subject(lab, form):
    kind = SUBJ_OF[form["base"]]
    if kind == "subject":
        return Subject()
    if kind == "behavior":
        return BehaviorSubject(val(form["init"]))
    if kind == "replay":
        return ReplaySubject(form.get("buf"), _win(lab, form), lab.sched)
    if kind == "async":
        return AsyncSubject()
    raise HarnessError(kind)


class _KillProbe(Probe):
    """A probe that unsubscribes subscriber j (possibly itself) from inside its k-th on_next."""

    def __init__(self, lab, name, real, k, j):
        super().__init__(lab, name)
        self._real = real
        self._k = k
        self._j = j
        self._nn = 0

    def _rec(self, kind, payload):
        super()._rec(kind, payload)
        if kind == "N":
            self._nn += 1
            if self._nn == self._k:
                self._real.unsub(self._j % len(self._real.probes))


class _SpawnProbe(Probe):
    """A probe that subscribes a new plain subscriber to the same observable from inside its k-th on_next."""

    def __init__(self, lab, name, real, k):
        super().__init__(lab, name)
        self._real = real
        self._k = k
        self._nn = 0

    def _rec(self, kind, payload):
        super()._rec(kind, payload)
        if kind == "N":
            self._nn += 1
            if self._nn == self._k:
                self._real.sub(("sub",))


class _Real:
    def __init__(self, case):
        form = case["form"]
        self.lab = lab = Lab(case.get("clock", "test"))
        self.src = src = lab.source(case["src"])
        base = form["base"]
        if form.get("mapper") == "late2":
            mp = _late2(lab, form["d"])
        else:
            mp = _MAPPERS[form["mapper"]] if form.get("mapper") else None
        self.connectable = None
        if base == "share":
            o = src.pipe(ops.share())
        elif base == "publish":
            o = src.pipe(ops.publish(mp)) if mp else src.pipe(ops.publish())
        elif base == "replay":
            if mp:
                o = src.pipe(ops.replay(form.get("buf"), _win(lab, form), mapper=mp, scheduler=lab.sched))
            else:
                o = src.pipe(ops.replay(form.get("buf"), _win(lab, form), scheduler=lab.sched))
        elif base == "publish_value":
            o = src.pipe(ops.publish_value(val(form["init"]), mp)) if mp else src.pipe(ops.publish_value(val(form["init"])))
        elif base.startswith("mc_"):
            if mp:
                o = src.pipe(ops.multicast(subject_factory=lambda sch: _real_subject(lab, form), mapper=mp))
            else:
                o = src.pipe(ops.multicast(_real_subject(lab, form)))
        else:
            raise HarnessError(base)
        wrap = form.get("wrap")
        if not mp and base != "share":
            if wrap is None or form.get("mix"):
                self.connectable = o
            if wrap is None:
                pass
            elif wrap == "ref_count":
                o = o.pipe(ops.ref_count())
            elif wrap == "auto_connect":
                if not hasattr(o, "auto_connect"):
                    raise HarnessError("no auto_connect")
                o = o.auto_connect(form["n"])
            else:
                raise HarnessError(wrap)
        self.o = o
        self.can_disc = wrap is None
        self.probes = []
        self.handles = []

    def sub(self, cmd=("sub",)):
        name = f"s{len(self.probes)}"
        o = self.o
        if len(cmd) > 1 and cmd[1] == "kill":
            p = _KillProbe(self.lab, name, self, cmd[2], cmd[3])
            self.lab.probes.append(p)
        elif len(cmd) > 1 and cmd[1] == "spawn":
            p = _SpawnProbe(self.lab, name, self, cmd[2])
            self.lab.probes.append(p)
        else:
            p = self.lab.probe(name)
            if len(cmd) > 1 and cmd[1] == "take":
                o = o.pipe(ops.take(cmd[2]))
        self.probes.append(p)
        p.subscribe(o)

    def unsub(self, k):
        self.probes[k].dispose()

    def connect(self):
        if self.connectable is not None:
            self.handles.append(self.connectable.connect(self.lab.sched))

    def disc(self, i):
        if self.connectable is not None and self.can_disc and self.handles[i] is not None:  # connect() may return None by its signature
            self.handles[i].dispose()

    def adv(self, dt):
        self.lab.run(until=self.lab.now() + dt)

    def view(self):
        return [p.trace() for p in self.probes], [list(x) for x in self.src.subs]


# =======================================================================================
# comparison


def _norm(trace):
    """Sort the N events inside one tick (use-twice mapper)."""
    out = []
    i = 0
    while i < len(trace):
        j = i
        while j < len(trace) and trace[j][0] == trace[i][0] and trace[j][1] == "N":
            j += 1
        if j == i:
            out.append(trace[i])
            i += 1
        else:
            out.extend(sorted(trace[i:j], key=repr))
            i = j
    return out


def _log_matches(actual, expected):
    """expected entries are [a, b, optional]; optional ones may be missing from actual."""
    memo = {}

    def go(i, j):
        if (i, j) in memo:
            return memo[(i, j)]
        if j == len(expected):
            r = i == len(actual)
        else:
            r = False
            if i < len(actual) and actual[i] == expected[j][:2]:
                r = go(i + 1, j + 1)
            if not r and expected[j][2]:
                r = go(i, j + 1)
        memo[(i, j)] = r
        return r

    return go(0, 0)


def _compare(real_view, model, merge2):
    """Returns None or (clause, detail)."""
    rt, rl = real_view
    mt, ml = model.view()
    if not _log_matches(rl, ml):
        return "srclog", f"source subscriptions expected={[e[:2] for e in ml]} (optional={[e[:2] for e in ml if e[2]]}) got={rl}"
    if len(rt) != len(mt):
        return "trace", f"{len(rt)} subscribers exist, expected {len(mt)} (subscriptions made from inside callbacks)"
    for k, (a, e) in enumerate(zip(rt, mt)):
        ep = model.eps[k]
        if merge2:
            a, e = _norm(a), _norm(e)
        if a == e:
            continue
        if ep.lenient is not None and a[: len(e)] == e:
            extra = a[len(e):]
            pool = [repr(x) for x in ep.lenient]
            ok = True
            for x in extra:
                if repr(x) in pool:
                    pool.remove(repr(x))
                else:
                    ok = False
            if ok:
                continue
        return "trace", f"subscriber {k}: expected={e} got={a}"
    return None


def _conn_of(log, tick):
    """Index of the last source subscription open at `tick` (evidence only)."""
    r = None
    for i, (a, b, _) in enumerate(log):
        if a <= tick and (b is None or tick <= b):
            r = i
    return r


def _label(form):
    s = form["base"]
    if form.get("wrap") == "ref_count":
        s += "+ref_count"
    elif form.get("wrap") == "auto_connect":
        s += "+auto_connect"
    if form.get("mix"):
        s += "+explicit_connect"
    if form.get("mapper"):
        s += ":" + form["mapper"]
    return s


def _run(case):
    form = case["form"]
    # model variants for the two readings the statement leaves open (see ASSUMPTIONS); variant 0 = what the library does
    wrap = form.get("wrap")
    variants = [(False, False)]
    if not form.get("mapper") and form["base"] != "share":
        if wrap is None or (wrap == "ref_count" and form.get("mix")):
            variants = [(False, False), (True, False)]
        elif wrap == "auto_connect":
            variants = [(False, False), (False, True)] + ([(True, False), (True, True)] if form.get("mix") else [])
    real = _Real(case)
    models = [_Model(case, reset=r, cumulative=c) for r, c in variants]
    alive = [True] * len(models)
    first_diff = None
    label = _label(form)
    merge2 = form.get("mapper") in ("merge2", "late2")

    def step(cmd):
        op = cmd[0]
        targets = [real] + models
        if op == "sub":
            for x in targets:
                x.sub(cmd)
        elif op == "unsub":
            for x in targets:
                n = len(x.probes) if x is real else len(x.eps)  # subscribers made inside callbacks count too
                if n:
                    x.unsub(cmd[1] % n)
        elif op == "conn":
            for x in targets:
                x.connect()
        elif op == "disc":
            n = len(models[0].handles)
            if n:
                for x in targets:
                    x.disc(cmd[1] % n)
        elif op == "adv":
            for x in targets:
                x.adv(cmd[1])
            return True
        else:
            raise HarnessError(f"command {cmd}")
        return False

    cmds = list(case["cmds"]) + [["adv", 1], ["adv", 40]]
    for idx, cmd in enumerate(cmds):
        if not step(cmd):
            continue
        lab = real.lab
        if lab.inconclusive:
            return SKIP(lab.inconclusive)
        if lab.escaped is not None:
            e = lab.escaped
            return FAIL(f"escaped:{type(e).__name__}|{label}", f"case={case} exception escaped the scheduler after command #{idx}: {e!r}")
        rv = real.view()
        for m in models:
            if m.ms.now != lab.now():
                raise HarnessError(f"clock skew model={m.ms.now} lab={lab.now()}")
        diffs = []
        for i, m in enumerate(models):
            if alive[i]:
                d = _compare(rv, m, merge2)
                if d is not None:
                    alive[i] = False
                    diffs.append(d)
                    if i == 0 and first_diff is None:
                        first_diff = d
        if not any(alive):
            clause, detail = first_diff or diffs[0]
            return FAIL(f"{clause}|{label}", f"case={case} after command #{idx} {cmd} at tick {lab.now()}: {detail}")

    m0 = models[0]
    nsub = len(m0.eps)
    stats = set(m0.stats)
    if m0.conn is not None:
        stats |= m0.conn.stats
    for s in m0.subjects:
        stats |= s.stats
    classes = [f"form:{label}", f"src:{case['src']['kind']}", f"clock:{case.get('clock', 'test')}"] + sorted(stats)
    log = m0.src.log
    if any(e[2] for e in log):
        classes.append("optional_entry")
    if any(e[0] == e[1] for e in log):
        classes.append("zero_length_connection")
    reconnect = False
    if m0.conn is not None:
        if len(log) >= 2:
            reconnect = True
            classes.append("reconnect")
            if "sub_after_terminal" in stats:
                classes.append("reconnect_and_terminated_subject")
        if m0.conn.noop_connects and m0.wrap is None:
            classes.append("connect_noop")
        if m0.conn.connects_after_term and m0.wrap is None:
            classes.append("connect_after_source_terminal")
    if len(models) >= 2:
        if any(m.view() != models[0].view() for m in models[1:]):
            classes.append("variants_differ")
        if not alive[0]:
            classes.append("alt_only")
        elif not all(alive):
            classes.append("primary_only")
    if form.get("mix") and m0.handles:
        classes.append("mix_explicit_connect_used")
    if any(ep.trace for ep in m0.eps):
        classes.append("some_delivery")
    if sum(1 for ep in m0.eps if any(e[1] == "N" for e in ep.trace)) >= 2:
        classes.append("multi_receivers")
    if m0.conn is not None and len({_conn_of(log, e[0]) for ep in m0.eps for e in ep.trace if e[1] == "N"} - {None}) >= 2:
        classes.append("deliveries_on_2_connections")
    nontrivial = nsub >= 2 and (reconnect or "same_instant" in stats or "unsub_in_delivery_before_later_subscriber" in stats)
    return OK(nontrivial, classes)


# =======================================================================================
# generators

_subject_params = {
    "publish": st.just({}),
    "mc_subject": st.just({}),
    "mc_async": st.just({}),
    "publish_value": st.fixed_dictionaries({"init": st.sampled_from(VALS)}),
    "mc_behavior": st.fixed_dictionaries({"init": st.sampled_from(VALS)}),
    "replay": st.fixed_dictionaries({"buf": st.sampled_from([None, None, 0, 1, 2, 3]), "win": st.sampled_from([None, None, 0, 1, 2, 3, 5])}),
    "mc_replay": st.fixed_dictionaries({"buf": st.sampled_from([None, None, 0, 1, 2, 3]), "win": st.sampled_from([None, None, 0, 1, 2, 3, 5])}),
}
_BASES = ["publish", "replay", "replay", "publish_value", "mc_subject", "mc_behavior", "mc_replay", "mc_async"]


@st.composite
def _form(draw, group):
    if group == "refcount" and draw(st.integers(0, 3)) == 0:
        return {"base": "share"}
    base = draw(st.sampled_from(_BASES))
    f = {"base": base}
    f.update(draw(_subject_params[base]))
    if group == "refcount":
        f["wrap"] = "ref_count"
    elif group == "autoconnect":
        f["wrap"] = "auto_connect"
        f["n"] = draw(st.sampled_from([0, 1, 1, 2, 2, 2, 3, 3]))
    if group in ("refcount", "autoconnect") and draw(st.integers(0, 2)) == 0:
        f["mix"] = True  # explicit connect() calls on the underlying connectable are part of the history (never an explicit dispose)
    elif group == "mapper":
        f["mapper"] = draw(st.sampled_from(["id", "merge2", "late2", "late2"]))
        if f["mapper"] == "late2":
            f["d"] = draw(st.integers(1, 4))
            if draw(st.integers(0, 1)) == 0:  # favour the replay overloads with a finite window / buffer for the late subscription
                f["base"] = base = draw(st.sampled_from(["replay", "replay", "mc_replay"]))
                f.pop("init", None)
                f["buf"] = draw(st.sampled_from([None, None, 1, 2]))
                f["win"] = draw(st.sampled_from([0, 1, 1, 2, 3]))
    return f


def _cmd(group, adv=True):
    if group == "connectable":
        kinds = ["sub"] * 3 + ["unsub"] * 2 + ["conn"] * 3 + ["disc"] * 2
    elif group == "mixed":
        kinds = ["sub"] * 3 + ["unsub"] * 2 + ["conn"] * 2
    else:
        kinds = ["sub"] * 3 + ["unsub"] * 2
    if adv:
        kinds = kinds + ["adv"] * (len(kinds) // 2)

    def mk(k):
        if k == "adv":
            return _DT.map(lambda d: ["adv", d])
        if k == "unsub":
            return st.integers(0, 7).map(lambda i: ["unsub", i])
        if k == "disc":
            return st.integers(0, 5).map(lambda i: ["disc", i])
        if k == "sub":
            return st.sampled_from(["plain"] * 4 + ["take"] * 2 + ["kill"] * 2 + ["spawn"] * 2).flatmap(
                lambda kind: st.just(["sub"])
                if kind == "plain"
                else (
                    st.integers(1, 3).map(lambda n: ["sub", kind, n])
                    if kind in ("take", "spawn")
                    else st.tuples(st.integers(1, 3), st.integers(0, 5)).map(lambda t: ["sub", "kill", t[0], t[1]])
                )
            )
        return st.just([k])

    return st.sampled_from(kinds).flatmap(mk)


_DT = st.sampled_from([1, 1, 1, 2, 2, 3, 4])


@st.composite
def _history(draw, group, maxc):
    """Either a flat random command list or bursts of same-instant commands separated by advances."""
    if draw(st.integers(0, 2)) == 0:
        return draw(st.lists(_cmd(group), min_size=2, max_size=maxc))
    cmds = []
    for _ in range(draw(st.integers(2, 6))):
        cmds += draw(st.lists(_cmd(group, adv=False), min_size=0, max_size=4))
        cmds.append(["adv", draw(_DT)])
    return cmds[:maxc]


def _cases(group, tier):
    maxc = 16 if tier == "quick" else 22

    @st.composite
    def go(draw):
        form = draw(_form(group))
        return {
            "form": form,
            "src": {
                "kind": draw(st.sampled_from(["cold", "cold", "sync", "hot"])),
                "tl": draw(timelines(max_len=5, max_dt=3, values=VALS, conforming=True)),
            },
            "cmds": draw(_history("mixed" if form.get("mix") else group, maxc)),
            "clock": draw(st.sampled_from(["test", "test", "hist"])),
        }

    return go()


_ENUM_FORMS = [
    {"base": "publish"},
    {"base": "replay", "buf": 1, "win": None},
    {"base": "publish_value", "init": "i0"},
    {"base": "share"},
    {"base": "replay", "buf": None, "win": 2, "wrap": "ref_count"},
    {"base": "publish", "wrap": "auto_connect", "n": 2},
    {"base": "publish", "mapper": "merge2"},
    {"base": "replay", "buf": None, "win": 1, "mapper": "late2", "d": 2},
    {"base": "replay", "buf": 2, "win": 2, "mapper": "late2", "d": 3},
    {"base": "publish", "wrap": "ref_count", "mix": True},
    {"base": "publish_value", "init": "i0", "wrap": "auto_connect", "n": 2, "mix": True},
]
_ENUM_SRCS = [
    {"kind": "cold", "tl": [[0, "N", "i1"], [1, "N", "i2"], [2, "C", None]]},
    {"kind": "sync", "tl": [[0, "N", "i1"], [1, "E", "e1"]]},
    {"kind": "hot", "tl": [[0, "N", "i0"], [1, "N", "i1"], [2, "N", "i2"], [3, "N", "i3"], [4, "C", None]]},
]


def _enum(tier):
    L = 4 if tier == "quick" else 5
    for form in _ENUM_FORMS:
        plain = not form.get("wrap") and not form.get("mapper") and form["base"] != "share"
        alpha = [["sub"], ["unsub", 0], ["unsub", 1], ["adv", 1]]
        if plain:
            alpha += [["conn"], ["disc", 0], ["disc", 1]]
        elif form.get("mix"):
            alpha += [["conn"], ["adv", 2]]
        else:
            alpha += [["adv", 2]]
        for src in _ENUM_SRCS:
            for n in range(1, L + 1):
                if tier == "quick" and n == L and (src["kind"] != "cold" or form.get("mix")):
                    continue  # quick: the longest length only over the cold source (and not for the mixed forms)
                for cmds in itertools.product(alpha, repeat=n):
                    if cmds[-1][0] == "adv":
                        continue  # trailing advances are appended to every history anyway
                    yield {"form": form, "src": src, "cmds": [list(c) for c in cmds]}


_ENUM_R_FORMS = [
    {"base": "publish"},
    {"base": "share"},
    {"base": "publish_value", "init": "i0", "wrap": "ref_count"},
    {"base": "replay", "buf": None, "win": None, "wrap": "ref_count"},
    {"base": "publish", "wrap": "auto_connect", "n": 2},
    {"base": "mc_async", "wrap": "ref_count"},
]
_ENUM_R_SRCS = [
    {"kind": "cold", "tl": [[0, "N", "i1"], [1, "N", "i2"], [2, "C", None]]},
    {"kind": "sync", "tl": [[0, "N", "i1"], [0, "N", "i2"], [1, "E", "e1"]]},
]


def _enum_reentrant(tier):
    """All short histories over subscriber kinds that unsubscribe from inside on_next."""
    L = 4 if tier == "quick" else 5
    for fi, form in enumerate(_ENUM_R_FORMS):
        plain = not form.get("wrap") and form["base"] != "share"
        alpha = [["sub"], ["sub", "take", 1], ["sub", "kill", 1, 1], ["sub", "kill", 2, 0], ["sub", "spawn", 1], ["unsub", 0], ["adv", 1]]
        if plain:
            alpha += [["conn"]]
        for src in _ENUM_R_SRCS:
            for n in range(1, L + 1):
                if tier == "quick" and n == L and (src["kind"] != "cold" or fi != 1):
                    continue  # quick: the longest length only for share over the cold source
                for cmds in itertools.product(alpha, repeat=n):
                    if cmds[-1][0] == "adv" or sum(1 for c in cmds if c[0] == "sub") < 2 or all(len(c) == 1 for c in cmds if c[0] == "sub"):
                        continue  # needs >= 2 subscribers, one of them re-entrant
                    yield {"form": form, "src": src, "cmds": [list(c) for c in cmds]}


def checks(tier):
    def gen(group, quick, thorough):
        return Check(
            group,
            _run,
            strategy=_cases(group, tier),
            examples={"quick": quick, "thorough": thorough},
            shards={"quick": 4, "thorough": 16},
        )

    return [
        gen("connectable", 2000, 16 * 12000),
        gen("refcount", 1800, 16 * 10000),
        gen("autoconnect", 1400, 16 * 6000),
        gen("mapper", 1200, 16 * 6000),
        Check("enum", _run, cases=_enum, shards={"quick": 8, "thorough": 16}, exhaustive=True),
        Check("enum_reentrant", _run, cases=_enum_reentrant, shards={"quick": 4, "thorough": 16}, exhaustive=True),
    ]
