"""C17 Time-window operators respect their window boundaries."""
from __future__ import annotations

from hypothesis import strategies as st

from reactivex import operators as ops

from vlib.core import FAIL, OK, Check
from vlib.lab import conform
from vlib.timeops import mk_trigger, sched_modes, sched_setup, CLOCKS, combine, cv, effective, execute_all, first_fire, fwd, judge, mk_lab, nelems, outcomes, prelude, second_sub, sources, sub_ticks, targ, triggers, with_feedback

PROPERTY_ID = "C17"
LEVEL = "exploration"
RULE = (
    "Generated cases per operator: a cold / hot / synchronous logged source (0-6 uniquely numbered elements, gaps drawn from "
    "{0,1,2,3,d-1,d,d+1,2d,2d+1} so elements fall before, at and after every boundary, with same-instant bursts; terminal "
    "C/E/none), subscribed at tick 0/2/5, on the numeric TestScheduler clock and the datetime HistoricalScheduler clock; "
    "durations d in 0..5 as int/float/timedelta, absolute datetimes (also in the past) for the *_until_* operators and timeout. "
    "Oracles (closed form on the effective timeline): take_with_time/take_until_with_time pass elements strictly before the "
    "boundary B and complete at B (unless the source terminated earlier); skip_with_time/skip_until_with_time pass elements "
    "strictly after B and every terminal; notifications at exactly B may fall on either side but all on the same side. "
    "take_last_with_time: at completion exactly the elements of age < d must, age > d must not be emitted, in order, then C, "
    "all at the completion instant; skip_last_with_time: exactly the elements of age > d must, age < d must not be emitted, in "
    "order, none earlier than arrival+d, C at the completion instant; elements of age exactly d share one fate per run, and that "
    "fate (like every other element's) must be identical in a second run of the same timeline with one extra element inserted "
    "at a generated position/instant (metamorphic pair). timeout(d | absolute, fallback | none): notifications are forwarded "
    "while each arrives before last-activity+d (absolute: before D); otherwise the fallback is subscribed exactly then (or the "
    "sequence fails then), never after the source terminated; timeout_with_mapper likewise with the first firing (N or C) of "
    "the first-timeout / per-element timeout observable. Non-trivial: some element within one tick of a boundary (for timeout: "
    "within one tick of a running deadline). In 1 case of 3 the same built observable is subscribed a second time at a generated tick s1 in s0+{0,1,2,3,7}; the same oracle is applied to that probe with its own subscribe tick, and the fallback must be subscribed once per timed-out subscription. Scheduler passing: the take/skip operators and timeout are run in the modes sub (no argument, subscription carries the lab scheduler), arg (scheduler argument, subscription carries none) and arg-other (argument, subscription carries a different never-started virtual scheduler reading +1000 ticks) and must behave identically; one in four timeout observables and fallbacks is a scheduler-less library factory (timer(d), empty(), return_value, never) that must run on the scheduler in force. Any request for the real-time TimeoutScheduler during a run is refused and reported (realtime-fallback), any action left on the decoy scheduler is reported (wrong-scheduler). skip_last_with_time additionally: every produced element appears at the documented instant - the first source element/completion instant at which it is older than d (age exactly d: that instant or the next) - and an element older than d when a later element arrives must have been produced even if the source then fails or never ends. Thorough tier goes deeper for last/timeout: up to 10 elements per timeline, half of them dense (gaps 0-2), durations up to 8 ticks. One timeout_with_mapper case in four uses the overload WITHOUT a per-element mapper (first timeout only): once an element arrived before the first timeout fired no due time exists any more and the source is mirrored. Check skip_last_feedback: skip_last_with_time over a hot source into which the consumer pushes a new element from inside its on_next for the k-th produced element (it arrives at that instant, age 0, behind everything received before; ignored after completion): every element still produced exactly once, in arrival order, at the documented instants (age exactly d: one rule per run). Check window_relations: for d in {0,1,2,3} (zero durations and synchronous sources emphasised) the four take/skip(_until)_with_time operators are run with the duration as int, float and timedelta: the three traces must be identical, no element may be passed by both take_*(d) and skip_*(d), and every element away from the boundary instant must be passed by exactly one of them. Distinct = distinct case JSON."
)
ASSUMPTIONS = [
    "at an exact tie between an operator timer and a source notification either order is accepted (one order per timer and instant)",
    "timeout observables of timeout_with_mapper do not error (the property is silent about it)",
    "the no-fallback failure of timeout is any non-source exception delivered through on_error",
    "sources are conforming; fallbacks are cold",
]

FORMS = ["num", "float", "td"]


def _bcls(case):
    return [f"clock:{case['clock']}", f"src:{case['src']['kind']}", f"form:{case.get('form')}", f"sch:{case.get('sch') or 'sub'}"]


def _near(eff, B):
    return any(m[1] == "N" and abs(m[0] - B) <= 1 for m in eff)


# ------------------------------------------------------------------------------ take/skip (until) with time
def _exp_take(eff, B, ch):
    out = []
    dec = None
    for m in eff:
        if m[0] > B:
            break
        if m[0] == B:
            if dec is None:
                dec = ch()
            if dec:
                break
        out.append(fwd(m))
        if m[1] != "N":
            return out
    out.append([B, "C", None])
    return out


def _exp_skip(eff, B, ch):
    out = []
    dec = None
    for m in eff:
        if m[1] == "N":
            if m[0] < B:
                continue
            if m[0] == B:
                if dec is None:
                    dec = ch()
                if not dec:
                    continue
        out.append(fwd(m))
    return out


def _run_window(case):
    lab = mk_lab(case["clock"])
    s0, op, form = case["s0"], case["op"], case["form"]
    src = lab.source(case["src"])
    arg = targ(lab, form, case["b"])
    f = {"take_with_time": ops.take_with_time, "skip_with_time": ops.skip_with_time, "take_until_with_time": ops.take_until_with_time, "skip_until_with_time": ops.skip_until_with_time}[op]
    ticks = sub_ticks(case)
    kw, sub = sched_setup(lab, case)
    probes = execute_all(lab, src.pipe(f(arg, **kw)), ticks, sub=sub)
    return combine([_judge_window(case, lab, p, s) for p, s in zip(probes, ticks)], ticks)


def _judge_window(case, lab, p, s0):
    op, form = case["op"], case["form"]
    B = max(case["b"], s0) if form == "abs" else s0 + case["b"]
    eff = effective(case["src"], s0)
    cls = _bcls(case)
    if form == "abs" and case["b"] < s0:
        cls.append("absolute-in-the-past")
    if any(m[0] == B for m in eff):
        cls.append("notification-at-boundary")
    if any(m[0] == B - 1 for m in eff):
        cls.append("notification-at-boundary-1")
    if any(m[0] == B + 1 for m in eff):
        cls.append("notification-at-boundary+1")
    sim = _exp_take if op.startswith("take") else _exp_skip
    return judge(op, case, lab, p, outcomes(lambda ch: sim(eff, B, ch)), cls, _near(eff, B))


# ------------------------------------------------------------------------------ relations between forms and between take/skip
_WIN_OPS = {"take_with_time": ops.take_with_time, "skip_with_time": ops.skip_with_time, "take_until_with_time": ops.take_until_with_time, "skip_until_with_time": ops.skip_until_with_time}


def _run_window_rel(case):
    """Two relations the statement determines even at the boundary instant: (1) the same duration written as int, float or
    timedelta is the same boundary, so the three traces must be identical; (2) 'exactly the elements before, respectively
    after': no element is passed by both take_*(d) and skip_*(d), and every element away from the boundary instant is passed
    by exactly one of them (an element exactly at the boundary may be passed by one of them or by neither)."""
    s0, d = case["s0"], case["d"]
    eff = effective(case["src"], s0)
    allv = [cv(m[2]) for m in eff if m[1] == "N"]
    cls = [f"clock:{case['clock']}", f"src:{case['src']['kind']}"]
    if d == 0:
        cls.append("d=0")
    if any(m[0] == s0 + d for m in eff if m[1] == "N"):
        cls.append("element-at-boundary")
        if d == 0 and case["src"]["kind"] == "sync":
            cls.append("d=0:element-emitted-inside-subscribe")
    traces = {}
    for op in _WIN_OPS:
        for form in FORMS:
            lab = mk_lab(case["clock"])
            src = lab.source(case["src"])
            p = execute_all(lab, src.pipe(_WIN_OPS[op](targ(lab, form, d))), [s0])[0]
            r = prelude(lab, p, op, case)
            if r is not None:
                return r
            traces[op, form] = p.trace()
        a = traces[op, FORMS[0]]
        for form in FORMS[1:]:
            if traces[op, form] != a:
                return FAIL(f"argument-form|{op}", f"{op}({d}) as {FORMS[0]} gives {a} but as {form} gives {traces[op, form]}; case={case}", classes=cls)
    for t, s in (("take_with_time", "skip_with_time"), ("take_until_with_time", "skip_until_with_time")):
        for form in FORMS:
            tv = [e[2] for e in traces[t, form] if e[1] == "N"]
            sv = [e[2] for e in traces[s, form] if e[1] == "N"]
            both = [v for v in tv if v in sv]
            away = [cv(m[2]) for m in eff if m[1] == "N" and m[0] != s0 + d]
            missing = [v for v in away if v not in tv and v not in sv]
            if both or missing:
                return FAIL(f"before-xor-after|{t}+{s}", f"duration {d} ({form}): passed by {t}={tv} passed by {s}={sv} source elements={allv} (passed by both: {both}, away from the boundary but passed by neither: {missing}); case={case}", classes=cls)
    return OK("element-at-boundary" in cls, cls)


# ------------------------------------------------------------------------------ take_last / skip_last with time
def _run_last_once(case, tl, op):
    lab = mk_lab(case["clock"])
    src = lab.source({"kind": case["src"]["kind"], "tl": tl})
    f = ops.take_last_with_time if op == "take_last_with_time" else ops.skip_last_with_time
    kw, sub = sched_setup(lab, case)
    probes = execute_all(lab, src.pipe(f(targ(lab, case["form"], case["d"]), **kw)), sub_ticks(case), sub=sub)
    return lab, probes


def _judge_last(case, tl, op, lab, p, cls, s0):
    """Direct oracle for one run. Returns (Result|None, fates{value: emitted?})."""
    d = case["d"]
    r = prelude(lab, p, op, case)
    if r is not None:
        return r, None
    eff = effective({"kind": case["src"]["kind"], "tl": tl}, s0)
    tr = p.trace()
    got = [e for e in tr if e[1] == "N"]
    term = p.terminal()
    term = term[:3] if term else None
    arr = {m[2]: m[0] for m in eff if m[1] == "N"}
    order = [cv(m[2]) for m in eff if m[1] == "N"]
    vals = [e[2] for e in got]
    fates = {v: (cv(v) in vals) for v in arr}
    # order / no duplicates / only source elements
    idx = [order.index(v) if v in order else -1 for v in vals]
    if -1 in idx or idx != sorted(set(idx)):
        return FAIL(f"order|{op}", f"emitted {vals} is not an ordered duplicate-free subsequence of the source elements; tl={tl} case={case}", classes=cls), fates
    exp_term = fwd(eff[-1]) if eff and eff[-1][1] != "N" else None
    if term != exp_term:
        return FAIL(f"terminal|{op}", f"terminal {term}, expected {exp_term}; trace={tr} tl={tl} case={case}", classes=cls), fates
    if not eff or eff[-1][1] != "C":
        # error / no terminal: the property speaks about completion only
        if op == "take_last_with_time" and got:
            return FAIL(f"emission-without-completion|{op}", f"trace={tr} tl={tl} case={case}", classes=cls), fates
        for e in got:
            v = "n:%d" % e[2][1]
            if e[0] < arr[v] + d:
                return FAIL(f"too-early|{op}", f"{v} emitted at {e[0]}, arrived {arr[v]}, d={d}; trace={tr} tl={tl} case={case}", classes=cls), fates
        if op == "skip_last_with_time":
            r = _skip_last_instants(case, tl, eff, got, arr, d, cls, tr)
            if r is not None:
                return r, fates
        return None, None
    tc = eff[-1][0]
    tied = []
    for v, ta in arr.items():
        age = tc - ta
        young = age < d
        if age == d:
            tied.append(v)
            continue
        must = young if op == "take_last_with_time" else not young
        if fates[v] != must:
            return FAIL(f"age-rule|{op}", f"{v} age {age} vs d={d}: emitted={fates[v]}, expected {must}; trace={tr} tl={tl} case={case}", classes=cls), fates
    if tied:
        cls.append("age=d")
        if len({fates[v] for v in tied}) > 1:
            return FAIL(f"boundary-inconsistent|{op}", f"elements of age exactly d={d} have different fates {[(v, fates[v]) for v in tied]}; trace={tr} tl={tl} case={case}", classes=cls), fates
        cls.append("age=d:" + ("emitted" if fates[tied[0]] else "dropped"))
    for e in got:
        v = "n:%d" % e[2][1]
        if op == "take_last_with_time":
            if e[0] != tc:
                return FAIL(f"emission-time|{op}", f"{v} emitted at {e[0]}, completion at {tc}; trace={tr} tl={tl} case={case}", classes=cls), fates
        elif not (arr[v] + d <= e[0] <= tc):
            return FAIL(f"too-early|{op}", f"{v} emitted at {e[0]}, arrived {arr[v]}, d={d}, completion {tc}; trace={tr} tl={tl} case={case}", classes=cls), fates
    if op == "skip_last_with_time":
        r = _skip_last_instants(case, tl, eff, got, arr, d, cls, tr)
        if r is not None:
            return r, fates
    return None, fates


def _skip_last_instants(case, tl, eff, got, arr, d, cls, tr):
    """Documented (docstring): 'As more elements are received, elements older than the specified duration are taken from the
    queue and produced'.  So an element is produced at the first source element / completion instant at which it is older
    than d (age exactly d: that instant or the next such instant), not merely somewhere before completion; and an element
    that is older than d when a later element arrives must have been produced even if the source then fails or never ends."""
    op = "skip_last_with_time"
    flush = [m[0] for m in eff if m[1] in ("N", "C")]  # instants at which the operator looks at its queue
    pos = {m[2]: i for i, m in enumerate(eff) if m[1] == "N"}
    emitted = {"n:%d" % e[2][1]: e[0] for e in got}
    for v, ta in arr.items():
        later = [t for t in flush[pos[v]:]]  # its own arrival counts (age 0)
        c_ge = next((t for t in later if t - ta >= d), None)
        c_gt = next((t for t in later if t - ta > d), None)
        ok_times = {t for t in (c_ge, c_gt) if t is not None}
        if v in emitted:
            if emitted[v] not in ok_times:
                return FAIL(f"emission-instant|{op}", f"{v} (arrived {ta}, d={d}) produced at {emitted[v]}, documented instant(s) {sorted(ok_times)}; trace={tr} tl={tl} case={case}", classes=cls)
            if eff[-1][1] != "C" or emitted[v] < eff[-1][0]:
                cls.append("skip_last:produced-before-completion")
        elif c_gt is not None and (eff[-1][1] != "E" or c_gt < eff[-1][0] or eff[-1][1] == "C"):
            # older than d at a later element/completion instant (strictly before a terminating error): must be out
            return FAIL(f"not-produced|{op}", f"{v} (arrived {ta}, d={d}) was older than d at {c_gt} but never produced; trace={tr} tl={tl} case={case}", classes=cls)
    return None


def _run_last(case):
    op = case["op"]
    tl = case["src"]["tl"]
    ticks = sub_ticks(case)
    lab, probes = _run_last_once(case, tl, op)
    ex = case.get("extra")
    lab2 = probes2 = tl2 = t_new = None
    if ex is not None:
        # metamorphic twin: one extra element inserted at position k with a time between its neighbours
        body = [m for m in conform(tl)]
        n_el = sum(1 for m in body if m[1] == "N")
        k = ex["pos"] % (n_el + 1)
        lo = body[k - 1][0] if k > 0 else (body[0][0] if body else 0)
        hi = body[k][0] if k < len(body) else lo
        t_new = lo + (ex["frac"] * (hi - lo)) // 3 if hi > lo else lo
        tl2 = body[:k] + [[t_new, "N", "n:50"]] + body[k:]
        lab2, probes2 = _run_last_once(case, tl2, op)
    res = []
    for i, s0 in enumerate(ticks):
        res.append(_last_verdict(case, op, tl, lab, probes[i], s0, tl2, lab2, probes2[i] if probes2 else None, t_new))
    return combine(res, ticks)


def _last_verdict(case, op, tl, lab, p, s0, tl2, lab2, p2, t_new):
    cls = _bcls(case)
    if sum(1 for m in tl if m[1] == "N") >= 7:
        cls.append("timeline>=7-elements")
    r, fates = _judge_last(case, tl, op, lab, p, cls, s0)
    if r is not None:
        return r
    eff = effective(case["src"], s0)
    near = bool(eff) and eff[-1][1] == "C" and any(m[1] == "N" and abs((eff[-1][0] - m[0]) - case["d"]) <= 1 for m in eff)
    if p2 is None or fates is None:
        return OK(near, cls)
    cls2 = []
    r2, fates2 = _judge_last(case, tl2, op, lab2, p2, cls2, s0)
    cls.append("twin")
    if r2 is not None:
        r2.classes = tuple(cls)
        return r2
    if fates2 is None:
        return OK(near, cls)
    diff = [(v, fates[v], fates2.get(v)) for v in fates if fates[v] != fates2.get(v)]
    if diff:
        return FAIL(
            f"fate-depends-on-unrelated-arrival|{op}",
            f"(element, emitted without extra, emitted with extra)={diff}; extra element n:50 at t={t_new}; tl={tl} tl+extra={tl2} case={case}",
            classes=cls,
        )
    if "age=d" in cls:
        cls.append("twin-with-age=d-element")
    return OK(near, cls)


# ------------------------------------------------------------------------------ skip_last_with_time with re-entrant feedback
def _exp_skip_last_fb(eff, d, fb, ch):
    """Reference run: elements wait in arrival order; at every arrival / at completion the leading elements that are older
    than d (age exactly d: one rule per run) are produced, each exactly once.  After the consumer received the k-th produced
    element (k in fb) it pushes element 1000+k into the source: it arrives at that same instant (age 0) behind everything
    that arrived before it, and is ignored once the source has completed."""
    strict = []
    q, out = [], []
    st_ = {"n": 0, "done": False}

    def old(age):
        if age != d:
            return age > d
        if not strict:
            strict.append(ch())
        return not strict[0]

    def drain(T):
        while q and old(T - q[0][0]):
            t, v = q.pop(0)
            out.append([T, "N", v])
            k = st_["n"]
            st_["n"] += 1
            if k in fb and not st_["done"]:
                q.append((T, ["int", 1000 + k]))
                drain(T)

    for T, kd, v in eff:
        if kd == "N":
            q.append((T, cv(v)))
            drain(T)
        elif kd == "C":
            st_["done"] = True
            drain(T)
            out.append([T, "C", None])
            return out
        else:
            out.append([T, "E", ["exc", v]])
            return out
    return out


def _run_skip_last_fb(case):
    lab = mk_lab(case["clock"])
    s0, d = case["s0"], case["d"]
    src = lab.source(case["src"])
    fb = set(case["fb"])
    o = src.pipe(ops.skip_last_with_time(targ(lab, case["form"], d)))
    probes = execute_all(lab, with_feedback(o, src, fb), [s0])
    eff = effective(case["src"], s0)
    outs = outcomes(lambda ch: _exp_skip_last_fb(eff, d, fb, ch))
    tr = probes[0].trace()
    cls = [f"clock:{case['clock']}", f"form:{case['form']}", "feedback-during-delivery"]
    if any(e[1] == "N" and e[2][1] >= 1000 for e in tr):
        cls.append("feedback-element-produced")
    if any(sum(1 for e in o_ if e[1] == "N") > sum(1 for m in eff if m[1] == "N") - 0 for _, o_ in outs):
        cls.append("feedback-element-expected")
    got_n = sum(1 for e in tr if e[1] == "N")
    return judge("skip_last_with_time", case, lab, probes[0], outs, cls, got_n >= 2)


# ------------------------------------------------------------------------------ timeout
_TMO = ["exc", "<timeout>"]


def _fallback(due, other):
    if other is None:
        return [[due, "E", _TMO]]
    return [fwd([due + t, k, v]) for t, k, v in conform(other["tl"])]


def _norm_timeout(tr):
    return [[e[0], "E", _TMO] if e[1] == "E" and len(e[2]) == 3 else e for e in tr]


def _exp_timeout_rel(eff, s0, d, other, ch, log):
    out, due = [], s0 + d
    for m in eff:
        if due < m[0] or (due == m[0] and ch()):
            log.append(due)
            return out + _fallback(due, other)
        out.append(fwd(m))
        if m[1] != "N":
            return out
        due = m[0] + d
    log.append(due)
    return out + _fallback(due, other)


def _exp_timeout_abs(eff, B, other, ch, log):
    out = []
    dec = None
    for m in eff:
        if m[0] > B:
            break
        if m[0] == B:
            if dec is None:
                dec = ch()
            if dec:
                break
        out.append(fwd(m))
        if m[1] != "N":
            return out
    log.append(B)
    return out + _fallback(B, other)


def _fallback_wants(p, outs_logs):
    """Acceptable fallback-subscription tick lists ([] or [t]) for one probe, from the outcomes matching its trace."""
    tr = _norm_timeout(p.trace())
    return [[log[0]] if log else [] for (dec, exp), log in outs_logs if tr == exp]


def _check_fallback_all(op, case, oth, wants_per_probe, cls):
    """The fallback is subscribed exactly once per timed-out subscription, at its deadline; never otherwise."""
    import itertools

    if any(not w for w in wants_per_probe):
        return None
    combos = [sorted(sum(c, [])) for c in itertools.product(*wants_per_probe)]
    if oth is not None and hasattr(oth, "subs") and sorted(x[0] for x in oth.subs) not in combos:
        sig = f"fallback-subscription|{op}" + (":2nd-subscription" if len(wants_per_probe) > 1 else "")
        return FAIL(sig, f"fallback subscriptions {oth.subs}, expected at {combos[0]}; case={case}", classes=cls)
    return None


def _timeout_sim(case, eff, s0, other):
    form = case["form"]
    if form == "abs":
        B = max(case["b"], s0)
        return lambda ch, log: _exp_timeout_abs(eff, B, other, ch, log)
    return lambda ch, log: _exp_timeout_rel(eff, s0, case["b"], other, ch, log)


def _run_timeout(case):
    lab = mk_lab(case["clock"])
    form = case["form"]
    src = lab.source(case["src"])
    other = case.get("other")
    oth = mk_trigger(lab, other) if other is not None else None
    arg = targ(lab, form, case["b"])
    ticks = sub_ticks(case)
    kw, sub = sched_setup(lab, case)
    probes = execute_all(lab, src.pipe(ops.timeout(arg, oth, **kw) if oth is not None else ops.timeout(arg, **kw)), ticks, sub=sub)
    res, wants = [], []
    for p, s0 in zip(probes, ticks):
        eff = effective(case["src"], s0)
        cls = _bcls(case) + ["fallback" if other is not None else "no-fallback"]
        if sum(1 for m in eff if m[1] == "N") >= 7:
            cls.append("timeline>=7-elements")
        if form == "abs":
            near = _near(eff, max(case["b"], s0))
            if case["b"] < s0:
                cls.append("absolute-in-the-past")
        else:
            d = case["b"]
            ts = [s0] + [m[0] for m in eff]
            near = any(abs((b - a) - d) <= 1 for a, b in zip(ts, ts[1:]))
            if any(b - a == d for a, b in zip(ts, ts[1:])):
                cls.append("gap=d")
        sims = _timeout_sim(case, eff, s0, other)
        logs = []

        def sim(ch, sims=sims, logs=logs):
            log = []
            r = sims(ch, log)
            logs.append(log)
            return r

        outs = outcomes(sim)
        if eff and eff[-1][1] != "N":
            cls.append("source-terminates")
        w = _fallback_wants(p, list(zip(outs, logs)))
        if any(w):
            cls.append("timed-out")
        wants.append(w)
        res.append(judge("timeout", case, lab, p, outs, cls, near, norm=_norm_timeout))
    r = combine(res, ticks)
    if r.ok and not r.inconclusive:
        r2 = _check_fallback_all("timeout", case, oth, wants, list(r.classes))
        if r2 is not None:
            return r2
    return r


def _exp_twm(eff, s0, first, tos, other, ch, log):
    out = []
    ff = first_fire(first["tl"]) if first is not None else None
    due = s0 + ff[0] if ff else None
    for m in eff:
        if due is not None and (due < m[0] or (due == m[0] and ch())):
            log.append(due)
            return out + _fallback(due, other)
        out.append(fwd(m))
        if m[1] != "N":
            return out
        ff = first_fire(tos[int(m[2][2:])]["tl"])
        due = m[0] + ff[0] if ff else None
    if due is not None:
        log.append(due)
        return out + _fallback(due, other)
    return out


def _run_twm(case):
    lab = mk_lab(case["clock"])
    src = lab.source(case["src"])
    first, tos, other = case.get("first"), case["tos"], case.get("other")
    nomap = bool(case.get("nomap"))
    if nomap:
        # overload without timeout_duration_mapper: after the first element no due time exists any more
        tos = [{"kind": "cold", "tl": []} for _ in tos]
    oth = mk_trigger(lab, other) if other is not None else None
    fst = mk_trigger(lab, first) if first is not None else None
    ticks = sub_ticks(case)
    mapper = None if nomap else (lambda x: mk_trigger(lab, tos[x]))
    probes = execute_all(lab, src.pipe(ops.timeout_with_mapper(fst, mapper, oth)), ticks)
    res, wants = [], []
    for p, s0 in zip(probes, ticks):
        eff = effective(case["src"], s0)
        cls = [f"clock:{case['clock']}", f"src:{case['src']['kind']}", "fallback" if other is not None else "no-fallback", "first-timeout" if first is not None else "no-first-timeout"]
        if nomap:
            cls.append("overload:no-mapper")
            ff0 = first_fire(first["tl"]) if first is not None else None
            if ff0 is not None and any(m[1] == "N" and m[0] < s0 + ff0[0] for m in eff):
                cls.append("overload:no-mapper:element-before-first-timeout")
        logs = []

        def sim(ch, eff=eff, s0=s0, logs=logs):
            log = []
            r = _exp_twm(eff, s0, first, tos, other, ch, log)
            logs.append(log)
            return r

        outs = outcomes(sim)
        for q in tos + ([first] if first is not None else []):
            f = first_fire(q["tl"])
            if q["kind"] == "sync" and f is not None and f[0] == 0:
                cls.append("timeout-observable:sync-immediate")
            if f is not None and f[1] == "C":
                cls.append("timeout-observable:fires-by-completion")
        # non-trivial: some notification within one tick of a running deadline
        near = False
        ff = first_fire(first["tl"]) if first is not None else None
        due = s0 + ff[0] if ff else None
        for m in eff:
            if due is not None and abs(m[0] - due) <= 1:
                near = True
            if m[1] == "N":
                ff = first_fire(tos[int(m[2][2:])]["tl"])
                due = m[0] + ff[0] if ff else None
        w = _fallback_wants(p, list(zip(outs, logs)))
        if any(w):
            cls.append("timed-out")
        wants.append(w)
        res.append(judge("timeout_with_mapper", case, lab, p, outs, sorted(set(cls)), near, norm=_norm_timeout))
    r = combine(res, ticks)
    if r.ok and not r.inconclusive:
        r2 = _check_fallback_all("timeout_with_mapper", case, oth, wants, list(r.classes))
        if r2 is not None:
            r = r2
    if not r.ok and not r.sig.startswith("escaped"):
        # root-cause bucket: a timeout observable that emits and completes inside its own subscribe() call
        for q in tos + ([first] if first is not None else []):
            f = first_fire(q["tl"])
            if q["kind"] == "sync" and f is not None and f[0] == 0 and len(conform(q["tl"])) > 1:
                r.sig = "sync-timeout-observable-multi-event|timeout_with_mapper"
    return r


# ------------------------------------------------------------------------------ strategies
@st.composite
def _window_cases(draw):
    op = draw(st.sampled_from(["take_with_time", "skip_with_time", "take_until_with_time", "skip_until_with_time"]))
    d = draw(st.sampled_from([0, 1, 2, 2, 3, 5]))
    s0, spec = draw(sources(d=d, max_len=6))
    forms = FORMS + (["abs", "abs"] if "until" in op else [])
    form = draw(st.sampled_from(forms))
    b = d
    if form == "abs":
        b = draw(st.sampled_from([s0 + d, s0 + d, s0 + d, max(0, s0 - 1), s0]))
    return {"clock": draw(st.sampled_from(CLOCKS)), "s0": s0, "src": spec, "op": op, "form": form, "b": b, "s1": second_sub(draw, s0), "sch": sched_modes(draw)}


@st.composite
def _last_cases(draw, max_len=6, ds=(0, 1, 2, 2, 3, 5)):
    op = draw(st.sampled_from(["take_last_with_time", "skip_last_with_time"]))
    d = draw(st.sampled_from(list(ds)))
    s0, spec = draw(sources(d=d, max_len=max_len, terminals=("C", "C", "C", "C", "E", None)))
    if spec["kind"] == "hot":
        spec = {"kind": "hot", "tl": [m for m in spec["tl"] if m[2] != "n:99"]}
    extra = None
    if draw(st.integers(0, 3)) > 0:
        extra = {"pos": draw(st.integers(0, 6)), "frac": draw(st.integers(0, 3))}
    return {"clock": draw(st.sampled_from(CLOCKS)), "s0": s0, "src": spec, "op": op, "form": draw(st.sampled_from(FORMS)), "d": d, "extra": extra, "s1": second_sub(draw, s0), "sch": sched_modes(draw)}


@st.composite
def _others(draw):
    if draw(st.booleans()):
        return None
    if draw(st.integers(0, 3)) == 0:  # scheduler-less library fallback: must run on the scheduler in force
        t = draw(st.sampled_from([0, 1, 2]))
        return draw(st.sampled_from([{"kind": "lib:timer", "tl": [[t, "N", "n:0"], [t, "C", None]]}, {"kind": "lib:return", "tl": [[0, "N", "n:7"], [0, "C", None]]}, {"kind": "lib:empty", "tl": [[0, "C", None]]}]))
    _, spec = draw(sources(d=2, max_len=2, kinds=("cold", "cold", "sync"), base=100))
    return spec


@st.composite
def _timeout_cases(draw, max_len=6, ds=(0, 1, 2, 2, 3, 5)):
    d = draw(st.sampled_from(list(ds)))
    s0, spec = draw(sources(d=d, max_len=max_len))
    form = draw(st.sampled_from(FORMS + ["abs"]))
    b = d
    if form == "abs":
        last = max([0] + [m[0] for m in spec["tl"]])
        base = s0 if spec["kind"] != "hot" else 0
        b = draw(st.sampled_from([s0 + d, base + last, base + last + 1, max(0, base + last - 1), max(0, s0 - 1), s0]))
    return {"clock": draw(st.sampled_from(CLOCKS)), "s0": s0, "src": spec, "form": form, "b": b, "other": draw(_others()), "s1": second_sub(draw, s0), "sch": sched_modes(draw)}


@st.composite
def _twm_cases(draw):
    s0, spec = draw(sources(d=2, max_len=5, kinds=("cold", "cold", "sync")))
    tos = [draw(triggers(max_t=4)) for _ in range(nelems(spec))]
    first = draw(triggers(max_t=4)) if draw(st.integers(0, 3)) > 0 else None
    c = {"clock": draw(st.sampled_from(CLOCKS)), "s0": s0, "src": spec, "first": first, "tos": tos, "other": draw(_others()), "s1": second_sub(draw, s0)}
    if draw(st.integers(0, 3)) == 0:
        c["nomap"] = True
        if first is None or not first["tl"]:
            c["first"] = {"kind": "cold", "tl": [[draw(st.sampled_from([1, 2, 3, 4])), "N", "n:7"]]}
    return c


@st.composite
def _skip_last_fb_cases(draw):
    d = draw(st.sampled_from([0, 1, 2, 2, 3]))
    s0, spec = draw(sources(d=d, max_len=5, min_len=2, kinds=("hot",), terminals=("C", "C", "C", "E", None)))
    fb = sorted(set(draw(st.lists(st.integers(0, 3), min_size=1, max_size=2))))
    return {"clock": draw(st.sampled_from(CLOCKS)), "s0": s0, "src": spec, "d": d, "form": draw(st.sampled_from(FORMS)), "fb": fb}


@st.composite
def _window_rel_cases(draw):
    d = draw(st.sampled_from([0, 0, 0, 1, 2, 3]))
    s0, spec = draw(sources(d=d, max_len=4, min_len=1, kinds=("sync", "sync", "cold", "hot")))
    return {"clock": draw(st.sampled_from(CLOCKS)), "s0": s0, "src": spec, "d": d}


def checks(tier):
    T = 16
    sh = {"quick": 4, "thorough": 16}
    # thorough explores deeper: up to 10 elements per timeline and durations up to 8 ticks
    deep = (6, (0, 1, 2, 2, 3, 5)) if tier == "quick" else (10, (0, 1, 2, 3, 5, 8, 8))
    return [
        Check("window", _run_window, strategy=_window_cases(), examples={"quick": 2400, "thorough": T * 12000}, shards=sh),
        Check("window_relations", _run_window_rel, strategy=_window_rel_cases(), examples={"quick": 400, "thorough": T * 1500}, shards=sh),
        Check("last", _run_last, strategy=_last_cases(*deep), examples={"quick": 2400, "thorough": T * 12000}, shards=sh),
        Check("skip_last_feedback", _run_skip_last_fb, strategy=_skip_last_fb_cases(), examples={"quick": 600, "thorough": T * 3000}, shards=sh),
        Check("timeout", _run_timeout, strategy=_timeout_cases(*deep), examples={"quick": 2400, "thorough": T * 12000}, shards=sh),
        Check("timeout_with_mapper", _run_twm, strategy=_twm_cases(), examples={"quick": 1600, "thorough": T * 12000}, shards=sh),
    ]
