"""C35 Periodic scheduling threads state, keeps the period and stops.

This module holds the VIRTUAL-TIME half (Engine HIST, closed-form oracle).  The real-time half (EventLoopScheduler,
NewThreadScheduler, CatchScheduler(EventLoop) under a controlled clock, Engine DET) is to be appended as further
`Check` entries: write the run function(s) + strategy in a section of their own and return them from
`_realtime_checks(tier)` at the bottom; `checks(tier)` already concatenates both halves.  RULE / ASSUMPTIONS are
built from the `_RULE_*` / `_ASSUMPTIONS_*` pieces so the second half only adds its own piece.
"""
from __future__ import annotations

from hypothesis import strategies as st

import reactivex
from reactivex.scheduler import CatchScheduler

from vlib.core import FAIL, OK, Check
from vlib.values import canon
from vlib.vtsched import EXC_TYPES, clock_of, enc_abs, enc_rel, escaped, make, make_exc

PROPERTY_ID = "C35"
LEVEL = "exploration"

_RULE_VIRTUAL = (
    "VIRTUAL TIME - check 'periodic': schedule_periodic(period, action, state) on TestScheduler (integer ticks), "
    "VirtualTimeScheduler(0) and HistoricalScheduler (ms-granular periods; optional non-epoch start), and on "
    "CatchScheduler wrapping TestScheduler/HistoricalScheduler (handler verdict generated), called at top level or from "
    "inside an action at time t0 through the scheduler handed to that action; period 1..9 units as int/float/timedelta; "
    "state function f in {inc, double, none (returns None), const, append} with initial state in {0, 1, None, 'a'}; stop "
    "by disposing the returned disposable from a scheduler action at a generated time, from inside the k-th invocation, "
    "or never within the horizon; optionally the action raises at its k-th invocation an exception of a generated type (Tagged, TypeError, ValueError, KeyError, AttributeError, StopIteration, custom subclass, falsy exception object); the clock is driven by 1..4 "
    "advance_to/advance_by chunks (or start() when the work is known to stop). Oracle (closed form): the invocation log "
    "[clock, state] is exactly the prefix [(t0+k*period, f^(k-1)(s0)) for k=1..n] (None is threaded like any other "
    "state, see periodicscheduler.py), n = the number of periods within the horizon cut by dispose/raise (a tick at "
    "exactly the dispose instant may or may not run - both accepted), the action's exception surfaces iff the raising "
    "invocation happened (escapes the run on bare schedulers / goes to the handler on CatchScheduler) and nothing is "
    "invoked afterwards. Check 'interval': reactivex.interval(p) and timer(d, p) (d relative int/float/timedelta or "
    "absolute datetime, d == p and d != p, scheduler given to the factory or to subscribe) subscribed at t0, disposed at "
    "a generated time or never: on_next log is exactly [(t0+d+k*p, k) for k=0..n-1] with int values, no terminal event. "
    "Check 'resubscribe': ONE interval/timer observable subscribed 2..3 times at generated instants (also after an earlier subscription was disposed), each subscription optionally disposed: every subscription gets int 0,1,2,... at its own ticks (counted from its own subscribe time; from the absolute due time for an absolute d). The kinds histus/vtsus/catch-histus drive the same schedulers with microsecond-granular periods and times (exactly representable in datetime/timedelta/float seconds). "
    "Check 'late_ticks': interval/timer (relative and absolute d, also an absolute d in the past) whose ticks are served late - the observer's on_next consumes virtual time (scheduler.sleep inside the callback) and/or the clock sleeps over a pending tick, by amounts landing exactly on / just before / just after whole periods; judged only as far as the statement determines a late tick: values are 0,1,2,... in order, value k never before t0+d+k*period, never two values at one instant (period > 0), the first value not lost, nothing after dispose. "
    "Non-trivial: >=3 ticks and a dispose or raise strictly inside the run (late_ticks: a late tick served and >= 3 values; resubscribe: a later subscription emitted >= 2 values). Distinct = distinct case JSON."
)
_ASSUMPTIONS_VIRTUAL = [
    "periods are >= 1 unit (a zero period on virtual time never lets the clock advance; negative periods are excluded)",
    "a tick due at exactly the instant of a dispose issued from another scheduler action is a tie the property does not order: either outcome accepted",
    "after an exception escaped advance_to/start the harness calls stop() before driving the clock further",
    "timer(d, p) with an absolute d uses d >= now",
]

# real-time half: all of it lives in vlib/periodic_rt.py (Engine DET); this module only appends its checks / rule / assumptions
from vlib import periodic_rt as _rt  # noqa: E402

_RULE_REALTIME = _rt.RULE
_ASSUMPTIONS_REALTIME = _rt.ASSUMPTIONS
RULE = _RULE_VIRTUAL + " " + _RULE_REALTIME
ASSUMPTIONS = list(_ASSUMPTIONS_VIRTUAL) + list(_ASSUMPTIONS_REALTIME)

_F = {
    "inc": lambda s: (s or 0) + 1 if not isinstance(s, str) else s + "+",
    "double": lambda s: 1 if s is None else ((s + s)[:6] if isinstance(s, str) else 2 * s),
    "none": lambda s: None,
    "const": lambda s: s,
    "append": lambda s: (s if isinstance(s, tuple) else (s,)) + (len(s) if isinstance(s, tuple) else 0,),
}
_S0 = {"i0": 0, "i1": 1, "none": None, "sa": "a"}


def _build(kind, init, verdict, handled):
    """-> (driver scheduler (virtual), scheduler to call schedule_periodic / subscribe on, base kind)."""
    base = kind.split("-")[-1]
    inner = make(base, init)
    if kind.startswith("catch-"):

        def handler(ex):
            handled.append(ex)
            return verdict

        return inner, CatchScheduler(inner, handler), base
    return inner, inner, base


class _Runaway(BaseException):
    """The periodic action was invoked more often than any accepted outcome allows (breaks out of the run)."""


class _Driver:
    """Moves the virtual clock through the chunks; records what escapes."""

    def __init__(self, inner, base, t_origin):
        self.inner, self.base, self.t_origin = inner, base, t_origin
        self.escapes = []

    def now(self):
        return clock_of(self.base, self.inner)

    def run(self, steps, use_start):
        target = self.now()
        if use_start:
            self._guard(self.inner.start)
            return
        for d, how in steps:
            target += d
            for _ in range(3):  # re-drive the same chunk after an escape
                if self.now() >= target:
                    break
                if how == "to_dt":
                    ok = self._guard(lambda t=target: self.inner.advance_to(enc_abs(self.base, t, "dt")))
                elif how == "to_num":
                    ok = self._guard(lambda t=target: self.inner.advance_to(enc_abs(self.base, t, "num")))
                elif how == "by_td":
                    ok = self._guard(lambda t=target: self.inner.advance_by(enc_rel(self.base, t - self.now(), "td")))
                else:
                    ok = self._guard(lambda t=target: self.inner.advance_by(enc_rel(self.base, t - self.now(), "num")))
                if ok:
                    break

    def _guard(self, call):
        try:
            call()
            return True
        except Exception as ex:  # noqa: BLE001 - recorded; the oracle demands it is exactly the raised object
            self.escapes.append(ex)
            self.inner.stop()
            return False


def _expected_count(period, horizon, stop, raise_at):
    """(n_lo, n_hi): number of invocations within `horizon` units after t0."""
    n = horizon // period
    if raise_at is not None:
        n = min(n, raise_at)
    lo = hi = n
    if stop is not None:
        if stop[0] == "in":
            lo = hi = min(n, stop[1])
        else:
            d = stop[1]
            sure = (d - 1) // period  # ticks strictly before the dispose instant
            maybe = d // period  # ... or exactly at it
            lo, hi = min(n, sure), min(n, maybe)
    return lo, hi


# ------------------------------------------------------------------------------------------------ check: periodic
def _run_periodic(case):
    kind, init, t0, period = case["kind"], case["init"], case["t0"], case["period"]
    stop, raise_at, verdict = case["stop"], case["raise_at"], case["verdict"]
    f = _F[case["f"]]
    handled = []
    inner, target_sched, base = _build(kind, init, verdict, handled)
    drv = _Driver(inner, base, init + t0)
    log = []
    holder = {}
    raised = []
    cls = [kind, "f:" + case["f"]]

    horizon = sum(d for d, _ in case["steps"])
    terminates = stop is not None or raise_at is not None
    use_start = bool(case["start"] and terminates)
    if use_start:
        horizon = 10**9
    lo, hi = _expected_count(period, horizon, stop, raise_at)

    def action(state="<called-without-state>"):
        k = len(log) + 1
        if k > hi + 3:
            raise _Runaway()  # periodic work that should have stopped goes on: break out of start()/advance_*
        log.append([drv.now(), canon(state)])
        if stop is not None and stop[0] == "in" and k == stop[1]:
            holder["d"].dispose()
        if raise_at is not None and k == raise_at:
            ex = make_exc(case.get("exc") or "tagged", f"tick{k}")
            raised.append(ex)
            raise ex
        return f(state)

    def create(sched):
        holder["d"] = sched.schedule_periodic(enc_rel(base, period, case["pform"]), action, state=_S0[case["s0"]])

    never_ends = []
    if use_start:
        # start() only returns once the periodic work stopped rescheduling itself; a muted-but-alive periodic item (the
        # user action is no longer invoked, so the invocation fuse above cannot blow) would keep start() running for
        # ever. Fuse on the driver's public schedule_absolute (every tick re-arms through it).
        budget = [4 * (hi + 10) + 50]
        orig_sa = inner.schedule_absolute

        def counted_sa(duetime, act, state=None):
            budget[0] -= 1
            if budget[0] < 0:
                never_ends.append(True)
                raise _Runaway()
            return orig_sa(duetime, act, state)

        inner.schedule_absolute = counted_sa

    try:
        if stop is not None and stop[0] == "at":
            inner.schedule_absolute(enc_abs(base, init + t0 + stop[1], "num"), lambda s, st_=None: holder["d"].dispose())
        if case["via"] == "top":
            if t0:
                inner.sleep(enc_rel(base, t0, "num"))
            create(target_sched)
        else:
            # created from inside an action due at t0, through the scheduler handed to that action; with t0 == 0 the
            # creating action is due 'now' and runs first thing in the first chunk
            target_sched.schedule_absolute(enc_abs(base, init + t0, "num"), lambda s, st_=None: create(s))
            if t0:
                inner.advance_to(enc_abs(base, init + t0, "num"))
        drv.run(case["steps"], use_start)
        if use_start:
            # after start() returned (the periodic work stopped): one more chunk in which nothing may be invoked
            drv.run([(3 * period, "by_num")], False)
    except _Runaway:
        inner.stop()
    except Exception as e:  # noqa: BLE001
        return escaped(e, f"{kind}.schedule_periodic", f"case={case}", cls)

    n = len(log)
    origin = init + t0
    states, s = [], _S0[case["s0"]]
    for _ in range(max(n, hi)):
        states.append(canon(s))
        s = f(s)
    ideal = [[origin + (k + 1) * period, states[k]] for k in range(max(n, hi))]
    if stop is not None:
        cls.append("dispose-" + stop[0])
        if stop[0] == "at" and stop[1] % period == 0 and stop[1] // period <= (horizon // period):
            cls.append("dispose-tie-with-tick")
    if raise_at is not None and hi >= raise_at:
        cls.append("raise-reached")
        cls.append("raised:" + (case.get("exc") or "tagged"))
    if case["f"] == "none" or case["s0"] == "none":
        cls.append("none-state")
    if use_start:
        cls.append("driven-by-start")
    if len(case["steps"]) > 1:
        cls.append("chunked-advance")
    culprit = kind
    if never_ends:
        return FAIL(f"start-never-returns|{culprit}", f"the periodic item keeps re-arming after the work should have stopped ({n} invocations of the action, at most {hi} expected): start() would never return; log={log[:10]} case={case}", classes=cls)
    if n > hi:
        why = "after-raise" if (raise_at is not None and n > raise_at) else ("after-dispose" if stop is not None else "beyond-horizon")
        return FAIL(f"invoked-{why}|{culprit}", f"{n} invocations, expected at most {hi}; log={log[:10]} case={case}", classes=cls)
    for i in range(n):
        if i >= len(ideal) or log[i][0] != ideal[i][0]:
            exp_t = ideal[i][0] if i < len(ideal) else None
            return FAIL(f"tick-time|{culprit}", f"invocation #{i + 1} at {log[i][0]}, expected {exp_t}; log={log[:8]} case={case}", classes=cls)
        if log[i][1] != ideal[i][1]:
            return FAIL(f"state-threading|{culprit}", f"invocation #{i + 1} got state {log[i][1]}, expected {ideal[i][1]}; log={log[:8]} case={case}", classes=cls)
    if n < lo:
        return FAIL(f"missing-ticks|{culprit}", f"{n} invocations, expected at least {lo}; log={log[:10]} case={case}", classes=cls)
    # the exception surfaces iff the raising invocation happened
    did_raise = bool(raised)
    if kind.startswith("catch-"):
        if [id(x) for x in handled] != [id(x) for x in raised]:
            return FAIL(f"handler-calls|{culprit}", f"handler saw {handled}, raised {raised}; case={case}", classes=cls)
        exp_esc = [] if verdict else raised
    else:
        exp_esc = raised
    if [id(x) for x in drv.escapes] != [id(x) for x in exp_esc]:
        return FAIL(f"escapes|{culprit}", f"escaped {drv.escapes}, expected {exp_esc}; case={case}", classes=cls)
    inside = (stop is not None and n < horizon // period) or did_raise
    return OK(n >= 3 and inside, cls)


# ------------------------------------------------------------------------------------------------ check: interval
def _run_interval(case):
    kind, init, t0, period = case["kind"], case["init"], case["t0"], case["period"]
    handled = []
    inner, sched, base = _build(kind, init, True, handled)
    drv = _Driver(inner, base, init + t0)
    log, terminal = [], []
    holder = {}
    cls = [kind, case["op"]]
    origin = init + t0
    d = case["d"]
    try:
        p_arg = enc_rel(base, period, case["pform"])
        if case["op"] == "interval":
            first = period
            make_obs = lambda s: reactivex.interval(p_arg, scheduler=s)  # noqa: E731
        else:
            first = d
            d_arg = enc_abs(base, origin + d, "dt") if case["dform"] == "dt" else enc_rel(base, d, case["dform"])
            make_obs = lambda s: reactivex.timer(d_arg, p_arg, scheduler=s)  # noqa: E731

        cap = sum(x for x, _ in case["steps"]) // period + 5  # more emissions than periods in the horizon: runaway

        def on_next(v):
            if len(log) > cap:
                raise _Runaway()
            log.append([drv.now(), canon(v)])

        def subscribe(s):
            if case["sched_at"] == "factory":
                obs = make_obs(sched)
                holder["d"] = obs.subscribe(on_next=on_next, on_error=lambda e: terminal.append(["E", repr(e)]), on_completed=lambda: terminal.append(["C"]))
            else:
                obs = make_obs(None)
                holder["d"] = obs.subscribe(
                    on_next=on_next,
                    on_error=lambda e: terminal.append(["E", repr(e)]),
                    on_completed=lambda: terminal.append(["C"]),
                    scheduler=sched,
                )

        if case["dispose_at"] is not None:
            inner.schedule_absolute(enc_abs(base, origin + case["dispose_at"], "num"), lambda s, st_=None: holder["d"].dispose())
        if t0:
            inner.sleep(enc_rel(base, t0, "num"))
        subscribe(sched)
        drv.run(case["steps"], False)
    except _Runaway:
        inner.stop()
        return FAIL(f"runaway-emissions|{case['op']}", f"more than {cap} emissions within a horizon of {sum(x for x, _ in case['steps'])} units; log={log[:6]} case={case}", classes=cls)
    except Exception as e:  # noqa: BLE001
        return escaped(e, f"{case['op']}|{kind}", f"case={case}", cls)
    horizon = sum(x for x, _ in case["steps"])
    # ticks at first + k*period (k >= 0) within the horizon, cut by the dispose instant (tie accepted both ways)
    def count(limit, inclusive):
        if limit < first or (limit == first and not inclusive):
            return 0
        span = limit - first
        c = span // period + 1
        if not inclusive and span % period == 0:
            c -= 1
        return c

    hi = lo = count(horizon, True)
    da = case["dispose_at"]
    if da is not None:
        lo, hi = min(lo, count(da, False)), min(hi, count(da, True))
        cls.append("disposed")
        if lo != hi:
            cls.append("dispose-tie-with-tick")
    if case["op"] == "timer":
        cls.append("timer:d==p" if d == period and case["dform"] == case["pform"] else "timer:d!=p")
        cls.append("dform:" + case["dform"])
    n = len(log)
    for i in range(n):
        exp = [origin + first + i * period, ["int", i]]
        if log[i][0] != exp[0]:
            return FAIL(f"tick-time|{case['op']}", f"emission #{i} at {log[i][0]}, expected {exp[0]}; log={log[:8]} case={case}", classes=cls)
        if log[i][1] != exp[1]:
            return FAIL(f"value|{case['op']}", f"emission #{i} is {log[i][1]}, expected {exp[1]}; log={log[:8]} case={case}", classes=cls)
    if n > hi:
        return FAIL(f"emitted-{'after-dispose' if da is not None else 'beyond-horizon'}|{case['op']}", f"{n} emissions, at most {hi} expected; log={log[:10]} case={case}", classes=cls)
    if n < lo:
        return FAIL(f"missing-ticks|{case['op']}", f"{n} emissions, at least {lo} expected; log={log[:10]} case={case}", classes=cls)
    if terminal:
        return FAIL(f"terminal-event|{case['op']}", f"{terminal} case={case}", classes=cls)
    if drv.escapes or handled:
        return FAIL(f"escapes|{case['op']}", f"{drv.escapes} {handled} case={case}", classes=cls)
    return OK(n >= 3 and da is not None and da < horizon, cls)


# --------------------------------------------------------------------------------------------- check: resubscribe
def _run_resub(case):
    """ONE interval/timer observable subscribed 2..3 times at different instants (also after an earlier subscription was
    disposed): every subscription gets its own 0,1,2,... at its own ticks - relative forms count from that subscription's
    subscribe time, the absolute-datetime form from the absolute due time."""
    kind, init, t0, period = case["kind"], case["init"], case["t0"], case["period"]
    handled = []
    inner, sched, base = _build(kind, init, True, handled)
    drv = _Driver(inner, base, init + t0)
    origin = init + t0
    d, op, dform = case["d"], case["op"], case["dform"]
    cls = [kind, op, "subscriptions:%d" % len(case["subs"])]
    if base.endswith("us"):
        cls.append("microsecond-granular-period")
    logs = [[] for _ in case["subs"]]
    terminal = []
    disps = {}
    subs = []
    for i, (t_i, da) in enumerate(case["subs"]):
        if op == "timer" and dform == "dt":
            t_i = min(t_i, d)  # an absolute due time is never in the past of a subscription
        if da is not None and da <= t_i:
            da = t_i + 1 + (da % 3)
        subs.append((t_i, da))
    try:
        p_arg = enc_rel(base, period, case["pform"])
        by_factory = case["sched_at"] == "factory"
        if op == "interval":
            obs = reactivex.interval(p_arg, scheduler=sched if by_factory else None)
        else:
            d_arg = enc_abs(base, origin + d, "dt") if dform == "dt" else enc_rel(base, d, dform)
            obs = reactivex.timer(d_arg, p_arg, scheduler=sched if by_factory else None)

        cap = sum(x for x, _ in case["steps"]) // period + 5

        def on_next_for(i):
            def on_next(v):
                if len(logs[i]) > cap:
                    raise _Runaway()
                logs[i].append([drv.now(), canon(v)])

            return on_next

        def subscribe(i):
            kw = {} if by_factory else {"scheduler": sched}
            disps[i] = obs.subscribe(
                on_next=on_next_for(i),
                on_error=lambda e: terminal.append(["E", i, repr(e)]),
                on_completed=lambda: terminal.append(["C", i]),
                **kw,
            )

        for i, (t_i, da) in enumerate(subs):
            if da is not None:
                inner.schedule_absolute(enc_abs(base, origin + da, "num"), lambda s, st_=None, i=i: disps[i].dispose())
        if t0:
            inner.sleep(enc_rel(base, t0, "num"))
        for i, (t_i, da) in enumerate(subs):
            if t_i == 0:
                subscribe(i)
            else:
                inner.schedule_absolute(enc_abs(base, origin + t_i, "num"), lambda s, st_=None, i=i: subscribe(i))
        drv.run(case["steps"], False)
    except _Runaway:
        inner.stop()
        return FAIL(f"runaway-emissions|{op}", f"more than {cap} emissions by one subscription within the horizon; logs={[lg[:4] for lg in logs]} case={case}", classes=cls)
    except Exception as e:  # noqa: BLE001
        return escaped(e, f"{op}|{kind}", f"case={case}", cls)
    horizon = sum(x for x, _ in case["steps"])

    def count(first, limit, inclusive):
        if limit < first or (limit == first and not inclusive):
            return 0
        span = limit - first
        c = span // period + 1
        if not inclusive and span % period == 0:
            c -= 1
        return c

    resub_after_dispose = False
    nontrivial = False
    for i, (t_i, da) in enumerate(subs):
        if t_i > horizon:
            lo = hi = 0
            first = None
        else:
            first = d if (op == "timer" and dform == "dt") else t_i + (period if op == "interval" else d)
            lo = hi = count(first, horizon, True)
            if da is not None:
                lo, hi = min(lo, count(first, da, False)), min(hi, count(first, da, True))
        if i and any(pda is not None and pda <= t_i for _, pda in subs[:i]):
            resub_after_dispose = True
        n = len(logs[i])
        for j in range(n):
            exp = [origin + (first or 0) + j * period, ["int", j]]
            if first is None or logs[i][j][0] != exp[0]:
                return FAIL(f"tick-time|{op}|subscription#{min(i, 1)}", f"subscription {i} emission #{j} at {logs[i][j][0]}, expected {exp[0]}; log={logs[i][:8]} case={case}", classes=cls)
            if logs[i][j][1] != exp[1]:
                return FAIL(f"value|{op}|subscription#{min(i, 1)}", f"subscription {i} emission #{j} is {logs[i][j][1]}, expected {exp[1]}; log={logs[i][:8]} case={case}", classes=cls)
        if n > hi:
            return FAIL(f"emitted-{'after-dispose' if da is not None else 'beyond-horizon'}|{op}", f"subscription {i}: {n} emissions, at most {hi} expected; log={logs[i][:10]} case={case}", classes=cls)
        if n < lo:
            return FAIL(f"missing-ticks|{op}|subscription#{min(i, 1)}", f"subscription {i}: {n} emissions, at least {lo} expected; log={logs[i][:10]} case={case}", classes=cls)
        if i and n >= 2:
            nontrivial = True
    if resub_after_dispose:
        cls.append("resubscribed-after-dispose")
    if sum(1 for lg in logs if lg) >= 2:
        cls.append("two-subscriptions-emitting")
    if terminal:
        return FAIL(f"terminal-event|{op}", f"{terminal} case={case}", classes=cls)
    if drv.escapes or handled:
        return FAIL(f"escapes|{op}", f"{drv.escapes} {handled} case={case}", classes=cls)
    return OK(nontrivial, cls)


# ------------------------------------------------------------------------------------------------------ strategies
_KINDS = ["test", "hist", "vts", "catch-test", "catch-hist", "histus", "vtsus", "catch-histus"]
_steps = st.lists(
    st.tuples(st.one_of(st.integers(1, 12), st.integers(1, 40)), st.sampled_from(["to_dt", "to_num", "by_td", "by_num"])).map(list),
    min_size=1,
    max_size=4,
)


def _periodic_cases():
    def build(kind):
        base = kind.split("-")[-1]
        init = st.sampled_from([0, 0, 3, 86_400_000]) if base in ("hist", "histus") else st.just(0)
        stop = st.one_of(
            st.none(),
            st.tuples(st.just("at"), st.integers(1, 40)).map(list),
            st.tuples(st.just("at"), st.integers(1, 40)).map(list),
            st.tuples(st.just("in"), st.integers(1, 8)).map(list),
        )
        return st.fixed_dictionaries(
            {
                "kind": st.just(kind),
                "init": init,
                "t0": st.sampled_from([0, 0, 1, 5, 17]),
                "via": st.sampled_from(["top", "action"]),
                "period": st.one_of(st.integers(1, 4), st.integers(1, 9)),
                "pform": st.sampled_from(["num", "int", "td"]),
                "f": st.sampled_from(sorted(_F)),
                "s0": st.sampled_from(sorted(_S0)),
                "stop": stop,
                "raise_at": st.one_of(st.none(), st.none(), st.integers(1, 8)),
                "exc": st.sampled_from(EXC_TYPES + ("type",)),
                "verdict": st.booleans(),
                "steps": _steps,
                "start": st.booleans(),
            }
        )

    return st.sampled_from(_KINDS).flatmap(build)


def _interval_cases():
    def build(kind):
        base = kind.split("-")[-1]
        init = st.sampled_from([0, 0, 3, 86_400_000]) if base in ("hist", "histus") else st.just(0)
        period = st.one_of(st.integers(1, 4), st.integers(1, 9))

        def with_period(p):
            return st.fixed_dictionaries(
                {
                    "kind": st.just(kind),
                    "init": init,
                    "t0": st.sampled_from([0, 0, 2, 11]),
                    "op": st.sampled_from(["interval", "timer", "timer"]),
                    "period": st.just(p),
                    "pform": st.sampled_from(["num", "int", "td"]),
                    "d": st.one_of(st.just(p), st.integers(0, 9)),
                    "dform": st.sampled_from(["num", "int", "td", "dt"]),
                    "sched_at": st.sampled_from(["factory", "subscribe"]),
                    "dispose_at": st.one_of(st.none(), st.integers(1, 40)),
                    "steps": _steps,
                }
            )

        return period.flatmap(with_period)

    return st.sampled_from(_KINDS).flatmap(build)


# ---------------------------------------------------------------------------------------------- check: late ticks
def _run_late(case):
    """interval / timer whose ticks are served LATE: the observer's on_next consumes virtual time (scheduler.sleep inside
    the callback) and/or the clock sleeps at top level while a tick is pending - amounts chosen to land exactly on, just
    before and just after whole periods.  What the statement determines for a late tick is judged, nothing more:
    values are 0,1,2,... in order; value k is never emitted before t0 + d + k*period; with a period > 0 no two values are
    emitted at the same instant ('once per period'); the first value is not lost."""
    kind, init, period, d, op, dform = case["kind"], case["init"], case["period"], case["d"], case["op"], case["dform"]
    handled = []
    inner, sched, base = _build(kind, init, True, handled)
    drv = _Driver(inner, base, init)
    origin = init
    cls = [kind, op]
    overruns = [m * period + x for m, x in case["overrun"]]
    overruns = [max(o, 0) for o in overruns]
    n_max = case["take"]
    log, terminal, holder = [], [], {}
    try:
        p_arg = enc_rel(base, period, case["pform"])
        if op == "interval":
            first = period
            obs = reactivex.interval(p_arg, scheduler=sched)
        else:
            first = d
            d_arg = enc_abs(base, origin + d, "dt") if dform == "dt" else enc_rel(base, max(d, 0), dform)
            if dform != "dt":
                first = max(d, 0)
            obs = reactivex.timer(d_arg, p_arg, scheduler=sched)

        def on_next(v):
            k = len(log)
            if k > n_max + 3:
                raise _Runaway()
            log.append([drv.now(), canon(v)])
            if k + 1 >= n_max:
                holder["d"].dispose()
            o = overruns[k % len(overruns)]
            if o:
                inner.sleep(enc_rel(base, o, "num"))  # the observer takes o units of virtual time

        holder["d"] = obs.subscribe(on_next=on_next, on_error=lambda e: terminal.append(["E", repr(e)]), on_completed=lambda: terminal.append(["C"]))
        slept = 0
        for how, u in case["pre"]:
            if how == "sleep":
                amt = max(u[0] * period + u[1] + (max(first, 0) if u[2] else 0), 0)
                inner.sleep(enc_rel(base, amt, "num"))
                slept += amt
            else:
                inner.advance_by(enc_rel(base, max(u[0] * period + u[1], 1), "num"))
                slept += max(u[0] * period + u[1], 1)
        horizon = max(first, 0) + (n_max + 1) * (period + max(overruns)) + slept + 5
        inner.advance_to(enc_abs(base, origin + horizon, "num"))
    except _Runaway:
        inner.stop()
        return FAIL(f"runaway-emissions|{op}", f"more than {n_max + 3} values although disposed after {n_max}; log={log[:8]} case={case}", classes=cls)
    except Exception as e:  # noqa: BLE001
        return escaped(e, f"{op}|{kind}", f"case={case}", cls)
    path = "periodic-path" if (op == "interval" or (dform != "dt" and d == period and dform == case["pform"])) else "duetime-path"
    cls.append(path)
    late = [i for i, (t, _) in enumerate(log) if t > origin + first + i * period]
    if late:
        cls.append("late-tick-served")
    exact = [i for i in range(1, len(log)) if log[i][0] - (origin + first + (i - 1) * period) > 0 and (log[i - 1][0] - (origin + first)) % period == 0 and log[i - 1][0] > origin + first + (i - 1) * period]
    if exact:
        cls.append("tick-served-whole-periods-late")
    if any(h == "sleep" for h, _ in case["pre"]):
        cls.append("top-level-sleep-over-pending-tick")
    if any(overruns[k % len(overruns)] for k in range(len(log))):
        cls.append("observer-consumes-virtual-time")
    for i, (t, v) in enumerate(log):
        if v != ["int", i]:
            return FAIL(f"value|{op}|late", f"emission #{i} is {v}, expected int {i}; log={log[:8]} case={case}", classes=cls)
        if t < origin + first + i * period:
            return FAIL(f"early-tick|{op}|late", f"value {i} at {t}, before t0+d+k*p = {origin + first + i * period}; log={log[:8]} case={case}", classes=cls)
        if i and t == log[i - 1][0]:
            return FAIL(f"two-values-at-one-instant|{op}", f"values {i - 1} and {i} both at {t} (period {period}); log={log[:8]} case={case}", classes=cls)
        if i and t < log[i - 1][0]:
            return FAIL(f"time-went-backwards|{op}", f"log={log[:8]} case={case}", classes=cls)
    if len(log) > n_max:
        return FAIL(f"emitted-after-dispose|{op}|late", f"{len(log)} values, disposed after {n_max}; case={case}", classes=cls)
    if not log:
        return FAIL(f"missing-ticks|{op}|late", f"no value although the clock went {horizon} units past the subscription; case={case}", classes=cls)
    if terminal or drv.escapes or handled:
        return FAIL(f"terminal-or-escape|{op}|late", f"{terminal} {drv.escapes} {handled} case={case}", classes=cls)
    return OK(bool(late) and len(log) >= 3, cls)


def _late_cases():
    amount = st.tuples(st.sampled_from([0, 0, 1, 1, 2, 3]), st.sampled_from([0, 0, 0, 1, -1])).map(list)

    def build(kind):
        base = kind.split("-")[-1]
        init = st.sampled_from([0, 0, 3, 86_400_000]) if base in ("hist", "histus") else st.just(0)
        period = st.integers(1, 6)

        def with_period(p):
            pre = st.lists(
                st.one_of(
                    st.tuples(st.just("sleep"), st.tuples(st.sampled_from([0, 1, 1, 2]), st.sampled_from([0, 0, 1, -1]), st.booleans()).map(list)).map(list),
                    st.tuples(st.just("adv"), st.tuples(st.sampled_from([0, 1, 2]), st.sampled_from([0, 1, 2])).map(list)).map(list),
                ),
                max_size=3,
            )
            return st.fixed_dictionaries(
                {
                    "kind": st.just(kind),
                    "init": init,
                    "op": st.sampled_from(["interval", "timer", "timer", "timer"]),
                    "period": st.just(p),
                    "pform": st.sampled_from(["num", "int", "td"]),
                    "d": st.one_of(st.just(p), st.integers(0, 9), st.sampled_from([-p, -2 * p, -1])),
                    "dform": st.sampled_from(["num", "td", "dt", "dt"]),
                    "overrun": st.lists(amount, min_size=1, max_size=4),
                    "take": st.integers(2, 7),
                    "pre": pre,
                }
            )

        return period.flatmap(with_period)

    return st.sampled_from(_KINDS).flatmap(build)


def _resub_cases():
    sub = st.tuples(st.integers(0, 30), st.one_of(st.none(), st.integers(1, 40))).map(list)
    return st.tuples(_interval_cases(), st.lists(sub, min_size=1, max_size=2), st.one_of(st.none(), st.integers(1, 25))).map(
        lambda t: dict({k: v for k, v in t[0].items() if k != "dispose_at"}, subs=[[0, t[2]]] + sorted(t[1], key=lambda x: x[0]))
    )


def _virtual_checks(tier):
    return [
        Check("late_ticks", _run_late, strategy=_late_cases(), examples={"quick": 600, "thorough": 16 * 5000}, shards={"quick": 4, "thorough": 16}),
        Check("resubscribe", _run_resub, strategy=_resub_cases(), examples={"quick": 600, "thorough": 16 * 5000}, shards={"quick": 4, "thorough": 16}),
        Check("periodic", _run_periodic, strategy=_periodic_cases(), examples={"quick": 1600, "thorough": 16 * 12000}, shards={"quick": 4, "thorough": 16}),
        Check("interval", _run_interval, strategy=_interval_cases(), examples={"quick": 900, "thorough": 16 * 8000}, shards={"quick": 4, "thorough": 16}),
    ]


def _realtime_checks(tier):
    """Real-time half (controlled clock; EventLoopScheduler, NewThreadScheduler, CatchScheduler(EventLoop)): append
    Check entries here and extend RULE / ASSUMPTIONS with a `_RULE_REALTIME` / `_ASSUMPTIONS_REALTIME` piece."""
    return _rt.checks(tier)


def checks(tier):
    return _virtual_checks(tier) + _realtime_checks(tier)
