"""C06 Aggregating operators match their reference semantics (closed-form Python oracle, virtual time)."""
from __future__ import annotations

import functools
import itertools

from hypothesis import strategies as st

from reactivex import operators as ops

from vlib.core import Check, HarnessError
from vlib.lab import hkey
from vlib.listsem import (
    END,
    ERR,
    N,
    draw_clock,
    draw_name_or_absent,
    draw_pred,
    draw_resub,
    draw_src,
    draw_sub,
    draw_timeline,
    dval,
    mk_acc,
    mk_eq,
    mk_key,
    mk_map,
    mk_pred,
    pooled,
    run_case,
)
from vlib.values import HASHABLE_NAMES, NAMES, NUMERIC_NAMES

PROPERTY_ID = "C06"
LEVEL = "exploration"
RULE = (
    "One aggregate form (weighted choice among reduce, scan, count, sum, average, min, max, min_by, max_by, to_list, "
    "to_iterable, to_set, to_dict, first, last, single, first/last/single_or_default, all, some, contains, is_empty, "
    "sequence_equal against an observable and against an iterable; forms with a seed/default and sequence_equal are drawn 2-5 times as often) "
    "with generated parameters (seed/default absent, None or any value; hash/truthiness/constant predicates, a predicate returning the element itself (non-bool, judged by truthiness) or none; "
    "hash key mappers; key-equality comparers, plus an asymmetric key(element) < key(value) comparer for contains whose reference is any(comparer(element, value)) -- failures that vanish under swapped arguments get the signature contains:comparer-arg-order; subtraction-style comparers incl. a reversed one) over a finite timeline "
    "of 0..8 (quick) / 0..14 (thorough) elements ending in completion or error from a cold, synchronous-cold or hot "
    "(subscribed mid-stream) virtual-time source; numeric aggregates with default arithmetic draw from the numeric values "
    "(incl. 0, 0.0, False, True), everything else from the full domain (half of the cases from a 1-4 value sub-pool). "
    "sequence_equal's second sequence is a mutated copy of the first (equal / one value changed / one dropped / one "
    "appended) or independent, with its own times and terminal. Oracle: functools.reduce, itertools.accumulate, len, sum, "
    "left-fold mean, min/max with key, list/set/dict, first/last/single(+default), all/any/in, emptiness give the value; "
    "it is expected at the completion tick followed by completion, except short-circuit results (first, some, all=False, "
    "contains=True, is_empty=False, single's second element, sequence_equal mismatch) which are expected at the deciding "
    "element's tick; empty input without default gives an error of TYPE SequenceContainsNoElementsError at the completion tick "
    "for every aggregate without a default (reduce without seed, average with and without key mapper, min, max with and "
    "without comparer, first, last, single with and without predicate); a source error passes through at its tick unless the result was decided earlier. "
    "to_dict is also run with raising mappers (key mapper raises 'kf', element mapper raises 'ef' on generated hash classes "
    "of the element, frequently both on the same element): as in {key(x): elem(x) for x in xs} the key is evaluated before "
    "the value, so the sequence must end at the first faulting element's tick with the key mapper's exception when it "
    "raises, else the element mapper's (how often the other mapper is called is not judged). "
    "sequence_equal's decision is computed over the merged event order of both timelines; for events of the two "
    "sequences at the same tick both consistent orders (first-before-second, second-before-first) are accepted. "
    "Non-trivial: a value was expected and differs from the input list, or a boundary class (b:*: empty input, default or "
    "seed None/absent, default used, short-circuit, second element of single, duplicate keys, ties) is hit. "
    "About one case in eight runs on HistoricalScheduler (datetime clock) instead of TestScheduler; an iterable second sequence is a list, a tuple or (single subscription only) a one-shot iterator. In about a third of the cases (also in the enumeration; hot sources: overlapping or after dispose only) the same built observable is subscribed a second time (after termination, "
    "overlapping at a later tick, or right after disposing the first subscription early: the disposed probe must hold a "
    "prefix of its expected trace containing everything before the dispose tick) and the same oracle, shifted to the "
    "second subscribe tick, is applied to the second probe (signature suffix :2nd-subscription). "
    "Distinct = distinct case JSON."
)
ASSUMPTIONS = [
    "user callbacks are total pure functions except the raising mappers of the to_dict_faulty form; equality comparers are symmetric equivalence relations except the asymmetric one used for contains (argument order element, value grounded in the docstring example and Rx.NET); distinct / distinct_until_changed (C05) and sequence_equal keep symmetric comparers because no docstring or test fixes their argument order; ordering comparers are subtraction of total integer keys",
    "hot sources: events at or before the subscription tick are not part of the input",
    "an iterable second sequence of sequence_equal is delivered at the subscription tick",
    "single on a second element may fail with any operator-created exception",
]

# (form, weight)
_W = [
    ("reduce", 2),
    ("reduce_seed", 3),
    ("scan", 2),
    ("scan_seed", 3),
    ("count", 1),
    ("count_pred", 1),
    ("sum", 1),
    ("sum_key", 1),
    ("average", 1),
    ("average_key", 1),
    ("min", 1),
    ("min_comparer", 1),
    ("max", 1),
    ("max_comparer", 1),
    ("min_by", 1),
    ("min_by_comparer", 1),
    ("max_by", 1),
    ("max_by_comparer", 1),
    ("to_list", 1),
    ("to_iterable", 1),
    ("to_set", 1),
    ("to_dict", 1),
    ("to_dict_element", 1),
    ("to_dict_faulty", 2),
    ("first", 1),
    ("first_pred", 1),
    ("first_or_default", 5),
    ("last", 1),
    ("last_pred", 1),
    ("last_or_default", 5),
    ("single", 1),
    ("single_pred", 1),
    ("single_or_default", 5),
    ("all", 1),
    ("some", 1),
    ("some_pred", 1),
    ("contains", 1),
    ("contains_comparer", 1),
    ("contains_comparer_asym", 2),
    ("is_empty", 1),
    ("sequence_equal_obs", 3),
    ("sequence_equal_obs_comparer", 1),
    ("sequence_equal_iter", 2),
    ("sequence_equal_iter_comparer", 1),
]
FORMS = [f for f, _ in _W]
_WEIGHTED = [f for f, w in _W for _ in range(w)]
NUMERIC_FORMS = {"sum", "average", "min", "max", "min_by", "max_by"}  # default arithmetic on the elements / identity keys
HASHABLE_FORMS = {"to_set"}
SCNE = "SequenceContainsNoElementsError"


def _opt(a, name="default"):
    d = a[name]
    return (False, None) if d[0] == "absent" else (True, dval(d[1]))


def _subcmp(spec):
    """None | "neg" | {"m": m}: subtraction-style comparer on (numeric or any) keys."""
    if spec is None:
        return None
    if spec == "neg":
        return lambda x, y: y - x
    k = hkey(spec["m"])
    return lambda x, y: k(x) - k(y)


def _asym(spec, swapped=False):
    """{"lt": m}: asymmetric comparer(element, searched value) = key(element) < key(value)."""
    k = hkey(spec["lt"])
    if swapped:
        return lambda v, e: k(e) < k(v)
    return lambda e, v: k(e) < k(v)


def _faulty_mappers(a):
    """to_dict_faulty: key mapper raises Tagged("kf") and element mapper raises Tagged("ef") on hash classes of x."""
    from vlib.lab import hpred
    from vlib.values import Tagged

    key = hkey(a["key"]["m"])
    kbad = hpred(a["fm"], a["kr"])
    ebad = hpred(a["fm"], a["er"])

    def key_mapper(x):
        if kbad(x):
            raise Tagged("kf")
        return key(x)

    def element_mapper(x):
        if ebad(x):
            raise Tagged("ef")
        return ("m", x)

    return key_mapper, (element_mapper if a["elem"] else None), kbad, ebad


def _rank(spec):
    """The integer/numeric rank the comparer orders by (ascending)."""
    if spec is None:
        return lambda x: x
    if spec == "neg":
        return lambda x: -x
    return hkey(spec["m"])


# ---------------------------------------------------------------------------------------
# real operator


def _build(lab, form, a, second):
    if form == "reduce":
        return ops.reduce(mk_acc(a["acc"]))
    if form == "reduce_seed":
        return ops.reduce(mk_acc(a["acc"]), dval(a["seed"]))
    if form == "scan":
        return ops.scan(mk_acc(a["acc"]))
    if form == "scan_seed":
        return ops.scan(mk_acc(a["acc"]), dval(a["seed"]))
    if form == "count":
        return ops.count()
    if form == "count_pred":
        return ops.count(mk_pred(a["p"]))
    if form == "sum":
        return ops.sum()
    if form == "sum_key":
        return ops.sum(mk_key(a["key"]))
    if form == "average":
        return ops.average()
    if form == "average_key":
        return ops.average(mk_key(a["key"]))
    if form == "min":
        return ops.min()
    if form == "min_comparer":
        return ops.min(_subcmp(a["cmp"]))
    if form == "max":
        return ops.max()
    if form == "max_comparer":
        return ops.max(_subcmp(a["cmp"]))
    if form == "min_by":
        return ops.min_by(mk_key(a["key"]))
    if form == "min_by_comparer":
        return ops.min_by(mk_key(a["key"]), _subcmp(a["cmp"]))
    if form == "max_by":
        return ops.max_by(mk_key(a["key"]))
    if form == "max_by_comparer":
        return ops.max_by(mk_key(a["key"]), _subcmp(a["cmp"]))
    if form == "to_list":
        return ops.to_list()
    if form == "to_iterable":
        return ops.to_iterable()
    if form == "to_set":
        return ops.to_set()
    if form == "to_dict":
        return ops.to_dict(mk_key(a["key"]))
    if form == "to_dict_element":
        return ops.to_dict(mk_key(a["key"]), mk_map("tag"))
    if form == "to_dict_faulty":
        km, em, _, _ = _faulty_mappers(a)
        return ops.to_dict(km, em) if em is not None else ops.to_dict(km)
    if form == "first":
        return ops.first()
    if form == "first_pred":
        return ops.first(mk_pred(a["p"]))
    if form == "first_or_default":
        has, d = _opt(a)
        return ops.first_or_default(mk_pred(a["p"]), d) if has else ops.first_or_default(mk_pred(a["p"]))
    if form == "last":
        return ops.last()
    if form == "last_pred":
        return ops.last(mk_pred(a["p"]))
    if form == "last_or_default":
        has, d = _opt(a)
        p = mk_pred(a["p"])
        if has:
            return ops.last_or_default(d, p) if p is not None else ops.last_or_default(d)
        return ops.last_or_default(predicate=p) if p is not None else ops.last_or_default()
    if form == "single":
        return ops.single()
    if form == "single_pred":
        return ops.single(mk_pred(a["p"]))
    if form == "single_or_default":
        has, d = _opt(a)
        return ops.single_or_default(mk_pred(a["p"]), d) if has else ops.single_or_default(mk_pred(a["p"]))
    if form == "all":
        return ops.all(mk_pred(a["p"]))
    if form == "some":
        return ops.some()
    if form == "some_pred":
        return ops.some(mk_pred(a["p"]))
    if form == "contains":
        return ops.contains(dval(a["value"]))
    if form == "contains_comparer":
        return ops.contains(dval(a["value"]), mk_eq(a["cmp"]))
    if form == "contains_comparer_asym":
        return ops.contains(dval(a["value"]), _asym(a["cmp"]))
    if form == "is_empty":
        return ops.is_empty()
    if form.startswith("sequence_equal"):
        if second[0] == "iter":
            other = [dval(v) for v in second[1]]
            if a.get("as_tuple") or a.get("as") == "tuple":
                other = tuple(other)
            elif a.get("as") == "iterator":
                other = iter(other)  # one-shot iterable (single subscription only)
        else:
            other = second[1]
        eq = mk_eq(a.get("cmp"))
        return ops.sequence_equal(other, eq) if eq is not None else ops.sequence_equal(other)
    raise HarnessError(f"form {form}")


# ---------------------------------------------------------------------------------------
# reference computation


def _seq_equal(L, R, eq, l_first):
    """L, R = lists of (tick, kind, value|tag) incl. terminal. Decision over the merged event order."""
    ev = [(t, 0 if l_first else 1, i, "L", k, v) for i, (t, k, v) in enumerate(L)]
    ev += [(t, 1 if l_first else 0, i, "R", k, v) for i, (t, k, v) in enumerate(R)]
    ev.sort(key=lambda e: e[:3])
    seq = {"L": [], "R": []}
    done = {"L": False, "R": False}
    for t, _, _, side, k, v in ev:
        if k == "E":
            return [(t, "E", ["exc", v])], "src-error"
        if k == "C":
            done[side] = True
        else:
            seq[side].append(v)
        l, r = seq["L"], seq["R"]
        m = min(len(l), len(r))
        if k == "N" and len(seq[side]) <= m and not eq(l[len(seq[side]) - 1], r[len(seq[side]) - 1]):
            return [N(t, False), (t, "C", None)], "b:mismatch-at-element"
        if (done["L"] and len(r) > len(l)) or (done["R"] and len(l) > len(r)):
            return [N(t, False), (t, "C", None)], "b:length-mismatch"
        if done["L"] and done["R"]:
            return [N(t, True), (t, "C", None)], "b:equal"
    raise HarnessError("sequence_equal oracle: undecided")


def _oracle(form, a, E, term, S, second):
    xs = [dval(p) for _, p in E]
    ts = [t for t, _ in E]
    n = len(xs)
    T, tk, _tag = term
    done = END(term)
    cls = []
    completes = tk == "C"

    def agg(v):
        return [N(T, v), (T, "C", None)] if completes else done

    def no_elements():
        cls.append("b:no-elements-error")
        if completes:
            cls.append("scne-type-checked:" + form)
        return [ERR(T, SCNE)] if completes else done

    def at(i, v):
        cls.append("b:short-circuit")
        return [N(ts[i], v), (ts[i], "C", None)]

    def passing(spec):
        p = mk_pred(spec)
        if p is None:
            return list(range(n))
        return [i for i, x in enumerate(xs) if p(x)]

    if form in ("reduce", "reduce_seed"):
        acc = mk_acc(a["acc"])
        if form == "reduce_seed":
            seed = dval(a["seed"])
            if seed is None:
                cls.append("b:seed-none")
            exp = agg(functools.reduce(acc, xs, seed))
        elif n == 0:
            exp = no_elements()
        else:
            exp = agg(functools.reduce(acc, xs))
    elif form in ("scan", "scan_seed"):
        acc = mk_acc(a["acc"])
        if form == "scan_seed":
            seed = dval(a["seed"])
            if seed is None:
                cls.append("b:seed-none")
            # (itertools.accumulate treats initial=None as "no initial value", so fold by hand)
            vals = []
            state = seed
            for x in xs:
                state = acc(state, x)
                vals.append(state)
        else:
            vals = list(itertools.accumulate(xs, acc))
        exp = [N(t, v) for t, v in zip(ts, vals)] + done
    elif form in ("count", "count_pred"):
        exp = agg(len(passing(a.get("p"))))
    elif form in ("sum", "sum_key"):
        key = mk_key(a.get("key")) or (lambda x: x)
        exp = agg(sum(key(x) for x in xs))
    elif form in ("average", "average_key"):
        key = mk_key(a.get("key")) or (lambda x: float(x))
        if n == 0:
            # statement: "Empty input yields SequenceContainsNoElementsError where no default applies"
            exp = no_elements()
        else:
            s = 0
            for x in xs:
                s = s + key(x)
            exp = agg(s / float(n))
    elif form in ("min", "min_comparer", "max", "max_comparer"):
        rank = _rank(a.get("cmp"))
        if n == 0:
            exp = no_elements()
        else:
            pick = min if form.startswith("min") else max
            best = pick(xs, key=rank)  # first of the tied extrema, as Python's min/max
            if sum(1 for x in xs if rank(x) == rank(best)) > 1:
                cls.append("b:tie")
            exp = agg(best)
    elif form in ("min_by", "min_by_comparer", "max_by", "max_by_comparer"):
        key = mk_key(a["key"])
        rank = _rank(a.get("cmp"))
        ranks = [rank(key(x)) for x in xs]
        if n == 0:
            res = []
        else:
            best = min(ranks) if form.startswith("min") else max(ranks)
            res = [x for x, r in zip(xs, ranks) if r == best]
            if len(res) > 1:
                cls.append("b:tie")
        exp = agg(res)
    elif form in ("to_list", "to_iterable"):
        exp = agg(list(xs))
    elif form == "to_set":
        exp = agg(set(xs))
    elif form in ("to_dict", "to_dict_element"):
        key = mk_key(a["key"])
        elem = mk_map("tag") if form == "to_dict_element" else (lambda x: x)
        d = {}
        for x in xs:
            d[key(x)] = elem(x)
        if len(d) < n:
            cls.append("b:duplicate-keys")
        exp = agg(d)
    elif form == "to_dict_faulty":
        # reference {key_mapper(x): element_mapper(x) for x in xs}: per element the key expression is evaluated before
        # the value expression, and the first exception ends the computation (here: the sequence, at that element's tick)
        km, em, kbad, ebad = _faulty_mappers(a)
        d = {}
        exp = None
        for t, x in zip(ts, xs):
            kf = bool(kbad(x))
            ef = em is not None and bool(ebad(x))
            if kf or ef:
                cls.append("b:both-mappers-raise-same-element" if kf and ef else ("b:key-mapper-raises" if kf else "b:element-mapper-raises"))
                exp = [(t, "E", ["exc", "kf" if kf else "ef"])]
                break
            d[km(x)] = em(x) if em is not None else x
        if exp is None:
            exp = agg(d)
    elif form in ("first", "first_pred", "first_or_default"):
        ok = passing(a.get("p"))
        if ok:
            exp = at(ok[0], xs[ok[0]])
        elif form == "first_or_default":
            has, d = _opt(a)
            if completes:
                cls.append("b:default-used")
            exp = agg(d)
        else:
            exp = no_elements()
    elif form in ("last", "last_pred", "last_or_default"):
        ok = passing(a.get("p"))
        if ok:
            exp = agg(xs[ok[-1]])
        elif form == "last_or_default":
            has, d = _opt(a)
            if completes:
                cls.append("b:default-used")
            exp = agg(d)
        else:
            exp = no_elements()
    elif form in ("single", "single_pred", "single_or_default"):
        ok = passing(a.get("p"))
        if len(ok) >= 2:
            cls.append("b:second-element")
            exp = [ERR(ts[ok[1]], None)]
        elif len(ok) == 1:
            exp = agg(xs[ok[0]])
        elif form == "single_or_default":
            has, d = _opt(a)
            if completes:
                cls.append("b:default-used")
            exp = agg(d)
        else:
            exp = no_elements()
    elif form == "all":
        p = mk_pred(a["p"])
        bad = [i for i, x in enumerate(xs) if not p(x)]
        exp = at(bad[0], False) if bad else agg(True)
    elif form in ("some", "some_pred"):
        ok = passing(a.get("p"))
        exp = at(ok[0], True) if ok else agg(False)
    elif form in ("contains", "contains_comparer"):
        eq = mk_eq(a.get("cmp")) or (lambda u, v: u == v)
        v = dval(a["value"])
        ok = [i for i, x in enumerate(xs) if eq(x, v)]
        exp = at(ok[0], True) if ok else agg(False)
    elif form == "contains_comparer_asym":
        # reference: any(comparer(element, value) for element in xs) -- the comparer receives the
        # element first and the searched value second (docstring example, Rx.NET comparer.Equals(v, value))
        cmp = _asym(a["cmp"], swapped=bool(a.get("_swapped")))
        v = dval(a["value"])
        ok = [i for i, x in enumerate(xs) if cmp(x, v)]
        other = [i for i, x in enumerate(xs) if cmp(v, x)]
        if ok[:1] != other[:1]:
            cls.append("b:arg-order-matters")
        exp = at(ok[0], True) if ok else agg(False)
    elif form == "is_empty":
        exp = at(0, False) if n else agg(True)
    elif form.startswith("sequence_equal"):
        eq = mk_eq(a.get("cmp")) or (lambda u, v: u == v)
        L = [(t, "N", x) for t, x in zip(ts, xs)] + [(T, tk, _tag)]
        if second[0] == "iter":
            R = [(S, "N", dval(v)) for v in second[1]] + [(S, "C", None)]
        else:
            _, _, e2, t2 = second
            R = [(t, "N", dval(p)) for t, p in e2] + [t2]
        if second[0] == "iter":
            cls.append("iterable:" + ("tuple" if a.get("as_tuple") else a.get("as", "list")))
        e1, c1 = _seq_equal(L, R, eq, True)
        e2_, c2 = _seq_equal(L, R, eq, False)
        cls.append(c1)
        if e1 != e2_:
            cls.append("b:tie-order-matters")
            return [e1, e2_], cls
        return [e1], cls
    else:
        raise HarnessError(f"form {form}")
    if n == 0:
        cls.append("b:empty-input")
    if "default" in a:
        has, d = _opt(a)
        cls.append("b:default-absent" if not has else ("b:default-none" if d is None else "default-value"))
    return [exp], cls


def _run(case):
    res = run_case(case, _build, _oracle)
    if not res.ok and case["form"] == "contains_comparer_asym" and not case["args"].get("_swapped"):
        # root cause: does the trace agree with the reference when the comparer arguments are swapped?
        sw = dict(case, args=dict(case["args"], _swapped=True))
        if run_case(sw, lambda lab, form, a, second: _build(lab, form, case["args"], second), _oracle).ok:
            res.sig = "contains:comparer-arg-order"
    return res


# ---------------------------------------------------------------------------------------
# generator


def _pool_for(form, a):
    if form in NUMERIC_FORMS or (form in ("min_comparer", "max_comparer") and a.get("cmp") == "neg"):
        return NUMERIC_NAMES
    if form in ("reduce", "reduce_seed", "scan", "scan_seed") and a.get("acc") == "add":
        return NUMERIC_NAMES
    if form in HASHABLE_FORMS or (form in ("to_dict", "to_dict_element") and a.get("key") == "ident"):
        return HASHABLE_NAMES
    return NAMES


def _args(draw, form):
    if form in ("reduce", "scan"):
        return {"acc": draw(st.sampled_from(["pair", "pair", "add"]))}
    if form in ("reduce_seed", "scan_seed"):
        acc = draw(st.sampled_from(["pair", "pair", "add"]))
        if acc == "add":
            seed = draw(st.sampled_from(NUMERIC_NAMES))
        else:
            seed = draw(st.sampled_from(["none", "none"] + NAMES))
        return {"acc": acc, "seed": seed}
    if form in ("count_pred", "first_pred", "last_pred", "single_pred", "all", "some_pred"):
        return {"p": draw_pred(draw)}
    if form in ("first_or_default", "last_or_default", "single_or_default"):
        return {"p": draw_pred(draw, allow_none=True) if draw(st.integers(0, 1)) else None, "default": draw_name_or_absent(draw)}
    if form in ("sum_key", "average_key"):
        return {"key": {"m": draw(st.integers(2, 7))}}
    if form in ("min_comparer", "max_comparer"):
        return {"cmp": draw(st.sampled_from(["neg", {"m": 2}, {"m": 3}, {"m": 5}]))}
    if form in ("min_by", "max_by"):
        return {"key": "ident"}
    if form in ("min_by_comparer", "max_by_comparer"):
        return {"key": {"m": draw(st.integers(2, 7))}, "cmp": draw(st.sampled_from([None, "neg", {"m": 3}]))}
    if form == "to_dict_faulty":
        fm = draw(st.integers(2, 6))
        res = st.lists(st.integers(0, fm - 1), min_size=draw(st.integers(0, 1)), max_size=2, unique=True)
        kr = sorted(draw(res))
        er = kr if draw(st.integers(0, 2)) == 0 else sorted(draw(res))  # same classes: both mappers raise on the same element
        return {"key": {"m": draw(st.integers(2, 5))}, "elem": draw(st.sampled_from([True, True, True, False])), "fm": fm, "kr": kr, "er": er}
    if form in ("to_dict", "to_dict_element"):
        return {"key": draw(st.sampled_from(["ident", {"m": 2}, {"m": 3}, {"m": 5}]))}
    if form == "contains":
        return {"value": draw(st.sampled_from(NAMES))}
    if form == "contains_comparer":
        return {"value": draw(st.sampled_from(NAMES)), "cmp": {"m": draw(st.integers(2, 6))}}
    if form == "contains_comparer_asym":
        return {"value": draw(st.sampled_from(NAMES)), "cmp": {"lt": draw(st.integers(3, 7))}}
    if form.startswith("sequence_equal"):
        a = {}
        if form.endswith("comparer"):
            a["cmp"] = {"m": draw(st.integers(2, 6))}
        if "iter" in form:
            a["as"] = draw(st.sampled_from(["list", "tuple", "iterator"]))
        return a
    return {}


def _second_values(draw, first_vals, vs):
    mode = draw(st.sampled_from(["same", "same", "change", "drop", "append", "indep"]))
    vals = list(first_vals)
    if mode == "change" and vals:
        i = draw(st.integers(0, len(vals) - 1))
        vals[i] = draw(vs)
    elif mode == "drop" and vals:
        vals = vals[:-1]
    elif mode == "append":
        vals = vals + [draw(vs)]
    elif mode == "indep":
        vals = draw(st.lists(vs, max_size=4))
    return vals


@st.composite
def _cases(draw, max_len, forms=tuple(_WEIGHTED)):
    form = draw(st.sampled_from(list(forms)))
    args = _args(draw, form)
    vs = pooled(draw, _pool_for(form, args))
    ml = max_len
    if form.endswith("_or_default") and draw(st.integers(0, 2)) == 0:
        ml = 2
    if form.startswith("single") and draw(st.integers(0, 1)):
        ml = min(ml, 3)
    src = draw_src(draw, vs, ml)
    case = {"form": form, "args": args, "sub": 0, "src": src}
    if form.startswith("sequence_equal"):
        first_vals = [m[2] for m in src["tl"][:-1]]
        vals = _second_values(draw, first_vals, vs)
        if "iter" in form:
            case["src2"] = {"kind": "iter", "vals": vals}
        else:
            kind = draw(st.sampled_from(["cold", "cold", "hot", "sync"]))
            t = 0
            tl = []
            for v in vals:
                t += draw(st.integers(0, 3))
                tl.append([t, "N", v])
            t += draw(st.integers(0, 3))
            k = draw(st.sampled_from(["C", "C", "C", "E"]))
            tl.append([t, k, "e3" if k == "E" else None])
            case["src2"] = {"kind": kind, "tl": tl}
        case["sub"] = draw_sub(draw, src, case["src2"]) if draw(st.integers(0, 2)) else 0
    else:
        case["sub"] = draw_sub(draw, src)
    rs = draw_resub(draw, src, case.get("src2"))
    if rs is not None:
        case["resub"] = rs
        if args.get("as") == "iterator":
            args["as"] = "list"  # a one-shot iterator cannot serve two subscriptions
    ck = draw_clock(draw)
    if ck is not None:
        case["clock"] = ck
    return case


def _enum(tier):
    """Exhaustive: first/last/single (+_or_default with default absent/None/0) over n in 0..3 elements, C/E end."""
    names = ["none", "i0", "sa"]
    for base in ("first", "last", "single"):
        for n in range(0, 4):
            for end in ("C", "E"):
                for kind, sub in (("cold", 0), ("hot", 0), ("hot", 1), ("sync", 1)):
                    tl = [[i, "N", names[i % 3]] for i in range(n)] + [[n, end, "e1" if end == "E" else None]]
                    resubs = [None]
                    if kind == "cold":
                        resubs += [{"mode": "after", "d": 0}, {"mode": "overlap", "d": 0}, {"mode": "dispose", "d": 1}]
                    elif kind == "hot" and sub == 0 and n >= 1:
                        resubs += [{"mode": "overlap", "d": 0}, {"mode": "dispose", "d": 1}]
                    for rs in resubs:
                        extra = {} if rs is None else {"resub": rs}
                        yield dict({"form": base, "args": {}, "sub": sub, "src": {"kind": kind, "tl": tl}}, **extra)
                        for d in (["absent"], ["v", "none"], ["v", "i0"]):
                            for p in (None, {"m": 2, "r": [0]}):
                                yield dict({"form": base + "_or_default", "args": {"p": p, "default": d}, "sub": sub, "src": {"kind": kind, "tl": tl}}, **extra)


def checks(tier):
    ml = 8 if tier == "quick" else 14
    return [
        Check("enum-defaults", _run, cases=_enum, shards={"quick": 2, "thorough": 2}, exhaustive=True),
        Check(
            "forms",
            _run,
            strategy=_cases(ml),
            examples={"quick": 8000, "thorough": 16 * 50000},
            shards={"quick": 8, "thorough": 16},
        ),
    ]
