"""C26 Container disposables dispose each held item exactly once (HIST models + DET schedules)."""
from __future__ import annotations

from hypothesis import strategies as st

from vlib import det_selftest, disp
from vlib.core import OK, Check

PROPERTY_ID = "C26"
LEVEL = "exploration"
RULE = (
    "Items are fresh counting disposables (one per add/assign command; 'plain' = bare DisposableBase, 'empty' = an empty "
    "CompositeDisposable, i.e. a falsy object; in the one-thread histories also 'reenter' / 'reenter-clear' = the item's "
    "dispose() calls its container's dispose() / clear(), bounded depth, and 'raises' = the item's dispose() raises after "
    "counting and the history goes on) that count every dispose() call. No item may ever be disposed twice; the model "
    "follows re-entrant calls (an item disposed for the first time disposes/clears its container); once an item has raised "
    "out of a container call only 'at most once' is judged. "
    "hist/hist-enum: command lists on one thread (composite: add/remove/contains/clear/len/dispose with constructor items and "
    "never-added items; serial/single/multi: assign/get/dispose), generated (1..20 commands) and exhaustively enumerated "
    "(all lists up to 4-5 commands over a small alphabet); an explicit model is stepped alongside and after EVERY command each "
    "item's dispose count must equal the promised count (1 once removed/cleared/replaced-in-Serial/container disposed/"
    "added-or-assigned after disposal; 0 while held or when MultipleAssignment lets it go), remove/contains/len/get/"
    "is_disposed must agree, and a second assignment to a live SingleAssignmentDisposable must raise. "
    "det-enum/det-gen: 2-3 logical threads with 1-3 commands each on one shared container run by Engine DET (vlib/det.py: "
    "line-level yield points in reactivex code, cooperative locks); det-enum explores every schedule with <=1 (quick) / <=2 "
    "(thorough) preemptions for all programs with <=3 commands over the class alphabet (thorough also 2||2 with <=2 and "
    "1||1||2 with <=2, composite <=1, preemptions); det-gen draws programs and <=3 "
    "preemption points. Oracle = interleaving-independent end-state clauses on the sequentially consistent call log: no item "
    "disposed twice; an added/accepted item is disposed iff it is no longer held; nothing is held and everything is disposed "
    "once a dispose() ran; remove()==True implies disposed; at most one assignment accepted by a live SingleAssignment; "
    "is_disposed true right after dispose() returns; no deadlock, no escaped exception. "
    "engine: self-test scenarios of Engine DET itself (vlib/det_selftest.py), counted as cases; they guard the trusted base. "
    "Non-trivial: hist = some item's promised count changed through remove/clear/replace/late add or a second assign was "
    "attempted; det = two threads' calls overlapped (a thread ran, another ran, the first ran again) in at least one explored "
    "schedule. Distinct = distinct case JSON."
)
ASSUMPTIONS = [
    "every add/assign uses a fresh item (the same disposable is never added twice; that is excluded as caller misuse)",
    "C-level atomicity of CPython (GIL build): a source line is the unit of interleaving, locks are cooperative replacements",
    "DET bounds: <=3 threads, <=3 commands per thread, <=2 preemptions exhaustive / <=3 drawn",
    "a rejected (raising) assignment leaves its argument unconstrained (only: not disposed more than once)",
]

_kind = st.sampled_from(disp.KINDS)
_hkind = st.sampled_from(disp.HIST_KINDS)  # single-thread histories also use re-entering and raising items
_hkind_c = st.sampled_from(disp.HIST_KINDS + ("reenter-clear",))
_ref = st.integers(0, 7)


def _hist_cmds(cls):
    if cls == "composite":
        c = st.one_of(
            st.tuples(st.just("add"), _hkind_c), st.tuples(st.just("add"), _hkind_c), st.tuples(st.just("remove"), _ref),
            st.tuples(st.just("remove"), _ref), st.tuples(st.just("contains"), _ref), st.tuples(st.just("clear")),
            st.tuples(st.just("len")), st.tuples(st.just("dispose")),
        )  # fmt: skip
    else:
        c = st.one_of(st.tuples(st.just("assign"), _hkind), st.tuples(st.just("assign"), _hkind), st.tuples(st.just("get")), st.tuples(st.just("dispose")))
    return st.lists(c.map(list), min_size=1, max_size=20)


_hist = st.sampled_from(["composite", "composite", "serial", "single", "multi"]).flatmap(
    lambda cls: st.fixed_dictionaries(
        {
            "cls": st.just(cls),
            "init": st.lists(_hkind_c, max_size=3) if cls == "composite" else st.just([]),
            "ctor_list": st.booleans() if cls == "composite" else st.just(False),
            "foreign": st.lists(_kind, max_size=1),
            "cmds": _hist_cmds(cls),
        }
    )
)


def _hist_enum(tier):
    n = 4 if tier == "quick" else 5
    assign = [("assign", "plain"), ("assign", "empty"), ("get",), ("dispose",)]
    for cls in ("single", "serial", "multi"):
        for cmds in disp.sequences(assign, n + 1):
            yield {"cls": cls, "init": [], "ctor_list": False, "foreign": [], "cmds": cmds}
    comp = [("add", "plain"), ("add", "empty"), ("remove", 0), ("remove", 1), ("clear",), ("dispose",), ("len",), ("contains", 0)]
    for init in ([], ["empty"]):
        for cmds in disp.sequences(comp, n):
            yield {"cls": "composite", "init": init, "ctor_list": False, "foreign": [], "cmds": cmds}
    # items whose dispose() re-enters the container (dispose()/clear()) or raises after counting
    assign_x = [("assign", "plain"), ("assign", "reenter"), ("assign", "raises"), ("dispose",)]
    for cls in ("single", "serial", "multi"):
        for cmds in disp.sequences(assign_x, n + 1):
            if any(c[0] == "assign" and c[1] != "plain" for c in cmds):
                yield {"cls": cls, "init": [], "ctor_list": False, "foreign": [], "cmds": cmds}
    comp_x = [("add", "plain"), ("add", "reenter"), ("add", "reenter-clear"), ("add", "raises"), ("remove", 0), ("remove", 1), ("clear",), ("dispose",)]
    for init in ([], ["reenter"], ["raises"]):
        for cmds in disp.sequences(comp_x, n if init else n - 1):
            if init or any(c[0] == "add" and c[1] != "plain" for c in cmds):
                yield {"cls": "composite", "init": init, "ctor_list": False, "foreign": [], "cmds": cmds}


_DET_ALPHA = {
    "single": [("assign", "plain"), ("assign", "empty"), ("dispose",)],
    "serial": [("assign", "plain"), ("assign", "empty"), ("dispose",)],
    "multi": [("assign", "plain"), ("assign", "empty"), ("dispose",)],
    # composite starts with one constructor item (index 0); index 1 is the first item added by the program
    "composite": [("add", "plain"), ("add", "empty"), ("remove", 0), ("remove", 1), ("clear",), ("dispose",)],
}


def _det_enum(tier):
    K = 1 if tier == "quick" else 2
    shapes2 = [(1, 1), (1, 2), (2, 1)]
    for cls, alpha in _DET_ALPHA.items():
        init = ["plain"] if cls == "composite" else []
        for threads in disp.programs(alpha, shapes2):
            yield {"cls": cls, "init": init, "foreign": [], "threads": threads, "sched": {"mode": "all", "K": K}}
        for threads in disp.programs(alpha, [(1, 1, 1)]):
            if tier == "quick" and not any(c[0] == "dispose" for t in threads for c in t):
                continue
            yield {"cls": cls, "init": init, "foreign": [], "threads": threads, "sched": {"mode": "all", "K": K}}
        if tier != "quick":  # deeper programs: 2||2 exhaustively with <=2 preemptions, 1||1||2 (<=2; composite <=1)
            for threads in disp.programs(alpha, [(2, 2)]):
                yield {"cls": cls, "init": init, "foreign": [], "threads": threads, "sched": {"mode": "all", "K": 2}}
            for threads in disp.programs(alpha, [(1, 1, 2)]):
                if any(c[0] == "dispose" for t in threads for c in t):
                    yield {"cls": cls, "init": init, "foreign": [], "threads": threads, "sched": {"mode": "all", "K": 1 if cls == "composite" else 2}}


def _det_cmd(cls):
    if cls == "composite":
        return st.one_of(st.tuples(st.just("add"), _kind), st.tuples(st.just("remove"), st.integers(0, 5)), st.tuples(st.just("clear")), st.tuples(st.just("dispose"))).map(list)
    return st.one_of(st.tuples(st.just("assign"), _kind), st.tuples(st.just("assign"), _kind), st.tuples(st.just("dispose"))).map(list)


_det_gen = st.sampled_from(["composite", "composite", "serial", "single", "single", "multi"]).flatmap(
    lambda cls: st.fixed_dictionaries(
        {
            "cls": st.just(cls),
            "init": st.lists(_kind, max_size=2) if cls == "composite" else st.just([]),
            "foreign": st.lists(_kind, max_size=1) if cls == "composite" else st.just([]),
            "threads": disp.program_strategy(_det_cmd(cls)),
            "sched": disp.sched_strategy(3),
        }
    )
)


def _engine(case):
    """Engine DET self-test (timers, event loop, deadlock report, budgets, determinism...); a failure is a
    HarnessError (exit 2), never a violation."""
    det_selftest.run(case["scenario"])
    return OK(True, ["scenario:" + case["scenario"]])


def checks(tier):
    return [
        Check("engine", _engine, cases=lambda tier: [{"scenario": n} for n in det_selftest.SCENARIOS], shards={"quick": 1, "thorough": 1}, exhaustive=True),
        Check("hist-enum", disp.hist_container, cases=_hist_enum, shards={"quick": 8, "thorough": 16}, exhaustive=True),
        Check("hist", disp.hist_container, strategy=_hist, examples={"quick": 1600, "thorough": 16 * 20000}, shards={"quick": 8, "thorough": 16}),
        Check("det-enum", disp.det_run, cases=_det_enum, shards={"quick": 8, "thorough": 16}, exhaustive=True),
        Check("det-gen", disp.det_run, strategy=_det_gen, examples={"quick": 2000, "thorough": 16 * 8000}, shards={"quick": 8, "thorough": 16}),
    ]
