"""C04 Cold observables can be subscribed again with identical results."""
from __future__ import annotations

import json

from hypothesis import strategies as st

import reactivex
from reactivex import operators as ops
from reactivex.disposable import Disposable

from vlib.core import FAIL, OK, SKIP, Check, HarnessError
from vlib.difftools import (
    HProbe,
    guard_all,
    coldify,
    dispose_tree,
    first_diff,
    norm_tree,
    runaway,
    runtime_multiset,
    shift_intervals,
    sort_intervals,
    src_key,
    tree_has_next,
)
from vlib.lab import Lab
from vlib.pipes import OPS, Builder, D, op_names, pipelines, s_inners, s_src, s_val
from vlib.values import Tagged, val

PROPERTY_ID = "C04"
LEVEL = "exploration"
RULE = (
    "ONE observable object is built from cold/synchronous logged virtual-time sources (no hot source anywhere, also not "
    "inside operator arguments), non-multicast operators and deterministic callbacks, and subscribed 2-3 times: each "
    "later subscription either overlaps the previous one at a generated offset 0..6 (0 = same instant; class "
    "overlap-after-first-element counts overlaps that start after the previous subscriber already got an element) or "
    "follows the previous one's termination / disposal after a generated gap 0..6, or is made synchronously from inside "
    "the previous subscriber's terminal callback (mode incb; in 1 case of 4 all sources are fully synchronous so the "
    "second subscribe is nested inside the first subscribe call: class resubscribed-nested-in-subscribe); each subscription may be disposed "
    "early at a generated tick 0..8 after it was made (classes cut-before-terminal, resubscribed-after-early-dispose), "
    "otherwise it is disposed at a horizon of 100 ticks if still running. "
    "Checks `generic` and `op.<name>`: random well-kinded pipelines over the shared operator table minus the tags "
    "multicast/abstime/scripted and minus window_when/buffer_when (their grammar callback is a counter); roots = one "
    "source or merge/concat/zip/combine_latest/amb/catch/on_error_resume_next/fork_join/with_latest_from/"
    "concat_with_iterable/catch_with_iterable/defer; `generic` draws 1..4 (thorough 1..6) operators freely, the 114 "
    "`op.<name>` checks give every admitted operator form the same budget by forcing it between 0-1 (thorough 0-2) random "
    "prefix and suffix operators. Checks `scripted` and `form.<name>`: 32 creation forms (while_do, do_while, if_then, "
    "case, defer, generate, generate_with_relative_time, for_in, from_callback, from_callable, repeat_value, catch, "
    "catch_with_iterable, on_error_resume_next incl. callable sources, concat, concat_with_iterable, zip, merge, "
    "combine_latest, fork_join, amb, with_latest_from, window_when, buffer_when, using, range, of, from_iterable, timer, "
    "interval, from_future over an already resolved concurrent Future, retry-under-repeat budgets) whose stateful user callbacks are scripts reset by the harness at every "
    "subscribe, followed by optional repeat/retry and 0-2 grammar operators; subscriptions strictly sequential. "
    "Check `slice-negstart`: boundary family slice(a<0, b>0) with a non-empty result over 2-6 elements, optionally under "
    "repeat(2)/to_list. Check `abstime`: delay / delay_subscription / take_until_with_time / skip_until_with_time / timeout(+other) / timer "
    "with an ABSOLUTE datetime argument, and timestamp, on TestScheduler and HistoricalScheduler, with 0-1 grammar "
    "operators before and after. "
    "Oracle (differential): the reference for a subscription is a single subscription (same early-dispose tick) to a "
    "FRESHLY BUILT observable in a separate lab - subscribed at tick 0 and compared after shifting by the subscribe tick "
    "(relative checks: this is the 'same notifications, same relative timing as the first subscription' clause, since "
    "all subscriptions are compared with the same reference), or subscribed at the same absolute tick and compared "
    "unshifted (`abstime`). Compared: the probe tree (notifications of the subscriber and of every window/group inner "
    "subscriber, ticks, values by canonical form, observable ids removed) and, per logged source, the multiset of "
    "subscription intervals, which must equal the union of the references' intervals (sources created by callbacks "
    "likewise). Non-trivial: the first trace has >=1 on_next and the pipeline contains an operator/creation form with "
    "per-subscription state (index, counter, iterator, queue, flag; see STATEFUL_OPS). Distinct = distinct case JSON."
)
ASSUMPTIONS = [
    "all sources are cold (timeline relative to subscription) or synchronous-cold; hot specs drawn inside operator arguments are re-read as cold",
    "relative checks exclude timestamp (absolute clock values); every other time operator of the table only yields relative quantities; absolute-time arguments are judged in `abstime` against a solo run at the same absolute tick, which is what 'fresh per-subscription state' implies when results legitimately depend on the clock",
    "grammar callbacks are pure functions of their arguments and create fresh logged inner sources per call; scripted callbacks are reset at each subscribe, therefore used with sequential subscriptions only",
    "a subscription that has not terminated 100 ticks after it was made is disposed (probe and inner probes); the same happens in the reference run, so the comparison stays like-for-like",
    "runs are discarded as inconclusive (and counted) when: the scheduler dequeues >=95 items without advancing its clock (spin bump, C29), the work budget is exceeded, the Python stack exceeds 400 frames or a RecursionError shows up in a trace (unbounded synchronous recursion is cut at a caller-dependent depth), or an exception escapes the scheduler in a reference run",
    "one-shot user iterables (a generator passed as the source list) are excluded: their exhaustion is the user's state, not the library's",
    "re-subscribing from inside a callback is generated only for the terminal callback and only with pure callbacks (not for scripted forms); re-subscribing from inside on_next is not generated",
    "start / to_async / from_callable-with-caching style factories are hot (they run once and replay through an AsyncSubject) and therefore outside the statement; from_future is covered only for an already resolved future, whose outcome is replayable by construction",
    "overlapping subscriptions for scripted (inherently stateful) callbacks are not generated: the callbacks receive no per-subscription token, so no reset can attribute a call to a subscription soundly",
]

H = 100  # horizon (ticks after subscribe) at which a still-running subscription is disposed

EXCL_TAGS = ("multicast", "scripted", "abstime")
EXCL_OPS = ("window_when", "buffer_when")  # closing_mapper in the shared grammar is a build-time counter

# operators / roots that keep per-subscription state (index, counter, iterator, queue, flag, buffer)
STATEFUL_OPS = {
    n
    for n, o in OPS.items()
    if (o.tags & {"indexed", "resub", "window", "group"})
    or n
    in {
        "take", "skip", "take_last", "skip_last", "take_last_buffer", "take_while", "skip_while", "distinct",
        "distinct_until_changed", "pairwise", "start_with", "default_if_empty", "element_at", "element_at_or_default",
        "find", "find_index", "slice", "reduce", "scan", "count", "sum", "average", "min", "max", "min_by", "max_by",
        "to_list", "to_set", "to_dict", "first", "first_or_default", "last", "last_or_default", "single",
        "single_or_default", "all", "some", "contains", "is_empty", "sequence_equal", "merge_max", "concat", "amb", "zip",
        "zip_with_iterable", "combine_latest", "with_latest_from", "fork_join", "take_until", "skip_until", "catch",
        "catch_handler", "on_error_resume_next", "concat_map", "switch_map", "flat_map_latest", "switch_latest",
        "exclusive", "expand", "buffer_with_count", "buffer_with_time", "buffer_with_time_or_count", "buffer",
        "buffer_toggle", "join", "group_join", "delay", "delay_with_mapper", "debounce", "throttle_with_timeout",
        "throttle_first", "throttle_with_mapper", "sample", "sample_obs", "time_interval", "take_with_time",
        "skip_with_time", "take_last_with_time", "skip_last_with_time", "take_until_with_time", "skip_until_with_time",
        "timeout", "timeout_with_mapper",
    }  # fmt: skip
}
STATEFUL_ROOTS = {"concat", "zip", "combine_latest", "amb", "catch", "on_error_resume_next", "fork_join", "with_latest_from", "concat_with_iterable", "catch_with_iterable"}


# ---------------------------------------------------------------------------------------
# the two worlds


def _world(build, plan, inner_pol, t0=0, clock="test"):
    """Build one observable in a fresh lab and subscribe it according to plan.

    plan[0] is the first subscription (at tick t0); plan[k] = {"mode": "ov", "d": n} subscribes n ticks after
    subscription k-1 was made; {"mode": "seq", "d": n} subscribes n ticks after subscription k-1 terminated or was
    disposed; {"mode": "drain", "d": n} subscribes n ticks after the scheduler ran dry.  Every entry may carry "cut": c - the subscription is disposed c ticks after it was made (default: the
    horizon H).  Returns (lab, probes, number of build-time sources)."""
    lab = Lab(clock)
    guard_all(lab)
    obs, reset = build(lab)
    nb = len(lab.sources)
    probes = []

    def subscriber(k):
        def go():
            if reset is not None:
                reset()
            p = HProbe(lab, f"p{k}", inner=inner_pol)
            lab.probes.append(p)
            probes.append(p)
            t = lab.now()
            fired = [False]

            def after():
                if fired[0]:
                    return
                fired[0] = True
                if k + 1 < len(plan) and plan[k + 1]["mode"] == "seq":
                    lab.at(lab.now() + plan[k + 1]["d"], subscriber(k + 1))
                elif k + 1 < len(plan) and plan[k + 1]["mode"] == "incb":
                    # synchronously, from inside the subscriber's terminal callback (or right after its disposal)
                    subscriber(k + 1)()

            def horizon():
                dispose_tree(p)
                after()

            p.on_term = after
            if k + 1 < len(plan) and plan[k + 1]["mode"] == "ov":
                lab.at(t + plan[k + 1]["d"], subscriber(k + 1))
            cut = plan[k].get("cut")
            lab.at(t + (H if cut is None else cut), horizon)
            p.subscribe(obs)

        return go

    lab.at(t0, subscriber(0))
    lab.run()
    # "drain": the next subscription is made only after the scheduler ran completely dry (every earlier subscription
    # terminated or disposed, including inner window/group subscribers that keep an upstream alive) - needed for
    # scripted callbacks, whose reset at subscribe must not be seen by a remnant of the previous subscription
    while lab.inconclusive is None and lab.escaped is None and len(probes) < len(plan) and plan[len(probes)]["mode"] == "drain":
        k = len(probes)
        lab.at(lab.now() + plan[k]["d"], subscriber(k))
        lab.run()
        if len(probes) == k:
            break
    return lab, probes, nb


def _judge(case, build, plan, inner_pol, culprits, stateful, cls, absolute=False, clock="test"):
    """Relative mode: reference for a subscription = solo run (fresh lab, fresh build, same cut) subscribed at tick 0,
    compared after shifting by the subscribe tick.  Absolute mode (absolute-time arguments / clock-valued elements):
    reference = solo run subscribed at the *same absolute tick*, compared unshifted."""
    W, pw, nb = _world(build, plan, inner_pol, 0, clock)
    if W.inconclusive:
        return SKIP(W.inconclusive)
    sigtail = ",".join(culprits[:4])
    refs = {}

    def ref_for(k):
        key = (pw[k].sub_tick if absolute else 0, plan[k].get("cut"))
        if key not in refs:
            refs[key] = _world(build, [{"mode": "first", "cut": key[1]}], inner_pol, key[0], clock)
        return refs[key]

    n_sub = len(pw) if W.escaped is not None else len(plan)
    if len(pw) < n_sub:
        raise HarnessError(f"world made {len(pw)} of {len(plan)} subscriptions")
    for k in range(n_sub):
        A, pa, nba = ref_for(k)
        if A.inconclusive:
            return SKIP(A.inconclusive)
        if A.escaped is not None:
            return SKIP("escaped-in-solo")
        if len(pa) != 1 or nba != nb:
            raise HarnessError("solo world did not subscribe / built differently")
    if W.escaped is not None:
        return FAIL("escaped-on-resubscribe|" + sigtail, f"{type(W.escaped).__name__}: {W.escaped} escaped the scheduler only when the observable is subscribed again; case={json.dumps(case)}", classes=cls)
    ticks = [p.sub_tick for p in pw]
    base = [0 if absolute else t for t in ticks]  # what to subtract from this world's ticks
    trees = [norm_tree(p, b) for p, b in zip(pw, base)]
    rtrees = []
    for k in range(len(plan)):
        A, pa, _ = ref_for(k)
        rtrees.append(norm_tree(pa[0], 0 if absolute else pa[0].sub_tick))
    if runaway(trees + rtrees):
        return SKIP("recursion")
    cls = list(cls)
    cls.append(f"subs:{len(plan)}")
    for k in range(1, len(plan)):
        m = plan[k]["mode"]
        if m == "incb":
            cls.append("resubscribed-inside-terminal-callback" if pw[k - 1].terminal() is not None and pw[k - 1].terminal()[0] == ticks[k] else "resubscribed-inside-dispose-action")
            if "all-sources-synchronous" in cls and pw[k - 1].terminal() is not None and pw[k - 1].sub_tick == ticks[k]:
                cls.append("resubscribed-nested-in-subscribe")
        else:
            cls.append("overlap-same-instant" if (m == "ov" and plan[k]["d"] == 0) else ("overlap" if m == "ov" else ("seq-gap0" if plan[k]["d"] == 0 else "seq")))
        if m == "ov" and any(e[1] == "N" and e[0] <= ticks[k] for e in pw[k - 1].events) and not any(e[1] in ("E", "C") and e[0] < ticks[k] for e in pw[k - 1].events):
            cls.append("overlap-after-first-element")
    for k in range(len(plan)):
        if plan[k].get("cut") is not None:
            cls.append("cut")
            if pw[k].terminal() is None:
                cls.append("cut-before-terminal")
                if k + 1 < len(plan):
                    cls.append("resubscribed-after-early-dispose")
    cls.append("first-terminated" if pw[0].terminal() is not None else "first-not-terminated")
    if pw[0].inners:
        cls.append("inner-probes")
    has_next = tree_has_next(rtrees[0]) or tree_has_next(trees[0])
    if has_next:
        cls.append("has-next")
    nontrivial = has_next and stateful
    for k in list(range(1, len(plan))) + [0]:
        if trees[k] != rtrees[k]:
            what = "the first of %d subscriptions" % len(plan) if k == 0 else f"subscription #{k} (at tick {ticks[k]}, {plan[k]})"
            same = "at the same tick " if absolute else ""
            return FAIL(
                ("first-vs-solo|" if k == 0 else "trace|") + sigtail,
                f"{what} differs from a single subscription {same}to a fresh build: {first_diff(rtrees[k], trees[k])}; solo={json.dumps(rtrees[k]['t'])} this={json.dumps(trees[k]['t'])}; first={json.dumps(trees[0]['t'])}; case={json.dumps(case)}",
                classes=cls,
            )
    # source subscription logs: union over subscriptions of the solo log moved to the subscribe tick
    def moved(k, subs):
        A, pa, _ = ref_for(k)
        return shift_intervals(subs, 0 if absolute else ticks[k] - pa[0].sub_tick)

    for j in range(nb):
        exp = sort_intervals([iv for k in range(len(plan)) for iv in moved(k, ref_for(k)[0].sources[j].subs)])
        got = sort_intervals(W.sources[j].subs)
        if exp != got:
            return FAIL(
                "source-subs|" + sigtail,
                f"source #{j} {src_key(W.sources[j])}: subscription intervals {got}, expected {exp} (union of the solo runs' intervals for subscriptions at ticks {ticks}); case={json.dumps(case)}",
                classes=cls,
            )
    exp_rt = []
    for k in range(len(plan)):
        for s in ref_for(k)[0].sources[nb:]:
            exp_rt.append(json.dumps([src_key(s), sort_intervals(moved(k, s.subs))]))
    exp_rt.sort()
    got_rt = runtime_multiset(W.sources[nb:])
    if exp_rt != got_rt:
        extra = [x for x in got_rt if x not in exp_rt][:2]
        missing = [x for x in exp_rt if x not in got_rt][:2]
        return FAIL(
            "inner-source-subs|" + sigtail,
            f"sources created by callbacks: {len(got_rt)} vs expected {len(exp_rt)}; unexpected={extra} missing={missing}; case={json.dumps(case)}",
            classes=cls,
        )
    if len(W.sources) > nb:
        cls.append("runtime-sources")
    return OK(nontrivial, cls)


# ---------------------------------------------------------------------------------------
# check 1: generic pipelines, pure callbacks


def _stateful_tags(pc):
    names = op_names(pc)
    out = set()
    for n in names:
        if n in STATEFUL_OPS:
            tg = OPS[n].tags & {"indexed", "resub", "window", "group", "time", "higher"}
            out.add("state:" + ("+".join(sorted(tg)) if tg else "plain"))
    if pc["root"]["f"] in STATEFUL_ROOTS:
        out.add("state:root")
    return sorted(out)


def _run_generic(case):
    pc = case["pipe"]
    plan = _plan(case, case["subs"])
    inner_pol = {"mode": case.get("inner", "now"), "d": 1}

    def build(lab):
        return Builder(lab).build(pc), None

    st_tags = _stateful_tags(pc) + (["all-sources-synchronous"] if case.get("flat") else [])
    culprits = sorted(set(op_names(pc))) + ([] if pc["root"]["f"] in ("single",) else ["root:" + pc["root"]["f"]])
    return _judge(case, build, plan, inner_pol, culprits, bool(_stateful_tags(pc)), st_tags)


_sub = st.fixed_dictionaries({"mode": st.sampled_from(["ov", "ov", "seq", "incb"]), "d": st.integers(0, 6)})
# per subscription: None = runs to its end (horizon), n = disposed n ticks after it was made
_cuts = st.lists(st.one_of(st.none(), st.none(), st.none(), st.integers(0, 8)), min_size=3, max_size=3)


def _plan(case, subs):
    cuts = case.get("cuts") or []
    plan = [{"mode": "first"}] + [dict(x) for x in subs]
    for k, e in enumerate(plan):
        e["cut"] = cuts[k] if k < len(cuts) else None
    return plan


_SRC_KINDS = ("cold", "cold", "sync")


def _generic_cases(max_ops):
    pipe = pipelines(max_ops=max_ops, min_ops=1, src_kinds=_SRC_KINDS, conforming=True, exclude_tags=EXCL_TAGS, exclude_ops=EXCL_OPS).map(coldify)
    base = st.fixed_dictionaries({"pipe": pipe, "subs": st.lists(_sub, min_size=1, max_size=2), "cuts": _cuts, "inner": st.sampled_from(["now", "now", "late"])})
    return st.tuples(base, st.sampled_from([0, 0, 1, 2, 2, 2, 2, 2])).map(lambda t: _maybe_flat(t[0], t[1]))


def flatten(x):
    """Make every source spec fully synchronous: kind "sync", all ticks 0 (the whole timeline is emitted inside
    subscribe).  Only then can a terminal callback - and a re-subscription made inside it - be nested in a subscribe."""
    if isinstance(x, dict):
        if set(x.keys()) == {"kind", "tl"}:
            return {"kind": "sync", "tl": [[0, k, p] for _, k, p in x["tl"]]}
        return {k: flatten(v) for k, v in x.items()}
    if isinstance(x, list):
        return [flatten(v) for v in x]
    return x


def _maybe_flat(case, sel):
    """sel == 0 (1 case in 4): the *nested* scenario - every source fully synchronous and the second subscription made
    from inside the first subscriber's terminal callback, i.e. inside the first subscribe() call; sel == 1 (1 in 8
    overall via the caller's range): synchronous sources with the drawn plan; otherwise unchanged."""
    if sel == 0:
        subs = [{"mode": "incb", "d": 0}] + case["subs"][1:]
        cuts = [None] + list(case["cuts"][1:])
        return dict(case, pipe=flatten(case["pipe"]), subs=subs, cuts=cuts, flat=True)
    if sel == 1:
        return dict(case, pipe=flatten(case["pipe"]), flat=True)
    return case


GEN_OPS = sorted(n for n, o in OPS.items() if not (o.tags & set(EXCL_TAGS)) and n not in EXCL_OPS)


def _focus_cases(name, extra):
    """Pipelines that are guaranteed to contain operator `name`: random root + 0..extra prefix operators, a kind
    adapter if needed, the focus operator with generated arguments, 0..extra suffix operators.  (A single random
    pipeline strategy was measured to give some operators 1 and others 128 occurrences in 750 cases.)"""
    o = OPS[name]
    pre = pipelines(max_ops=extra, src_kinds=_SRC_KINDS, conforming=True, exclude_tags=EXCL_TAGS, exclude_ops=EXCL_OPS)
    suf = pipelines(max_ops=extra, roots=["single"], src_kinds=_SRC_KINDS, exclude_tags=EXCL_TAGS, exclude_ops=EXCL_OPS, max_len=1)

    @st.composite
    def _c(draw):
        pc = draw(pre)
        chain = list(pc["ops"])
        kind = "any"
        for n, _ in chain:
            kind = kind if OPS[n].out == "same" else OPS[n].out
        if o.inp == "obs" and kind != "obs":
            chain.append(["map_to_obs", draw(OPS["map_to_obs"].args)])
        elif o.inp == "notif" and kind != "notif":
            chain.append(["materialize", {}])
        chain.append([name, draw(o.args)])
        chain += draw(suf)["ops"]
        case = {"pipe": {"root": pc["root"], "ops": chain}, "subs": draw(st.lists(_sub, min_size=1, max_size=2)), "cuts": draw(_cuts), "inner": draw(st.sampled_from(["now", "now", "late"]))}
        return _maybe_flat(coldify(case), draw(st.sampled_from([0, 0, 1, 2, 2, 2, 2, 2])))

    return _c()


def _slice_cases():
    """Boundary family for slice: negative start with positive stop and a non-empty result (the branch that keeps an
    element index), which the table's argument ranges reach in only ~1 of 50 cases."""

    @st.composite
    def _c(draw):
        n = draw(st.integers(2, 6))
        tl = []
        t = 0
        for i in range(n):
            t += draw(st.integers(0, 2))
            tl.append([t, "N", f"n:{i}"])
        tl.append([t + draw(st.integers(0, 2)), "C", None])
        a = -draw(st.integers(1, n))
        b = draw(st.integers(n + a + 1, n + 2))  # stop beyond the first selected index: non-empty result
        c = draw(st.one_of(st.none(), st.integers(1, 2)))
        tail = draw(st.one_of(st.just([]), st.just([["repeat", {"n": 2}]]), st.just([["to_list", {}]])))
        case = {"pipe": {"root": {"f": "single", "srcs": [{"kind": draw(st.sampled_from(["cold", "sync"])), "tl": tl}]}, "ops": [["slice", {"a": a, "b": b, "c": c}]] + tail}, "subs": draw(st.lists(_sub, min_size=1, max_size=2)), "cuts": draw(_cuts), "inner": "now"}
        return case

    return _c()


# ---------------------------------------------------------------------------------------
# check 2: creation forms with scripted (per-subscription) callbacks, sequential subscriptions


class Script:
    """Per-subscription call counters; the harness resets them right before every subscribe."""

    def __init__(self):
        self.c = {}

    def reset(self):
        self.c.clear()

    def tick(self, name):
        i = self.c.get(name, 0)
        self.c[name] = i + 1
        return i


_cold = ("cold", "cold", "sync")
_one = s_src(_cold)
_many = st.lists(s_src(_cold), min_size=1, max_size=3)
_vals = st.lists(s_val, max_size=3)

FORMS = {
    "while_do": D(src=_one, n=st.integers(0, 3)),
    "do_while": D(src=_one, n=st.integers(0, 3)),
    "if_then": D(cs=st.lists(st.booleans(), min_size=1, max_size=4), then=_one, els=st.one_of(st.none(), _one)),
    "case": D(ks=st.lists(st.integers(0, 2), min_size=1, max_size=4), srcs=st.lists(_one, min_size=2, max_size=2), default=st.one_of(st.none(), _one)),
    "defer": D(js=st.lists(st.integers(0, 2), min_size=1, max_size=4), srcs=_many, fresh=st.booleans()),
    "generate": D(n=st.integers(0, 5)),
    "generate_with_relative_time": D(n=st.integers(0, 4), dts=st.lists(st.integers(0, 3), min_size=1, max_size=3)),
    "for_in": D(vs=_vals, os=s_inners(_cold)),
    "from_callback": D(args=_vals, res=_vals, mapper=st.booleans()),
    "from_callable": D(vs=st.lists(s_val, min_size=1, max_size=3)),
    "repeat_value": D(v=s_val, n=st.integers(0, 4)),
    "catch": D(srcs=_many),
    "catch_with_iterable": D(srcs=_many),
    "on_error_resume_next": D(srcs=_many, call=st.lists(st.booleans(), min_size=3, max_size=3)),
    "concat": D(srcs=_many),
    "concat_with_iterable": D(srcs=_many),
    "zip": D(srcs=_many),
    "merge": D(srcs=_many),
    "combine_latest": D(srcs=_many),
    "fork_join": D(srcs=_many),
    "amb": D(srcs=_many),
    "with_latest_from": D(srcs=_many),
    "window_when": D(src=_one, os=s_inners(_cold)),
    "buffer_when": D(src=_one, os=s_inners(_cold)),
    "using": D(src=_one),
    "range": D(a=st.integers(-2, 3), n=st.integers(0, 5), step=st.integers(1, 3)),
    "of": D(vs=_vals),
    "from_iterable": D(vs=_vals),
    "timer": D(d=st.integers(0, 4), p=st.one_of(st.none(), st.integers(1, 3)), take=st.integers(0, 4)),
    "interval": D(p=st.integers(1, 3), take=st.integers(0, 4)),
    "from_future": D(v=s_val, err=st.booleans()),
    "retry_budget": D(src=s_src(_cold, terminal=("E", "E", "C")), n=st.integers(0, 3), outer=st.integers(1, 2)),
}


def _build_form(lab, B, sc, form, a):
    """Returns the observable for one creation form. Scripted callbacks read sc.tick(name)."""
    B.cur = form
    S = B.src
    if form == "while_do":
        return S(a["src"]).pipe(ops.while_do(B.fn("condition", lambda _o: sc.tick("c") < a["n"])))
    if form == "do_while":
        return S(a["src"]).pipe(ops.do_while(B.fn("condition", lambda _o: sc.tick("c") < a["n"])))
    if form == "if_then":
        cs = a["cs"]
        cond = B.fn("condition", lambda: cs[min(sc.tick("c"), len(cs) - 1)])
        return reactivex.if_then(cond, S(a["then"]), S(a["els"]) if a["els"] else None)
    if form == "case":
        ks = a["ks"]
        srcs = {i: S(s) for i, s in enumerate(a["srcs"])}
        mapper = B.fn("mapper", lambda: ks[min(sc.tick("k"), len(ks) - 1)])
        return reactivex.case(mapper, srcs, S(a["default"]) if a["default"] else None)
    if form == "defer":
        js, specs = a["js"], a["srcs"]
        pre = None if a["fresh"] else [S(s) for s in specs]

        def factory(_sch):
            j = js[min(sc.tick("f"), len(js) - 1)] % len(specs)
            return S(specs[j]) if pre is None else pre[j]

        return reactivex.defer(B.fn("factory", factory))
    if form == "generate":
        n = a["n"]
        return reactivex.generate(0, B.fn("condition", lambda x: x < n), B.fn("iterate", lambda x: x + 1))
    if form == "generate_with_relative_time":
        n, dts = a["n"], a["dts"]
        return reactivex.generate_with_relative_time(
            0, B.fn("condition", lambda x: x < n), B.fn("iterate", lambda x: x + 1), B.fn("time_mapper", lambda x: lab.rel(dts[x % len(dts)]))
        )
    if form == "for_in":
        return reactivex.for_in([val(v) for v in a["vs"]], B.inner_factory("mapper", a["os"]))
    if form == "from_callback":
        res = [val(v) for v in a["res"]]

        ncb = len(a["args"])  # the callback is the declared (ncb+1)-th positional parameter

        def func(*args):
            args[ncb](*res)

        mapper = B.fn("mapper", lambda t: ("m",) + tuple(t)) if a["mapper"] else None
        return reactivex.from_callback(B.fn("func", func), mapper)(*[val(v) for v in a["args"]])
    if form == "from_callable":
        vs = a["vs"]
        return reactivex.from_callable(B.fn("supplier", lambda: val(vs[sc.tick("s") % len(vs)])), scheduler=lab.sched)
    if form == "repeat_value":
        return reactivex.repeat_value(val(a["v"]), a["n"])
    if form in ("catch", "concat", "zip", "merge", "combine_latest", "fork_join", "amb", "with_latest_from"):
        return getattr(reactivex, form)(*[S(s) for s in a["srcs"]])
    if form == "catch_with_iterable":
        return reactivex.catch_with_iterable([S(s) for s in a["srcs"]])
    if form == "concat_with_iterable":
        return reactivex.concat_with_iterable([S(s) for s in a["srcs"]])
    if form == "on_error_resume_next":
        items = []
        for i, s in enumerate(a["srcs"]):
            if a["call"][i]:
                items.append(B.fn(f"factory{i}", (lambda spec: (lambda _e: S(spec)))(s)))
            else:
                items.append(S(s))
        return reactivex.on_error_resume_next(*items)
    if form in ("window_when", "buffer_when"):
        specs = a["os"]
        closing = B.fn("closing_mapper", lambda: S(specs[sc.tick("w") % len(specs)]))
        return S(a["src"]).pipe(ops.window_when(closing) if form == "window_when" else ops.buffer_when(closing))
    if form == "using":
        src = S(a["src"])
        return reactivex.using(B.fn("resource_factory", lambda: Disposable()), B.fn("observable_factory", lambda r: src))
    if form == "range":
        return reactivex.range(a["a"], a["a"] + a["n"] * a["step"], a["step"])
    if form == "of":
        return reactivex.of(*[val(v) for v in a["vs"]])
    if form == "from_iterable":
        return reactivex.from_iterable([val(v) for v in a["vs"]])
    if form == "timer":
        if a["p"] is None:
            return reactivex.timer(lab.rel(a["d"]), scheduler=lab.sched)
        return reactivex.timer(lab.rel(a["d"]), lab.rel(a["p"]), scheduler=lab.sched).pipe(ops.take(a["take"]))
    if form == "interval":
        return reactivex.interval(lab.rel(a["p"]), scheduler=lab.sched).pipe(ops.take(a["take"]))
    if form == "from_future":
        from concurrent.futures import Future

        fut = Future()  # already resolved: replays its outcome to every subscriber (cold by construction)
        if a["err"]:
            fut.set_exception(Tagged("fut"))
        else:
            fut.set_result(val(a["v"]))
        return reactivex.from_future(fut)
    if form == "retry_budget":
        # retry(n) under repeat(m): the retry allowance must be fresh for every (re)subscription
        return S(a["src"]).pipe(ops.retry(a["n"]), ops.repeat(a["outer"]))
    raise HarnessError(f"unknown form {form}")


def _run_scripted(case):
    form, a = case["form"], case["args"]
    plan = _plan(case, [{"mode": "drain", "d": d} for d in case["gaps"]])
    inner_pol = {"mode": "now"}

    def build(lab):
        B = Builder(lab)
        sc = Script()
        o = _build_form(lab, B, sc, form, a)
        B.opi += 1
        if case.get("resub"):
            o = o.pipe(getattr(ops, case["resub"][0])(case["resub"][1]))
        for name, args in case["ops"]:
            o = B.build_op(name, args)(o)
        return o, sc.reset

    culprits = [form] + ([case["resub"][0]] if case.get("resub") else []) + sorted({n for n, _ in case["ops"]})
    cls = ["form:" + form]
    if case.get("resub"):
        cls.append("resub-op")
    return _judge(case, build, plan, inner_pol, culprits, True, cls)


def _scripted_cases(max_ops, only=None):
    tail = pipelines(max_ops=max_ops, roots=["single"], src_kinds=_cold, exclude_tags=EXCL_TAGS, exclude_ops=EXCL_OPS, max_len=2).map(lambda pc: coldify(pc["ops"]))

    @st.composite
    def _c(draw):
        form = only if only is not None else draw(st.sampled_from(sorted(FORMS)))
        args = draw(FORMS[form])
        resub = draw(st.one_of(st.none(), st.none(), st.tuples(st.sampled_from(["repeat", "retry"]), st.integers(0, 3)).map(list)))
        return {"form": form, "args": args, "resub": resub, "ops": draw(tail), "gaps": draw(st.lists(st.integers(0, 5), min_size=1, max_size=2)), "cuts": draw(_cuts)}

    return _c()


# ---------------------------------------------------------------------------------------
# check 3: absolute-time arguments and clock-valued elements (reference = solo run subscribed at the same tick)

ABS_FORMS = ["delay", "delay_subscription", "take_until_with_time", "skip_until_with_time", "timeout", "timeout_other", "timer", "timer_period", "timestamp"]


def _abs_time(D):
    from datetime import timedelta

    from reactivex.internal.constants import UTC_ZERO

    return UTC_ZERO + timedelta(seconds=D)


def _run_abstime(case):
    form, D = case["form"], case["D"]
    plan = _plan(case, case["subs"])

    def build(lab):
        B = Builder(lab)
        o = B.src(case["src"])
        for name, args in case["pre"]:
            o = B.build_op(name, args)(o)
        at = _abs_time(D)
        if form == "delay":
            o = o.pipe(ops.delay(at))
        elif form == "delay_subscription":
            o = o.pipe(ops.delay_subscription(at))
        elif form == "take_until_with_time":
            o = o.pipe(ops.take_until_with_time(at))
        elif form == "skip_until_with_time":
            o = o.pipe(ops.skip_until_with_time(at))
        elif form == "timeout":
            o = o.pipe(ops.timeout(at))
        elif form == "timeout_other":
            o = o.pipe(ops.timeout(at, B.src(case["other"])))
        elif form == "timer":
            o = reactivex.merge(o, reactivex.timer(at, scheduler=lab.sched))
        elif form == "timer_period":
            o = reactivex.merge(o, reactivex.timer(at, lab.rel(case["period"]), scheduler=lab.sched).pipe(ops.take(3)))
        elif form == "timestamp":
            o = o.pipe(ops.timestamp())
        else:
            raise HarnessError(f"abstime form {form}")
        for name, args in case["post"]:
            o = B.build_op(name, args)(o)
        return o, None

    culprits = [form + "(absolute)"] + sorted({n for n, _ in case["pre"] + case["post"]})
    cls = ["form:" + form, "clock:" + case["clock"]]
    res = _judge(case, build, plan, {"mode": "now"}, culprits, True, cls, absolute=True, clock=case["clock"])
    return res


def _abstime_cases():
    chain = pipelines(max_ops=1, roots=["single"], src_kinds=_SRC_KINDS, exclude_tags=("multicast", "scripted"), exclude_ops=EXCL_OPS, max_len=1).map(lambda pc: coldify(pc["ops"]))
    return st.fixed_dictionaries(
        {
            "form": st.sampled_from(ABS_FORMS),
            "D": st.integers(0, 16),
            "period": st.integers(1, 3),
            "src": s_src(_SRC_KINDS, max_len=4),
            "other": s_src(_SRC_KINDS, max_len=2),
            "pre": chain,
            "post": chain,
            "subs": st.lists(_sub, min_size=1, max_size=2),
            "cuts": _cuts,
            "clock": st.sampled_from(["test", "test", "hist"]),
        }
    )


def checks(tier):
    q = tier == "quick"
    sh = {"quick": 8, "thorough": 16}
    out = [
        Check("generic", _run_generic, strategy=_generic_cases(4 if q else 6), examples={"quick": 2400, "thorough": 16 * 8000}, shards=sh),
        Check("scripted", _run_scripted, strategy=_scripted_cases(2 if q else 3), examples={"quick": 800, "thorough": 16 * 3000}, shards=sh),
    ]
    out.append(Check("slice-negstart", _run_generic, strategy=_slice_cases(), examples={"quick": 160, "thorough": 16 * 500}, shards=sh))
    out.append(Check("abstime", _run_abstime, strategy=_abstime_cases(), examples={"quick": 1200, "thorough": 16 * 5000}, shards=sh))
    # equal budget for every operator form / creation form
    for name in GEN_OPS:
        out.append(Check("op." + name, _run_generic, strategy=_focus_cases(name, 1 if q else 2), examples={"quick": 48, "thorough": 1600}, shards=sh))
    for form in sorted(FORMS):
        out.append(Check("form." + form, _run_scripted, strategy=_scripted_cases(1 if q else 2, only=form), examples={"quick": 80, "thorough": 3200}, shards=sh))
    return out
