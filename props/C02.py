"""C02 Termination releases every source subscription."""
from __future__ import annotations

from hypothesis import strategies as st

import reactivex
from reactivex import operators as ops

from vlib.core import FAIL, OK, SKIP, Check
from vlib.pipes import OPS, op_names, pipelines
from vlib.lab import BudgetExceeded
from vlib.values import Tagged, val
from vlib.relsub import INF, Diverged, DProbe, OBuilder, TLab, all_inners, release_deadline

PROPERTY_ID = "C02"
LEVEL = "exploration"
RULE = (
    "Random well-kinded pipelines (0..4 quick / 0..6 thorough operators from the shared operator table incl. the "
    "self-contained multicast forms, root = one source or merge/concat/zip/combine_latest/amb/catch/"
    "on_error_resume_next/fork_join/with_latest_from/defer over 1-3 sources) over conforming cold/hot/synchronous "
    "logged virtual-time sources; root sources without a terminal get one appended in most cases so the pipeline "
    "terminates; the probe never raises in on_next; in 2 of 5 cases its *terminal* handler misbehaves - 'handler': its "
    "on_error/on_completed raises after recording, 'default': no on_error is given so the library's default handler "
    "re-raises the sequence's error - the exception unwinds into the emitter / scheduler loop, is tolerated (exactly "
    "that exception, once) and the run keeps draining; the release oracle is unchanged (runs in which the exception "
    "unwinds through a subscribe() call in progress are not judged: the aborted subscribe functions never returned "
    "their disposables); the probe follows a generated policy for Observable-valued elements (subscribe "
    "now / late by d ticks / never; optionally unsubscribe u ticks after subscribing), applied recursively. "
    "Oracle (trace invariant over the source subscription logs): let T be the tick of the top probe's terminal. For "
    "every logged source subscription [a, b] opened by the pipeline or by an inner probe (root sources, sources in "
    "operator arguments, sources made by mapper/duration/closing factories), let t* be the earliest instant >= "
    "max(a, T) at whose end no inner probe is live (subscribed at or before t* and neither terminated nor "
    "unsubscribed by t*); if t* exists the subscription must be closed with b <= t* (in particular none is open at "
    "the end of the run). If some inner probe stays live for ever, nothing is demanded of subscriptions it could "
    "share. Inner observables that were never subscribed hold no subscription and do not postpone t*. "
    "One case in four runs on HistoricalScheduler (datetime clock, timedelta arguments). Family iter_take: an unbounded "
    "synchronous producer (from_iterable over a counted infinite generator, repeat_value, range(10^9), generate with "
    "an always-true condition, repeat() of a synchronous source) through 0-2 synchronous operators into take/first/"
    "element_at/take_while_indexed, on virtual time or on the trampoline: once the subscriber has its terminal no pull / "
    "generate callback / counted element step may follow (the producer is the source: being driven after the terminal "
    "means its subscription outlived the termination; a runaway is cut by the work budget and reported). "
    "Family teardown_term: termination triggered from user teardown code of a subscription an operator is replacing - "
    "a finally_action whose action fires (on_next or on_error, optionally only from its 2nd call) the trigger Subject of a "
    "downstream take_until sits on the subscription that timeout(d, other)/retry/repeat/catch/on_error_resume_next/"
    "switch_map/delay_subscription/subscribe_on replaces, or on the inner/duration/closing observables of local variants "
    "of switch_map, throttle_with_mapper, window_when(+merge_all) and timeout_with_mapper; the terminal is then delivered "
    "re-entrantly inside the operator's release of the old resource; same release oracle. "
    "Family queued_inners: bounded-concurrency merging - concat_map(mapper) or map(mapper)+merge(max_concurrent=1..2) over "
    "mapper-made logged inners (1-3 specs chosen by element hash, mostly completing, some erroring / never ending) on a "
    "cold/hot source of 2-6 elements, so inners beyond the limit wait in the operator's queue and are subscribed later from "
    "a sibling's completion; ended by a sibling inner's or the outer source's error, or downstream by take/first/take_until/"
    "take_with_time (+observe_on), or not at all; same release oracle (a dequeued inner is a source subscription the "
    "pipeline opened like any other). "
    "Non-trivial: the top probe terminated, >=2 source subscriptions were opened and at least one of them was "
    "opened on a source that had not delivered its own terminal by T. Distinct = distinct case JSON."
)
ASSUMPTIONS = [
    "a terminal-handler exception that unwinds through a subscribe() in progress (terminal delivered synchronously inside subscribe) is not judged: no handle to the partially built subscription ever existed; observed leaks there (e.g. with_latest_from/fork_join/flat_map with a synchronously terminating source) are reported, not failed",
    "close times are compared at tick granularity ('by the end of that virtual instant')",
    "a case in which an exception escapes the scheduler loop (possible only through non-catching harness emitters) is discarded and counted",
    "cases with >=90 actions at one virtual instant or exceeding the work budget are discarded as inconclusive and counted",
    "group/window observables the probe never subscribed to are treated as holding no subscription (they cannot have been 'unsubscribed')",
]


def _term_rel(tl):
    for t, k, _ in tl:
        if k in ("E", "C"):
            return t
    return None


def _src_done_by(s, a, T):
    """Had source s delivered its own terminal to the subscription opened at tick a by tick T? (tick granularity, generous)"""
    tr = _term_rel(s.timeline)
    if tr is None:
        return False
    due = tr if s.__class__.__name__ == "LoggedHot" else a + tr
    if s.__class__.__name__ == "LoggedHot" and tr < a:
        return False  # subscribed after the hot terminal: never delivered
    return due <= T


def mk_lab(case):
    """Virtual clock of the case: TestScheduler ticks, or HistoricalScheduler (datetime clock, 1 tick = 1 ms; all
    time arguments become timedelta)."""
    return TLab("hist", tick_s=0.001) if case.get("clock") == "hist" else TLab()


def run_pipeline(case, make=None):
    lab = mk_lab(case)
    if make is None:
        o = OBuilder(lab).build(case["pipe"])
    else:
        o = make(lab)
    mode = case.get("raise")  # None | "handler" (probe raises in its terminal handler) | "default" (no on_error given)
    p = DProbe(lab, "p", inner=case["inner"], raise_terminal=mode == "handler", no_on_error=mode == "default")
    lab.probes.append(p)

    lab.through_subscribe = False

    def tolerated(e):
        """The subscriber's own terminal handler raised: the exception legitimately unwinds into the emitter."""
        ok = False
        if mode == "handler":
            ok = isinstance(e, Tagged) and e.tag == "probe:p:terminal"
        elif mode == "default" and p.terminal() is None and not isinstance(e, RecursionError):
            p.note_default_error(e)  # the default on_error re-raised the sequence's error: that was the terminal
            ok = True
        if ok and _through_subscribe(e):
            lab.through_subscribe = True
        return ok

    try:
        p.subscribe(o)
    except (RecursionError, Diverged):
        lab.inconclusive = "recursion"
    except Exception as e:  # noqa
        if not tolerated(e):
            lab.escaped = e
    if lab.inconclusive or lab.escaped is not None:
        return lab, p
    for _ in range(8):
        lab.run()
        e = lab.escaped
        if e is None or lab.inconclusive or not tolerated(e):
            break
        lab.escaped = None  # keep draining: the rest of the run decides whether everything was released
    if lab.inconclusive is None and recursion_seen(lab):
        lab.inconclusive = "recursion"
    return lab, p


def _through_subscribe(e):
    """Did the exception unwind through a subscribe() call in progress?  Then the subscribe functions it aborted never
    returned their disposables: nobody ever held a handle to what they had already subscribed (not judged)."""
    tb = e.__traceback__
    while tb is not None:
        if tb.tb_frame.f_code.co_name in ("subscribe", "_subscribe_core", "_subscribe_with_snap"):
            return True
        tb = tb.tb_next
    return False


def recursion_seen(lab):
    """A RecursionError was converted into a notification somewhere: the run diverged (e.g. window_when whose closing
    observable fires inside subscribe opens windows without bound) - nothing can be judged."""
    for q in lab.probes:
        for e in q.events:
            if e[1] == "E" and isinstance(e[2], list) and len(e[2]) > 1 and e[2][1] == "RecursionError":
                return True
    return False


def _run(case):
    return judge(case, case["pipe"], *run_pipeline(case))


def judge(case, pc, lab, p):
    if lab.inconclusive:
        return SKIP(lab.inconclusive)
    if lab.escaped is not None:
        return SKIP("escaped:" + type(lab.escaped).__name__)
    cls = []
    term = p.terminal()
    inners = all_inners(p)
    nsubs = sum(len(s.subs) for s in lab.sources)
    if inners:
        cls.append("inner:" + case["inner"]["mode"] + ("+unsub" if case["inner"].get("unsub") is not None else ""))
    if term is None:
        cls.append("no-terminal")
        return OK(False, cls)
    T = term[0]
    cls.append("terminal:" + term[1])
    if case.get("clock") == "hist":
        cls.append("clock:hist")
    if case.get("raise"):
        if getattr(lab, "through_subscribe", False):
            cls.append("raise:" + case["raise"] + ":through-subscribe-not-judged")
            return OK(False, cls)
        cls.append("raise:" + case["raise"] + ":" + term[1])
    if p.sub_tick == T and not lab.ticks:
        cls.append("terminal-inside-subscribe")
    early = False
    bad = None
    exempt = 0
    late_subs = 0
    for s in lab.sources:
        for i, (a, b) in enumerate(s.subs):
            if not _src_done_by(s, a, T):
                early = True
            t0 = release_deadline(max(a, T), inners)
            if a > T:
                late_subs += 1
            if t0 == INF:
                exempt += 1
                continue
            if t0 > T:
                cls.append("waited-for-inner") if "waited-for-inner" not in cls else None
            if (b is None or b > t0) and bad is None:
                bad = (s, i, a, b, t0)
    if early:
        cls.append("early-termination")
    if exempt:
        cls.append("exempt-live-inner")
    if late_subs:
        cls.append("subscription-after-terminal")
    if any(q.sub_tick is None for q in inners):
        cls.append("inner-never-subscribed")
    if any(q.sub_tick is not None and q.sub_tick > T for q in inners):
        cls.append("inner-subscribed-after-terminal")
    if any(getattr(s, "dynamic", False) and s.subs for s in lab.sources):
        cls.append("factory-source-subscribed")
    if any(getattr(s, "owner", -1) >= 0 and not getattr(s, "dynamic", False) and s.subs for s in lab.sources):
        cls.append("aux-source-subscribed")
    nontrivial = nsubs >= 2 and early
    if bad is not None:
        s, i, a, b, t0 = bad
        owner = getattr(s, "owner", -1)
        culprit = (pc["root"]["f"] if pc["root"]["f"] != "single" else "source") if owner < 0 else pc["ops"][owner][0]
        kind = "never-closed" if b is None else "closed-late"
        return FAIL(
            f"{kind}|{culprit}",
            f"source {s.name} (owner {culprit}, {'factory-made' if getattr(s, 'dynamic', False) else 'static'}) subscription #{i} "
            f"opened t={a} closed t={b}; top terminal {term[1]} at t={T}; all inner subscribers done by t={t0}; "
            f"inners={[(q.name, q.sub_tick, q.end_tick()) for q in inners]} case={case}",
            classes=cls,
        )
    return OK(nontrivial, cls)


# ---------------------------------------------------------------------------------------


s_raise = st.sampled_from([None, None, None, "handler", "default"])
s_clock = st.sampled_from(["test", "test", "test", "hist"])


def inner_policies():
    return st.fixed_dictionaries(
        {
            "mode": st.sampled_from(["now", "now", "late", "never"]),
            "d": st.integers(0, 3),
            "unsub": st.one_of(st.none(), st.none(), st.integers(0, 4)),
        }
    )


def _terminate_roots(draw, pc):
    """Append a terminal to root sources that lack one (most of the time)."""
    for s in pc["root"]["srcs"]:
        tl = s["tl"]
        if _term_rel(tl) is None:
            k = draw(st.sampled_from(["C", "C", "E", None]))
            if k is not None:
                t = (tl[-1][0] if tl else 0) + draw(st.integers(0, 3))
                tl.append([t, k, "e3" if k == "E" else None])
    return pc


def cases(max_ops, **kw):
    @st.composite
    def _c(draw):
        pc = draw(pipelines(max_ops=max_ops, conforming=True, **kw))
        pc = _terminate_roots(draw, pc)
        return {"pipe": pc, "inner": draw(inner_policies()), "raise": draw(s_raise), "clock": draw(s_clock)}

    return _c()


_ENDERS = [n for n in ("take", "first", "first_or_default", "amb", "take_until", "take_until_with_time", "take_with_time", "take_while", "element_at",
                       "timeout", "single", "find", "some", "all", "contains", "is_empty", "sequence_equal", "zip", "catch",
                       "on_error_resume_next", "flat_map", "merge", "group_by_until", "window", "window_toggle", "join") if n in OPS]


def cases_forced(max_ops):
    """Pipelines that contain at least one early-ending / inner-holding operator at a drawn position."""

    @st.composite
    def _c(draw):
        pc = draw(pipelines(max_ops=max_ops, conforming=True))
        name = draw(st.sampled_from(_ENDERS))
        pos = draw(st.integers(0, len(pc["ops"])))
        pc["ops"] = _fit(pc["ops"][:pos] + [[name, draw(OPS[name].args)]] + pc["ops"][pos:])
        pc = _terminate_roots(draw, pc)
        return {"pipe": pc, "inner": draw(inner_policies())}

    return _c()


_OBS_MAKERS = sorted(n for n, o in OPS.items() if o.out == "obs")
_KEEPERS = sorted(n for n, o in OPS.items() if o.out == "same" and o.inp == "any" and "scripted" not in o.tags)


def cases_inner(max_ops):
    """Pipelines whose subscriber is handed group/window/element observables: prefix, an Observable-producing
    operator, then 0..2 kind-preserving operators (take, delay, filter, take_until, share, ...)."""

    @st.composite
    def _c(draw):
        pc = draw(pipelines(max_ops=max(0, max_ops - 2), conforming=True))
        g = draw(st.sampled_from(_OBS_MAKERS))
        post = []
        for _ in range(draw(st.integers(0, 2))):
            n = draw(st.sampled_from(_KEEPERS + ["take", "take", "take_until", "take_with_time", "first"]))
            post.append([n, draw(OPS[n].args)])
        pc["ops"] = _fit(pc["ops"] + [[g, draw(OPS[g].args)]] + post)
        pc = _terminate_roots(draw, pc)
        pol = draw(inner_policies())
        return {"pipe": pc, "inner": pol, "raise": draw(s_raise), "clock": draw(s_clock)}

    return _c()


def _fit(ops_):
    """Drop operators whose input-kind requirement is no longer met (keeps the pipeline well-kinded)."""
    k = "any"
    out = []
    for n, a in ops_:
        o = OPS[n]
        if o.inp in ("obs", "notif") and k != o.inp:
            continue
        out.append([n, a])
        k = k if o.out == "same" else o.out
    return out


# ---------------------------------------------------------------------------------------
# group_by_until whose duration observable is derived from the group it is given (the common idiom
# lambda g: g.pipe(skip(n)) ...), ended from downstream while earlier groups' durations are pending.
# The shared grammar's group_by_until entry only uses durations independent of the group.

SELF_DURATIONS = ["skip", "skip", "ignore_elements", "skip_merge_aux", "skip_delay", "take_last"]


def build_gbu_self(B, a):
    """Operator function for ['group_by_until_self', a]; registers as one operator of builder B."""
    B._owner = B.opi
    B.cur = "group_by_until_self"
    owner = B._owner
    key = B.key("key_mapper", a["k"])
    f, n = a["f"], a["n"]

    def dur(g):
        if f == "skip":
            return g.pipe(ops.skip(n))
        if f == "ignore_elements":
            return g.pipe(ops.ignore_elements())
        if f == "skip_merge_aux":
            return reactivex.merge(g.pipe(ops.skip(n)), B._mk(a["aux"], owner, True))
        if f == "skip_delay":
            return g.pipe(ops.skip(n), ops.delay(B.lab.rel(1)))
        if f == "take_last":
            return g.pipe(ops.take_last(1))
        raise AssertionError(f)

    o = ops.group_by_until(key, B.mapper("element_mapper", "g") if a["e"] else None, B.fn("duration_mapper", dur))
    B.opi += 1
    return o


def make_gbu(case):
    pc = case["pipe"]

    def make(lab):
        B = OBuilder(lab)
        o = B.build_root(pc["root"])
        for name, args in pc["ops"]:
            o = (build_gbu_self(B, args) if name == "group_by_until_self" else B.build_op(name, args))(o)
        return o

    return make


def _run_gbu(case):
    return judge(case, case["pipe"], *run_pipeline(case, make_gbu(case)))


def cases_gbu():
    from vlib.lab import timelines
    from vlib.pipes import s_src

    src = st.fixed_dictionaries({"kind": st.sampled_from(["cold", "hot", "cold"]), "tl": timelines(max_len=7, max_dt=2, min_len=2, terminal=(None, None, "C", "E"))})
    g = st.fixed_dictionaries({"k": st.integers(2, 4), "e": st.booleans(), "f": st.sampled_from(SELF_DURATIONS), "n": st.integers(0, 3), "aux": s_src(("cold",), max_len=2)})
    enders = st.one_of(
        st.integers(1, 4).map(lambda n: [["take", {"n": n}]]),
        st.integers(1, 4).map(lambda n: [["take", {"n": n}], ["observe_on", {}]]),
        s_src(("cold", "hot")).map(lambda sp: [["take_until", {"o": sp}]]),
        st.integers(1, 6).map(lambda d: [["take_with_time", {"d": d}]]),
        st.integers(0, 3).map(lambda n: [["element_at_or_default", {"n": n, "v": "none"}]]),
        st.just([]),
    )
    pol = st.fixed_dictionaries(
        {"mode": st.sampled_from(["now", "late", "never"]), "d": st.integers(0, 2), "unsub": st.one_of(st.none(), st.integers(0, 4), st.integers(0, 4))}
    )
    return st.fixed_dictionaries({"src": src, "g": g, "end": enders, "inner": pol, "raise": s_raise, "clock": s_clock}).map(
        lambda c: {"pipe": {"root": {"f": "single", "srcs": [c["src"]]}, "ops": [["group_by_until_self", c["g"]]] + c["end"]}, "inner": c["inner"], "raise": c["raise"], "clock": c["clock"]}
    )


# ---------------------------------------------------------------------------------------
# unbounded synchronous producers ended from downstream: the producer *is* the source; if it is still pulled /
# stepped after the subscriber's terminal its subscription has outlived the pipeline's termination.

ITER_OPS = ["map", "filter", "scan", "distinct_until_changed", "pairwise", "start_with", "do_action", "map_indexed", "skip", "default_if_empty"]


def _run_iter(case):
    from reactivex.scheduler import CurrentThreadScheduler  # noqa

    lab = mk_lab(case)
    lab.budget = 1500  # a few hundred steps suffice for every bounded run of this family
    B = OBuilder(lab)
    B.cur = case["form"]
    form = case["form"]
    vals = case["vals"]
    if form == "from_iterable":
        pull = B.fn("next", lambda i: None)

        def gen():
            i = 0
            while True:
                pull(i)
                yield val(vals[i % len(vals)])
                i += 1

        o = reactivex.from_iterable(gen())
    elif form == "repeat_value":
        o = reactivex.repeat_value(val(vals[0]))
    elif form == "range":
        o = reactivex.range(10**9)
    elif form == "generate":
        o = reactivex.generate(0, B.fn("condition", lambda i: True), B.fn("iterate", lambda i: i + 1))
    elif form == "repeat_op":
        o = B._mk({"kind": "sync", "tl": [[0, "N", vals[0]], [0, "C", None]]}, -1, False).pipe(ops.repeat())
    else:
        raise AssertionError(form)
    o = o.pipe(ops.map(B.fn("count", lambda x: x)))  # every element passes a counted harness step (work budget)
    B.opi = 1
    for name, a in case["ops"] + [case["end"]]:
        o = B.build_op(name, a)(o)
    p = DProbe(lab, "p", inner=None, raise_terminal=case.get("raise") == "handler")
    lab.probes.append(p)
    tramp = case["sched"] == "tramp"
    runaway = False
    try:
        p.subscribe(o, scheduler=None if tramp else "lab")
        for _ in range(3):
            if lab.inconclusive or tramp:
                break
            lab.run()
            if isinstance(lab.escaped, Tagged) and lab.escaped.tag == "probe:p:terminal":
                lab.escaped = None
                continue
            break
    except BudgetExceeded:
        lab.inconclusive = "budget"
    except (RecursionError, Diverged):
        lab.inconclusive = "recursion"
    except Tagged as e:
        if e.tag != "probe:p:terminal":
            raise
    term = p.terminal()
    cls = ["iter:" + form, "iter:" + case["sched"]]
    if lab.escaped is not None:
        return SKIP("escaped:" + type(lab.escaped).__name__)
    if term is None:
        return SKIP(lab.inconclusive or "no-terminal")  # e.g. filter that never passes: unbounded by construction
    if getattr(lab, "through_subscribe", False) and case.get("raise"):
        cls.append("raise:handler:through-subscribe-not-judged")
        return OK(False, cls)
    later = [e for e in lab.cb_log if e[1] > term[3]]
    if lab.inconclusive == "budget" or later:
        what = f"user code {later[0][2]}{later[0][3]} ran at seq {later[0][1]}" if later else "the producer ran until the work budget was exhausted"
        return FAIL(f"producer-outlives-terminal|{form}", f"{what} after the subscriber's terminal {term[1]} (seq {term[3]}); case={case}", classes=cls)
    if lab.inconclusive:
        return SKIP(lab.inconclusive)
    open_ = [(s.name, i) for s in lab.sources for i, (a_, b_) in enumerate(s.subs) if b_ is None]
    if open_:
        return FAIL(f"never-closed|{form}", f"source subscriptions {open_} open at the end; case={case}", classes=cls)
    cls.append("iter:ended-by:" + case["end"][0])
    return OK(True, cls)


def cases_iter():
    v = st.sampled_from(["i1", "i2", "none", "sa", "i0"])
    plain = st.sampled_from(ITER_OPS).flatmap(lambda n: st.tuples(st.just(n), OPS[n].args).map(list))
    end = st.one_of(
        st.integers(0, 4).map(lambda n: ["take", {"n": n}]),
        st.just(["first", {"p": None}]),
        st.integers(0, 3).map(lambda n: ["element_at", {"n": n}]),
        st.integers(1, 3).map(lambda n: ["take_while_indexed", {"p": {"m": 4, "r": list(range(n))}, "inc": False}]),
    )
    return st.fixed_dictionaries(
        {
            "form": st.sampled_from(["from_iterable", "from_iterable", "repeat_value", "range", "generate", "repeat_op"]),
            "vals": st.lists(v, min_size=1, max_size=3),
            "ops": st.lists(plain, max_size=2),
            "end": end,
            "sched": st.sampled_from(["vt", "tramp"]),
            "raise": st.sampled_from([None, None, "handler"]),
            "clock": s_clock,
        }
    )


# ---------------------------------------------------------------------------------------
# termination triggered from user teardown code of a subscription that an operator is replacing: the replaced
# subscription carries a finally_action whose action fires the trigger of a downstream take_until (on_next -> completion,
# on_error -> error), so the subscriber's terminal is delivered re-entrantly inside the operator's "dispose the old
# resource" step; whatever the operator subscribes next must still be released.

TDT_LOCAL = ("finally_fire", "switch_map_fire", "throttle_mapper_fire", "window_when_fire", "timeout_mapper_fire", "take_until_stop")


def _build_tdt_op(B, name, a, stop, fire):
    B._owner = B.opi
    B.cur = name
    owner = B._owner
    if name == "take_until_stop":
        o = ops.take_until(stop)
    elif name == "finally_fire":
        o = ops.finally_action(B.fn("action", fire))
    else:
        fin = B.fn("inner_finally", fire)
        specs = a["os"]

        def inner(*xs):
            return B._mk(specs[B.h(*xs) % len(specs)], owner, True).pipe(ops.finally_action(fin))

        if name == "switch_map_fire":
            o = ops.switch_map(B.fn("mapper", inner))
        elif name == "throttle_mapper_fire":
            o = ops.throttle_with_mapper(B.fn("throttle_duration_mapper", inner))
        elif name == "timeout_mapper_fire":
            o = ops.timeout_with_mapper(None, B.fn("timeout_duration_mapper", inner), B._mk(a["o"], owner, False))
        elif name == "window_when_fire":
            cnt = [0]

            def closing():
                cnt[0] += 1
                return inner(cnt[0])

            o = ops.compose(ops.window_when(B.fn("closing_mapper", closing)), ops.merge_all())
        else:
            raise AssertionError(name)
    B.opi += 1
    return o


def make_tdt(case):
    from reactivex.subject import Subject

    pc = case["pipe"]

    def make(lab):
        B = OBuilder(lab)
        stop = Subject()
        fired = [0]

        def fire():
            fired[0] += 1
            if fired[0] - 1 < case.get("skip", 0):
                return  # the first teardown calls do nothing: the trigger fires at a later replacement
            if case["fire"] == "E":
                stop.on_error(Tagged("stop"))
            else:
                stop.on_next("stop")

        o = B.build_root(pc["root"])
        for name, args in pc["ops"]:
            o = (_build_tdt_op(B, name, args, stop, fire) if name in TDT_LOCAL else B.build_op(name, args))(o)
        return o

    return make


def _run_tdt(case):
    lab, p = run_pipeline(case, make_tdt(case))
    r = judge(case, case["pipe"], lab, p)
    extra = []
    term = p.terminal()
    if term is not None and not r.inconclusive:
        # was the terminal delivered from inside user teardown code? (the last callback logged before it is a teardown)
        before = [e for e in lab.cb_log if e[1] < term[3]]
        if before and before[-1][2].endswith(("finally_fire.action", ".inner_finally")):
            extra.append("tdt:terminal-from-teardown:" + term[1])
        extra.append("tdt:" + "+".join(n for n, _ in case["pipe"]["ops"] if n in TDT_LOCAL and n != "take_until_stop"))
    r.classes = tuple(r.classes) + tuple(extra)
    return r


def cases_tdt():
    from vlib.lab import timelines
    from vlib.pipes import s_inners, s_src

    src = st.fixed_dictionaries({"kind": st.sampled_from(["cold", "hot", "cold"]), "tl": timelines(max_len=5, max_dt=3, min_len=1, terminal=(None, "C", "E"))})
    pre = st.lists(st.sampled_from(["map", "filter", "do_action"]).flatmap(lambda n: st.tuples(st.just(n), OPS[n].args).map(list)), max_size=1)
    replacer = st.one_of(
        st.tuples(st.integers(1, 4), s_src(("cold", "cold", "hot"))).map(lambda t: [["finally_fire", {}], ["timeout", {"d": t[0], "o": t[1]}]]),
        s_inners().map(lambda os_: [["switch_map_fire", {"os": os_}]]),
        s_inners().map(lambda os_: [["switch_map_fire", {"os": os_}]]),
        s_inners().map(lambda os_: [["throttle_mapper_fire", {"os": os_}]]),
        s_inners().map(lambda os_: [["window_when_fire", {"os": os_}]]),
        st.tuples(s_inners(), s_src(("cold", "cold", "hot"))).map(lambda t: [["timeout_mapper_fire", {"os": t[0], "o": t[1]}]]),
        st.sampled_from(["retry", "repeat", "catch", "on_error_resume_next", "switch_map", "delay_subscription", "subscribe_on"]).flatmap(
            lambda n: OPS[n].args.map(lambda a: [["finally_fire", {}], [n, a]])
        ),
    )
    mid = st.lists(st.sampled_from(["map", "filter", "scan"]).flatmap(lambda n: st.tuples(st.just(n), OPS[n].args).map(list)), max_size=1)
    tail = st.lists(st.sampled_from(["map", "observe_on", "take", "finally_action"]).flatmap(lambda n: st.tuples(st.just(n), OPS[n].args).map(list)), max_size=1)
    return st.fixed_dictionaries(
        {"src": src, "pre": pre, "rep": replacer, "mid": mid, "tail": tail, "inner": inner_policies(), "clock": s_clock, "raise": s_raise, "fire": st.sampled_from(["N", "N", "E"]), "skip": st.integers(0, 1)}
    ).map(
        lambda c: {
            "pipe": {"root": {"f": "single", "srcs": [c["src"]]}, "ops": c["pre"] + c["rep"] + c["mid"] + [["take_until_stop", {}]] + c["tail"]},
            "inner": c["inner"], "clock": c["clock"], "raise": c["raise"], "fire": c["fire"], "skip": c["skip"],
        }
    )


# ---------------------------------------------------------------------------------------
# bounded-concurrency merging: merge(max_concurrent=n) over mapper-made logged inners, and concat_map (= n 1).  Inners
# beyond n wait in the operator's queue and are subscribed later, from a sibling's completion, on a different code path
# than inners subscribed straight from the outer on_next.  The pipeline is then ended while such a dequeued inner is
# still running: by a sibling inner's error, the outer source's error, take/first/take_until/take_with_time downstream.
# In the shared grammar this needs concat_map / map_to_obs+merge_max, >n inners, an early completion and an early end at
# once (a handful of cases per quick run).

QUEUE_LOCAL = ("merge_max_map", "concat_map_q")


def _build_queue_op(B, name, a):
    B._owner = B.opi
    B.cur = name
    owner = B._owner
    specs = a["os"]
    lab = B.lab

    def inner(*xs):
        s = B._mk(specs[B.h(*xs) % len(specs)], owner, True)
        s.made_at = lab.now()
        return s

    f = B.fn("mapper", inner)
    if name == "concat_map_q":
        o = ops.concat_map(f)
    else:
        o = ops.compose(ops.map(f), ops.merge(max_concurrent=a["n"]))
    B.opi += 1
    return o


def make_queue(case):
    pc = case["pipe"]

    def make(lab):
        B = OBuilder(lab)
        o = B.build_root(pc["root"])
        for name, args in pc["ops"]:
            o = (_build_queue_op(B, name, args) if name in QUEUE_LOCAL else B.build_op(name, args))(o)
        return o

    return make


def _run_queue(case):
    lab, p = run_pipeline(case, make_queue(case))
    r = judge(case, case["pipe"], lab, p)
    term = p.terminal()
    extra = []
    if term is not None and not r.inconclusive:
        T = term[0]
        qi = [i for i, (n, _) in enumerate(case["pipe"]["ops"]) if n in QUEUE_LOCAL][0]
        name, a = case["pipe"]["ops"][qi]
        made = [s for s in lab.sources if getattr(s, "dynamic", False) and getattr(s, "owner", -1) == qi]
        n = 1 if name == "concat_map_q" else a["n"]
        if len(made) > n:
            extra.append("queue:more-inners-than-slots")
        # an inner subscribed at a later instant than the one its mapper call made it in was started from the queue
        # (sufficient, not necessary: a dequeue within the same instant is not counted)
        deq = [(s, ab) for s in made for ab in s.subs if ab[0] > s.made_at]
        if deq:
            extra.append("queue:dequeued-inner-subscribed")
        if any(a0 <= T and not _src_done_by(s, a0, T) for s, (a0, _b) in deq):
            extra.append(f"queue:{name}:dequeued-inner-pending-at-terminal:{term[1]}")
    r.classes = tuple(r.classes) + tuple(extra)
    return r


def cases_queue():
    from vlib.lab import timelines
    from vlib.pipes import s_src

    src = st.fixed_dictionaries({"kind": st.sampled_from(["cold", "hot", "cold"]), "tl": timelines(max_len=6, max_dt=2, min_len=2, terminal=(None, "C", "C", "E"))})
    inner = st.fixed_dictionaries({"kind": st.sampled_from(["cold", "cold", "cold", "sync"]), "tl": timelines(max_len=3, max_dt=3, terminal=("C", "C", "C", "E", None))})
    inners = st.lists(inner, min_size=1, max_size=3)
    qop = st.one_of(
        inners.map(lambda os_: ["concat_map_q", {"os": os_}]),
        st.tuples(inners, st.integers(1, 2)).map(lambda t: ["merge_max_map", {"os": t[0], "n": t[1]}]),
    )
    pre = st.lists(st.sampled_from(["map", "filter", "do_action"]).flatmap(lambda n: st.tuples(st.just(n), OPS[n].args).map(list)), max_size=1)
    enders = st.one_of(
        st.integers(1, 5).map(lambda n: [["take", {"n": n}]]),
        st.integers(1, 4).map(lambda n: [["take", {"n": n}], ["observe_on", {}]]),
        s_src(("cold", "hot")).map(lambda sp: [["take_until", {"o": sp}]]),
        st.integers(1, 10).map(lambda d: [["take_with_time", {"d": d}]]),
        st.just([["first", {"p": None}]]),
        st.just([]),
        st.just([]),
    )
    return st.fixed_dictionaries({"src": src, "pre": pre, "q": qop, "end": enders, "inner": inner_policies(), "raise": s_raise, "clock": s_clock}).map(
        lambda c: {"pipe": {"root": {"f": "single", "srcs": [c["src"]]}, "ops": c["pre"] + [c["q"]] + c["end"]}, "inner": c["inner"], "raise": c["raise"], "clock": c["clock"]}
    )


def checks(tier):
    q = tier == "quick"
    return [
        Check("pipelines", _run, strategy=cases(4 if q else 6), examples={"quick": 2000, "thorough": 16 * 4000}, shards={"quick": 4, "thorough": 16}),
        Check("inners", _run, strategy=cases_inner(4 if q else 6), examples={"quick": 2000, "thorough": 16 * 4000}, shards={"quick": 4, "thorough": 16}),
        Check("gbu_self", _run_gbu, strategy=cases_gbu(), examples={"quick": 600, "thorough": 16 * 1000}, shards={"quick": 4, "thorough": 16}),
        Check("iter_take", _run_iter, strategy=cases_iter(), examples={"quick": 400, "thorough": 16 * 1000}, shards={"quick": 4, "thorough": 16}),
        Check("teardown_term", _run_tdt, strategy=cases_tdt(), examples={"quick": 600, "thorough": 16 * 1500}, shards={"quick": 4, "thorough": 16}),
        Check("queued_inners", _run_queue, strategy=cases_queue(), examples={"quick": 800, "thorough": 16 * 1500}, shards={"quick": 4, "thorough": 16}),
        Check("enders", _run, strategy=cases_forced(3 if q else 5), examples={"quick": 1000, "thorough": 16 * 2000}, shards={"quick": 4, "thorough": 16}),
    ]
