"""C08 Falsy values are ordinary elements (metamorphic: truthy run vs falsy run)."""
from __future__ import annotations

import dataclasses
import json

from hypothesis import strategies as st

from reactivex.notification import OnNext
from reactivex.subject import AsyncSubject, BehaviorSubject, ReplaySubject, Subject

from vlib.core import FAIL, OK, SKIP, Check, HarnessError
from vlib.lab import Lab
from vlib.pipes import OPS, Builder, _kind_after, op_names, pipelines
from vlib.values import Tagged, canon, val

PROPERTY_ID = "C08"
LEVEL = "exploration"
RULE = (
    "Metamorphic. Universe of truthy atoms {7001, 'qa', 'nn', (1,), [1], {'k':1}} (plus fixed points 7002, 'zz') and a bijection sigma of a "
    "non-empty subset U onto falsy atoms that preserves ==/hashability: 7001 -> exactly one of 0 / 0.0 / False, 'qa' -> '', 'nn' -> None, "
    "(1,) -> (), [1] -> [], {'k':1} -> {}; ALTERNATIVELY (round 8) the unhashable falsy containers take a HASHABLE truthy partner, 'ul' -> [] and 'ud' -> {} "
    "(one partner per falsy atom and case), so that an operator which compares/remembers hashable and unhashable elements differently shows up: nothing in the "
    "statement lets hashability matter, and every operator form of the table handles elements opaquely (==, identity, callbacks on the canonical form). Every case is run twice on the real library: on the truthy inputs and on sigma(inputs); "
    "value-carrying arguments (start_with, default_if_empty, contains, *_or_default defaults, seeds, zip_with_iterable values, publish_value / "
    "BehaviorSubject initial value) are mapped by sigma too and every hash-based user callback decides on the pair-collapsed form of its "
    "arguments, so both runs take identical decisions. Checks: `each_op` ENUMERATES every operator of the shared table (1-3 fixed argument "
    "forms each, 169 forms over all 128 operators) x each of the 8 falsy atoms (+ [] and {} once more with their hashable string partner: 10 atom forms) x 7 input patterns (mixed, falsy element pending at completion, single, repeated "
    "same-instant, error, empty, never-ending; cold and hot) plus identity-key forms of group_by / group_by_until / to_dict for the hashable atoms "
    "(the falsy element is itself the key); `impure_eq` enumerates default-== operators (distinct, distinct_until_changed, contains, "
    "sequence_equal) behind 15 aggregate/buffer/timestamp producers merged with atoms of every sigma pair the producer's own outputs cannot "
    "collide with (None next to count 0, '' next to False, () next to [], ...; both partner forms of [] and {}); `each_subject` enumerates Behavior/Replay(unbounded, size 1, window)/Async/plain "
    "subjects x 10 atom forms x 4 scripts x 8 operator chains (none, delay, skip_last, pairwise, take_last, buffer_with_count, take_last_buffer, "
    "sample) with subscribers arriving before, during and after the script; `pipelines` draws random well-kinded pipelines (<=4 / <=6 "
    "operators, 1-3 sources); `per_op` draws one operator uniformly with random arguments on a 4-8 element falsy-rich input; `subjects` "
    "draws subject scripts with 1-3 subscribers (random arrival/unsubscribe times) behind random operator chains. Oracle: every probe and "
    "inner probe of the falsy run equals the truthy run element-wise (values compared after collapsing each sigma pair, same kinds, same "
    "virtual times, same nesting). Non-trivial: a source actually emitted >=1 value that sigma changes and the truthy run delivered >=1 "
    "on_next. Distinct = distinct case JSON."
)
ASSUMPTIONS = [
    "hashability-crossing pairs ('ul' -> [], 'ud' -> {}): relies on the shared operator table never hashing / iterating / indexing a raw element itself (to_set, to_dict, group_by, starmap, pluck "
    "go through hash-of-canonical-form callbacks or wrappers there); identity-key forms (@group_by_id ...) are not run with [] / {} in either partner form",
    "operators relying on default == (distinct, distinct_until_changed, contains, sequence_equal without key/comparer) keep it unless an upstream operator can produce "
    "values of its own that collide with a pair of the case's sigma (0/False/counts with the zero class, find's None with None, empty buffers with [], to_dict's {} with {}, "
    "notifications with everything): there the falsy atom legitimately equals the operator-made value while its truthy partner does not, so the metamorphic relation does not "
    "hold and a hash key/comparer is supplied (list semantics with such values is C05's closed-form business)",
    "default numeric arithmetic on raw elements is excluded (sum/average/min/max use hash-based key mappers/comparers in the table); timestamp is included (both runs happen at the same virtual times)",
    "exception messages are not compared (only the exception type / tag)",
    "cases with >=90 actions at one virtual instant or exceeding the work budget in either run are discarded as inconclusive and counted",
]

# ---------------------------------------------------------------------------------------
# sigma on value *names* (both sides decodable by vlib.values.val)

PAIRS = {
    "num": "n:7001",  # -> i0 | f0 | false (exactly one per case: they are == each other)
    "str": "x:qa",  # -> s
    "none": "x:nn",  # -> none
    "tup": "t1",  # -> t
    "list": "l1",  # -> l
    "dict": "dk",  # -> d
}
FALSY_OF = {"str": "s", "none": "none", "tup": "t", "list": "l", "dict": "d", "ulist": "l", "udict": "d"}
# hashability-CROSSING pairs: a hashable truthy string stands in for the unhashable falsy container.  Every operator form of the shared
# table treats elements opaquely (==, identity, user callbacks on the canonical form), so whether an element can be hashed must not show.
XPAIRS = {"ulist": "x:ul", "udict": "x:ud"}  # -> l, d
TRUTHY_OF = dict(PAIRS, **XPAIRS)
ALIAS = {"ulist": "list", "udict": "dict"}  # same falsy atom, hence the same collisions with operator-made values
FIXED = ["n:7002", "x:zz"]
DOMAIN = list(PAIRS.values()) + FIXED  # truthy-run value names


def _pre(x):
    """Structural view of library dataclasses (TimeInterval, Timestamp), which vlib.values.canon would render by repr()."""
    if dataclasses.is_dataclass(x) and not isinstance(x, type):
        return ("dc:" + type(x).__name__,) + tuple(_pre(getattr(x, f.name)) for f in dataclasses.fields(x))
    if isinstance(x, OnNext):
        return OnNext(_pre(x.value))
    if type(x) is tuple:
        return tuple(_pre(e) for e in x)
    if type(x) is list:
        return [_pre(e) for e in x]
    if type(x) is dict:
        return {k: _pre(v) for k, v in x.items()}
    return x


class _Lab(Lab):
    def canon(self, x):
        return canon(_pre(x), self.obs_id)


class _Builder(Builder):
    def build_op(self, name, args):
        if not name.startswith("@"):
            return super().build_op(name, args)
        from reactivex import operators as ops

        self.cur = name
        ident = lambda x: x  # noqa: E731
        if name == "@group_by_id":
            o = ops.group_by(ident)
        elif name == "@group_by_until_id":
            dur = {"kind": "cold", "tl": [[2, "C", None]]}
            o = ops.group_by_until(ident, None, lambda g: self.src(dur))
        elif name == "@to_dict_id":
            o = ops.to_dict(ident, self.mapper("element_mapper", "e"))
        else:
            raise HarnessError(name)
        self.opi += 1
        return o

    def h(self, *xs):
        from vlib.values import stable_hash

        c = [canon(_pre(x), lambda o: 0) for x in xs]
        if self.norm is not None:
            c = self.norm(c)
        return stable_hash(c)


def _sigma(u):
    """u: {"num": "i0"|"f0"|"false"|None, "pairs": [pair ids]} -> {truthy name: falsy name}"""
    m = {}
    if u.get("num"):
        m[PAIRS["num"]] = u["num"]
    for p in u["pairs"]:
        m[TRUTHY_OF[p]] = FALSY_OF[p]
    if len(set(m.values())) != len(m):
        raise HarnessError("sigma not injective")
    if not m:
        raise HarnessError("empty sigma")
    return m


def _jkey(c):
    return json.dumps(c, sort_keys=True)


def _collapser(sig):
    """N: canonical form -> canonical form with every falsy atom of sigma's image replaced by its truthy partner
    (recursively; dict items / set members re-sorted).  Applied in BOTH runs."""
    table = {_jkey(canon(val(f))): canon(val(t)) for t, f in sig.items()}

    def N(c):
        if not isinstance(c, list):
            return c
        k = _jkey(c)
        if k in table:
            return table[k]
        out = [N(x) for x in c]
        if len(out) == 2 and out[0] in ("dict", "set") and isinstance(out[1], list):
            out[1] = sorted(out[1], key=repr)
        return out

    return N


def _rename(x, m):
    """Map value names inside a case: timeline payloads and value-carrying arguments."""
    if isinstance(x, dict):
        out = {}
        for k, v in x.items():
            if k in ("v", "seed", "init") and isinstance(v, str):
                out[k] = m.get(v, v)
            elif k == "vs" and isinstance(v, list):
                out[k] = [m.get(e, e) for e in v]
            else:
                out[k] = _rename(v, m)
        return out
    if isinstance(x, list):
        if len(x) == 3 and x[1] == "N" and isinstance(x[2], str) and isinstance(x[0], int):
            return [x[0], "N", m.get(x[2], x[2])]
        return [_rename(e, m) for e in x]
    return x


def _value_names(x, acc):
    if isinstance(x, dict):
        for k, v in x.items():
            if k in ("v", "seed", "init") and isinstance(v, str):
                acc.add(v)
            elif k == "vs" and isinstance(v, list):
                acc.update(v)
            else:
                _value_names(v, acc)
    elif isinstance(x, list):
        if len(x) == 3 and x[1] == "N" and isinstance(x[2], str) and isinstance(x[0], int):
            acc.add(x[2])
        else:
            for e in x:
                _value_names(e, acc)
    return acc


def _into_domain(case, rot, u):
    """Rename the arbitrary value names drawn by the shared strategies into the truthy domain (biased to sigma's support)."""
    names = sorted(_value_names(case, set()))
    from vlib.values import NAMES

    dom = sorted(_sigma(u)) * 2 + DOMAIN
    m = {}
    for n in names:
        i = NAMES.index(n) if n in NAMES else sum(map(ord, n))
        m[n] = dom[(i + rot) % len(dom)]
    return _rename(case, m)


# operators whose *own* outputs may be == to a falsy atom (or to a truthy atom) without respecting sigma, by the sigma pair
# they can collide with.  Booleans / counts / indices / sums collide with the zero class (0 == 0.0 == False), find's miss value
# with None, empty (or [1]) lists with the list pair, to_dict's {} with the dict pair; sets, dataclasses (Timestamp,
# TimeInterval: field-wise ==) and observables (identity ==) collide with nothing; notifications compare by str(): everything.
_ALLP = frozenset(PAIRS)
COLLIDES = {
    "count": {"num"}, "sum": {"num"}, "average": {"num"}, "find_index": {"num"}, "all": {"num"}, "some": {"num"}, "contains": {"num"},
    "is_empty": {"num"}, "sequence_equal": {"num"}, "find": {"none"}, "to_list": {"list"}, "take_last_buffer": {"list"},
    "buffer_with_count": {"list"}, "buffer_with_time": {"list"}, "buffer_with_time_or_count": {"list"}, "buffer": {"list"},
    "buffer_when": {"list"}, "buffer_toggle": {"list"}, "min_by": {"list"}, "max_by": {"list"}, "to_dict": {"dict"}, "to_set": set(),
    "timestamp": set(), "time_interval": set(), "materialize": _ALLP, "dematerialize": _ALLP,
}
for _n, _o in OPS.items():
    if _o.out == "obs":
        COLLIDES.setdefault(_n, set())
IMPURE = set(COLLIDES)
DEFAULT_EQ = {"distinct": "k", "distinct_until_changed": "k", "contains": "c", "sequence_equal": "c"}


def _sigma_pairs(u):
    return {ALIAS.get(p, p) for p in u["pairs"]} | ({"num"} if u.get("num") else set())


def _guard_default_eq(ops_list, u):
    """Default-== operators keep their default comparison unless an upstream operator can produce values of its own that
    collide with a pair of THIS case's sigma; only then they are given a hash key/comparer."""
    out = []
    collide = set()
    for name, args in ops_list:
        if name in DEFAULT_EQ and args.get("k") is None and args.get("c") is None and (collide & _sigma_pairs(u)):
            args = dict(args)
            args[DEFAULT_EQ[name]] = 3
        out.append([name, args])
        collide |= COLLIDES.get(name, set())
    return out


def _default_eq_classes(ops_list):
    cls = set()
    impure = False
    for name, args in ops_list:
        if name in DEFAULT_EQ and args.get("k") is None and args.get("c") is None:
            cls.add("default-eq-on-impure-stream" if impure else "default-eq-on-pure-stream")
        if name in IMPURE:
            impure = True
    return sorted(cls)


def _norm_exc(c):
    """Drop exception messages."""
    if isinstance(c, list):
        if len(c) == 3 and c[0] == "exc":
            return c[:2]
        return [_norm_exc(x) for x in c]
    return c


def _view(tree, N):
    return {"t": [[e[0], e[1], N(_norm_exc(e[2]))] for e in tree["t"]], "inner": [[o, t, _view(sub, N)] for o, t, sub in tree["inner"]]}


def _first_diff(a, b, path="top"):
    ta, tb = a["t"], b["t"]
    for i in range(max(len(ta), len(tb))):
        x = ta[i] if i < len(ta) else None
        y = tb[i] if i < len(tb) else None
        if x != y:
            return f"{path}[{i}]: truthy run {x} vs falsy run {y}"
    if len(a["inner"]) != len(b["inner"]):
        return f"{path}: {len(a['inner'])} vs {len(b['inner'])} inner subscriptions"
    for i, (ia, ib) in enumerate(zip(a["inner"], b["inner"])):
        if ia[:2] != ib[:2]:
            return f"{path}.inner{i}: subscribed {ia[:2]} vs {ib[:2]}"
        d = _first_diff(ia[2], ib[2], f"{path}.inner{i}")
        if d:
            return d
    return None


def _emitted_changed(lab, changed_names):
    """Did some source actually emit a value whose name sigma changes?"""
    for s in lab.sources:
        if not s.subs:
            continue
        for i, (t, k, p) in enumerate(s.timeline):
            if k == "N" and p in changed_names and s.emitted > i:
                return True
    return False


def _from_library(exc):
    """True if the innermost frame of the exception is library code (not harness code)."""
    import os

    tb = exc.__traceback__
    last = None
    while tb is not None:
        last = tb.tb_frame.f_code.co_filename
        tb = tb.tb_next
    repo = os.path.abspath(os.environ.get("VERIF_REPO", "/repo")) + os.sep
    return bool(last) and os.path.abspath(last).startswith(repo)


def _culprits(names):
    return ",".join(sorted(set(names))[:4]) or "-"


# ---------------------------------------------------------------------------------------
# check 1: pipelines


def _run_pipe_once(pc, N, inner):
    lab = _Lab()
    B = _Builder(lab, norm=N)
    o = B.build(pc)
    p = lab.probe("p", inner={"mode": inner, "d": 1} if inner else None)
    p.subscribe(o)
    lab.run()
    return lab, p


def _run_pipeline(case):
    sig = _sigma(case["u"])
    N = _collapser(sig)
    pt = case["pipe"]
    pf = _rename(pt, sig)
    labT, pT = _run_pipe_once(pt, N, case.get("inner"))
    if labT.inconclusive:
        return SKIP(labT.inconclusive)
    if labT.escaped is not None:
        if _from_library(labT.escaped):
            return SKIP("truthy-run-escaped")  # the reference run itself misbehaves: some other property's business
        raise labT.escaped
    labF, pF = _run_pipe_once(pf, N, case.get("inner"))
    names = op_names(pt)
    cls = []
    if labF.inconclusive:
        return SKIP(labF.inconclusive)
    if labF.escaped is not None:
        e = labF.escaped
        return FAIL(f"falsy-run-raises:{type(e).__name__}|{_culprits(names)}", f"truthy run fine, falsy run let {e!r} escape; case={case}")
    a, b = _view(pT.tree(), N), _view(pF.tree(), N)
    changed = _emitted_changed(labT, set(sig))
    nontrivial = changed and len(pT.values()) >= 1
    if changed:
        cls.append("sigma-changed-an-emitted-value")
    if pT.tree() != pF.tree():
        cls.append("sigma-visible-in-output")
    if len(labT.probes) > 1:
        cls.append("inner-probes")
    cls += _default_eq_classes(pt["ops"])
    if "timestamp" in names:
        cls.append("abstime-operator")
    if any(n.startswith("@") for n in names):
        cls.append("identity-key-form")
    for t, f in sig.items():
        cls.append("falsy:" + f)
    if any(t in sig for t in XPAIRS.values()):
        cls.append("hashable-truthy->unhashable-falsy")
        cls += ["xhash+" + c for c in _default_eq_classes(pt["ops"])]
    d = _first_diff(a, b)
    if d:
        return FAIL(f"diverges|{_culprits(names)}", f"{d}; sigma={sig}; truthy={pT.trace()[:12]} falsy={pF.trace()[:12]}; case={case}", classes=cls)
    return OK(nontrivial, cls)


_pairs_full = st.tuples(st.sampled_from(["list", "ulist"]), st.sampled_from(["dict", "udict"])).map(lambda t: sorted(("str", "none", "tup") + t))
_u_full = st.fixed_dictionaries({"num": st.sampled_from(["i0", "f0", "false"]), "pairs": _pairs_full})
_u_part = st.fixed_dictionaries(
    {
        "num": st.sampled_from(["i0", "f0", "false", None]),
        "pairs": st.lists(st.sampled_from(sorted(FALSY_OF)), unique=True, max_size=5).map(sorted),
    }
).filter(lambda u: (u["num"] or u["pairs"]) and len({FALSY_OF[p] for p in u["pairs"]}) == len(u["pairs"]))
_u = st.one_of(_u_full, _u_full, _u_part)


def _pipe_cases(max_ops):
    def prep(t):
        pc, rot, u, inner = t
        pc = _into_domain(pc, rot, u)
        pc["ops"] = _guard_default_eq(pc["ops"], u)
        return {"pipe": pc, "u": u, "inner": inner}

    return st.tuples(
        pipelines(max_ops=max_ops, max_len=5), st.integers(0, 15), _u, st.sampled_from(["now", "now", "late", None])
    ).map(prep)


def _per_op_cases():
    """One operator form per case, fed directly with a falsy-rich input (every operator of the table is drawn uniformly)."""
    from vlib.lab import timelines

    names = sorted(OPS)
    pre = {
        "any": st.just([]),
        "obs": st.sampled_from([[["window_with_count", {"n": 2, "s": None}]], [["map_to_obs", {"os": [{"kind": "cold", "tl": [[1, "N", "l1"], [2, "N", "x:nn"], [2, "C", None]]}]}]]]),
        "notif": st.just([["materialize", {}]]),
    }

    @st.composite
    def _c(draw):
        name = draw(st.sampled_from(names))
        o = OPS[name]
        src = {"kind": draw(st.sampled_from(["cold", "hot", "sync"])), "tl": draw(timelines(max_len=8, min_len=4, max_dt=2, values=DOMAIN, terminal=("C", "C", "E", None)))}
        pc = {"root": {"f": "single", "srcs": [src]}, "ops": draw(pre[o.inp]) + [[name, draw(o.args)]]}
        u = draw(_u_full)
        pc = _into_domain(pc, draw(st.integers(0, 15)), u)
        pc["ops"] = _guard_default_eq(pc["ops"], u)
        return {"pipe": pc, "u": u, "inner": "now"}

    return _c()


# ---------------------------------------------------------------------------------------
# check 3: every operator form x every falsy atom x input pattern (enumerated)

H, A = "$H", "n:7002"  # hero (the truthy partner of the falsy atom under test) and a filler
_PT = {"m": 4, "r": [0, 1, 2, 3]}
_PF = {"m": 2, "r": []}
_PH = {"m": 2, "r": [0]}
_AUX = {"kind": "cold", "tl": [[2, "N", H], [4, "N", "x:zz"], [5, "N", H], [7, "C", None]]}
_IN1 = {"kind": "cold", "tl": [[1, "N", H], [1, "C", None]]}
_IN2 = {"kind": "cold", "tl": [[2, "N", H], [2, "C", None]]}
_IN5 = {"kind": "cold", "tl": [[5, "N", H], [5, "C", None]]}
_W2 = [["window_with_count", {"n": 2, "s": None}]]

EACH = {
    "pluck": [{}], "take": [{"n": 3}], "skip": [{"n": 1}], "take_last": [{"n": 2}, {"n": 5}], "skip_last": [{"n": 1}, {"n": 2}],
    "take_last_buffer": [{"n": 2}], "pairwise": [{}], "start_with": [{"vs": [H, A, H]}, {"vs": [H]}], "default_if_empty": [{"v": H}],
    "ignore_elements": [{}], "element_at": [{"n": 0}, {"n": 2}], "element_at_or_default": [{"n": 9, "v": H}, {"n": 0, "v": A}],
    "materialize": [{}], "dematerialize": [{}], "as_observable": [{}], "slice": [{"a": 1, "b": None, "c": None}, {"a": -2, "b": None, "c": None}, {"a": 0, "b": -1, "c": 2}],
    "to_list": [{}], "to_set": [{}], "is_empty": [{}], "merge": [{"os": [_AUX]}], "merge_max": [{"n": 1}, {"n": 2}], "concat": [{"os": [_AUX]}],
    "amb": [{"o": _AUX}], "zip": [{"os": [_AUX]}], "zip_with_iterable": [{"vs": [H, A, H, H]}], "combine_latest": [{"os": [_AUX]}],
    "with_latest_from": [{"os": [_AUX]}], "fork_join": [{"os": [_AUX]}], "take_until": [{"o": {"kind": "cold", "tl": [[4, "N", H]]}}],
    "skip_until": [{"o": {"kind": "cold", "tl": [[2, "N", H]]}}], "catch": [{"o": _AUX}], "on_error_resume_next": [{"o": _AUX}],
    "retry": [{"n": 2}], "repeat": [{"n": 2}], "merge_all": [{}], "switch_latest": [{}], "exclusive": [{}],
    "window_with_count": [{"n": 2, "s": None}, {"n": 2, "s": 1}], "buffer_with_count": [{"n": 2, "s": None}, {"n": 2, "s": 1}, {"n": 1, "s": 2}],
    "window_with_time": [{"t": 2, "s": None}], "buffer_with_time": [{"t": 2, "s": None}, {"t": 2, "s": 1}],
    "window_with_time_or_count": [{"t": 3, "n": 2}], "buffer_with_time_or_count": [{"t": 3, "n": 2}], "window": [{"o": _AUX}], "buffer": [{"o": _AUX}],
    "delay": [{"d": 2}, {"d": 0}], "delay_subscription": [{"d": 1}], "debounce": [{"d": 2}, {"d": 1}], "throttle_with_timeout": [{"d": 2}],
    "throttle_first": [{"d": 2}], "sample": [{"d": 2}], "sample_obs": [{"o": _AUX}], "time_interval": [{}], "timestamp": [{}], "take_with_time": [{"d": 3}],
    "skip_with_time": [{"d": 2}], "take_last_with_time": [{"d": 3}], "skip_last_with_time": [{"d": 2}], "take_until_with_time": [{"d": 3}],
    "skip_until_with_time": [{"d": 2}], "timeout": [{"d": 5, "o": None}, {"d": 1, "o": _AUX}], "observe_on": [{}], "subscribe_on": [{}],
    "share": [{}], "publish_ref_count": [{}], "replay_ref_count": [{"n": 2, "w": None}, {"n": None, "w": 2}], "publish_value_ref_count": [{"v": H}],
    "map": [{"tag": "a"}], "map_indexed": [{"tag": "a"}], "starmap": [{"tag": "a"}], "starmap_indexed": [{"tag": "a"}],
    "filter": [{"p": _PH}, {"p": _PT}], "filter_indexed": [{"p": _PT}], "take_while": [{"p": _PT, "inc": False}, {"p": _PH, "inc": True}],
    "take_while_indexed": [{"p": _PT, "inc": False}], "skip_while": [{"p": _PH}, {"p": _PF}], "skip_while_indexed": [{"p": _PF}],
    "distinct": [{"k": None, "c": None}, {"k": 3, "c": None}, {"k": None, "c": 2}],
    "distinct_until_changed": [{"k": None, "c": None}, {"k": 2, "c": None}, {"k": None, "c": 2}],
    "find": [{"p": _PH}, {"p": _PF}], "find_index": [{"p": _PH}], "reduce": [{"seed": None}, {"seed": H}], "scan": [{"seed": None}, {"seed": H}],
    "count": [{"p": None}, {"p": _PH}], "sum": [{}], "average": [{}], "min": [{}], "max": [{}], "min_by": [{"k": 2}], "max_by": [{"k": 2}],
    "to_dict": [{"k": 1000003}], "first": [{"p": None}, {"p": _PH}], "first_or_default": [{"p": _PF, "v": H}, {"p": None, "v": A}],
    "last": [{"p": None}, {"p": _PH}], "last_or_default": [{"p": _PF, "v": H}, {"p": None, "v": A}], "single": [{"p": None}, {"p": _PH}],
    "single_or_default": [{"p": _PF, "v": H}, {"p": None, "v": A}], "all": [{"p": _PT}], "some": [{"p": None}, {"p": _PF}],
    "contains": [{"v": H, "c": None}, {"v": H, "c": 2}, {"v": "x:zz", "c": None}], "sequence_equal": [{"o": "$MAIN", "c": None}, {"o": _AUX, "c": None}],
    "catch_handler": [{"os": [_IN1]}], "flat_map": [{"os": [_IN1]}], "flat_map_indexed": [{"os": [_IN1]}], "concat_map": [{"os": [_IN2]}],
    "switch_map": [{"os": [_IN1]}, {"os": [_IN2]}], "switch_map_indexed": [{"os": [_IN1]}], "flat_map_latest": [{"os": [_IN1]}], "expand": [{"os": [_IN1]}],
    "map_to_obs": [{"os": [_IN1]}], "window_when": [{"os": [_IN2]}], "buffer_when": [{"os": [_IN2]}], "window_toggle": [{"o": _AUX, "os": [_IN2]}],
    "buffer_toggle": [{"o": _AUX, "os": [_IN2]}], "group_by": [{"k": 2, "e": True}, {"k": 1, "e": False}], "group_by_until": [{"k": 2, "e": False, "os": [_IN2]}],
    "join": [{"o": _AUX, "l": [_IN2], "r": [_IN2]}], "group_join": [{"o": _AUX, "l": [_IN2], "r": [_IN2]}],
    "delay_with_mapper": [{"sd": None, "os": [_IN1]}], "throttle_with_mapper": [{"os": [_IN2]}], "timeout_with_mapper": [{"f": None, "os": [_IN5], "o": None}],
    "do_action": [{"n": True, "e": True, "c": True}], "finally_action": [{}], "publish_mapper": [{"tag": "a"}], "replay_mapper": [{"n": 2}],
    "multicast_factory_mapper": [{"kind": "behavior"}, {"kind": "replay"}, {"kind": "subject"}], "while_do": [{"n": 2}], "do_while": [{"n": 1}],
}
# ---- 2. identity-key forms (keys ARE the elements: falsy keys are grouped / looked up / stored like any other key)
ID_FORMS = {"@group_by_id": [{}], "@group_by_until_id": [{}], "@to_dict_id": [{}]}
_missing = sorted(n for n, o in OPS.items() if n not in EACH)
if _missing or any(n not in OPS for n in EACH):
    raise HarnessError(f"C08 each_op table out of date: missing {_missing}, unknown {[n for n in EACH if n not in OPS]}")
EACH_PRE = {"dematerialize": [["materialize", {}]], "merge_all": _W2, "switch_latest": _W2, "exclusive": _W2, "merge_max": _W2}
PATTERNS = {
    "mix": [[1, "N", H], [2, "N", A], [3, "N", H], [4, "N", "x:zz"], [5, "N", H], [6, "C", None]],
    "tail": [[1, "N", A], [3, "N", H], [3, "C", None]],  # falsy element still pending (buffers, timers) when completion arrives
    "only": [[1, "N", H], [4, "C", None]],
    "rep": [[1, "N", H], [1, "N", H], [2, "N", H], [5, "C", None]],
    "err": [[1, "N", H], [2, "N", A], [3, "E", "e1"]],
    "empty": [[2, "C", None]],
    "open": [[1, "N", H], [3, "N", H]],  # never terminates
}
ATOMS = {"i0": "num", "f0": "num", "false": "num", "s": "str", "none": "none", "t": "tup", "l": "list", "d": "dict", "l<-str": "ulist", "d<-str": "udict"}


def _subst(x, hero, main):
    if isinstance(x, str):
        return hero if x == H else (main if x == "$MAIN" else x)
    if isinstance(x, list):
        return [_subst(e, hero, main) for e in x]
    if isinstance(x, dict):
        return {k: _subst(v, hero, main) for k, v in x.items()}
    return x


def _each_cases(tier):
    table = dict(EACH)
    table.update(ID_FORMS)
    for name in sorted(table):
        for fi, args in enumerate(table[name]):
            for atom, pair in ATOMS.items():
                if name.startswith("@") and pair in ("list", "dict", "ulist", "udict"):
                    continue  # identity keys must be hashable
                hero = TRUTHY_OF[pair]
                for pat, tl in PATTERNS.items():
                    for kind in ("cold", "hot") if pat in ("mix", "tail") else ("cold",):
                        tl_ = _subst(tl, hero, None)
                        main = {"kind": kind, "tl": tl_}
                        other = {"kind": "cold", "tl": tl_}
                        ops_ = list(EACH_PRE.get(name, [])) + [[name, _subst(args, hero, other)]]
                        u = {"num": atom if pair == "num" else None, "pairs": [] if pair == "num" else [pair]}
                        yield {"pipe": {"root": {"f": "single", "srcs": [main]}, "ops": ops_}, "u": u, "inner": "now", "form": f"{name}#{fi}", "atom": atom, "pat": pat}


# default == between falsy atoms and operator-made values of a DIFFERENT class (enumerated): the stream carries the output of an
# aggregate / buffering operator (0, False, None, [], {}, set(), -1, dataclasses ...) merged with atoms of a sigma pair that
# output cannot collide with; distinct / distinct_until_changed / contains / sequence_equal use their default comparison.
_PRODUCERS = {
    "count": {"p": None}, "sum": {}, "all": {"p": _PT}, "some": {"p": None}, "is_empty": {}, "find": {"p": _PF}, "find_index": {"p": _PF},
    "to_list": {}, "take_last_buffer": {"n": 2}, "buffer_with_count": {"n": 2, "s": None}, "to_set": {}, "to_dict": {"k": 1000003},
    "time_interval": {}, "timestamp": {}, "min_by": {"k": 2},
}
_AUXH = {"kind": "cold", "tl": [[2, "N", H], [7, "N", H], [8, "N", "x:zz"], [9, "N", H], [10, "C", None]]}
_EQ_FORMS = [
    ["distinct", {"k": None, "c": None}], ["distinct_until_changed", {"k": None, "c": None}], ["contains", {"v": H, "c": None}],
    ["sequence_equal", {"o": {"kind": "cold", "tl": [[1, "N", H], [2, "N", H], [3, "C", None]]}, "c": None}],
]


def _impure_eq_cases(tier):
    for prod, pargs in sorted(_PRODUCERS.items()):
        for eq in _EQ_FORMS:
            for atom, pair in ATOMS.items():
                if ALIAS.get(pair, pair) in COLLIDES[prod]:
                    continue  # this producer's outputs may legitimately equal that falsy atom but not its truthy partner
                hero = TRUTHY_OF[pair]
                u = {"num": atom if pair == "num" else None, "pairs": [] if pair == "num" else [pair]}
                for pat in ("empty", "mix"):
                    main = {"kind": "cold", "tl": _subst(PATTERNS[pat], hero, None)}
                    ops_ = [[prod, pargs], ["merge", {"os": [_subst(_AUXH, hero, None)]}], _subst(eq, hero, None)]
                    yield {"pipe": {"root": {"f": "single", "srcs": [main]}, "ops": ops_}, "u": u, "inner": None, "atom": atom, "pat": pat}


# ---------------------------------------------------------------------------------------
# check 2: subjects as sources

FOCUS = [
    "delay", "skip_last", "pairwise", "take_last", "take_last_buffer", "buffer_with_count", "buffer_with_time", "delay_with_mapper",
    "debounce", "throttle_first", "sample", "start_with", "default_if_empty", "distinct_until_changed", "distinct", "scan", "reduce",
    "last", "last_or_default", "first", "first_or_default", "single_or_default", "element_at", "element_at_or_default", "to_list",
    "combine_latest", "with_latest_from", "zip", "zip_with_iterable", "contains", "some", "all", "is_empty", "count", "min", "max",
    "skip_until", "take_until", "share", "publish_value_ref_count", "replay_ref_count", "materialize", "find", "take_while",
    "skip_while", "take", "skip", "timeout", "time_interval", "window_with_count", "group_by", "to_dict", "switch_map", "concat_map",
    "flat_map", "throttle_with_timeout", "take_last_with_time", "skip_last_with_time", "observe_on", "delay_subscription",
]
for _n in FOCUS:
    if _n not in OPS:
        raise HarnessError(f"C08: unknown focus operator {_n}")


@st.composite
def _chain(draw, max_ops):
    names = {"any": [], "obs": [], "notif": []}
    for n, o in OPS.items():
        names[o.inp].append(n)
    kind = "any"
    out = []
    for _ in range(draw(st.integers(0, max_ops))):
        if kind in ("obs", "notif") and draw(st.integers(0, 3)) > 0:
            cands = names[kind]
        elif draw(st.integers(0, 2)) > 0:
            cands = FOCUS
        else:
            cands = names["any"]
        name = draw(st.sampled_from(sorted(cands)))
        out.append([name, draw(OPS[name].args)])
        kind = _kind_after(kind, OPS[name])
    return out


def _subject_cases(max_ops):
    from vlib.lab import timelines

    def prep(t):
        c, rot, u, inner = t
        c = _into_domain(c, rot, u)
        for s in c["subs"]:
            s["ops"] = _guard_default_eq(s["ops"], u)
        return {"s": c, "u": u, "inner": inner}

    base = st.fixed_dictionaries(
        {
            "kind": st.sampled_from(["behavior", "replay", "async", "behavior", "replay", "async", "subject"]),
            "init": st.sampled_from(DOMAIN),
            "buf": st.one_of(st.none(), st.integers(0, 3)),
            "win": st.one_of(st.none(), st.none(), st.integers(1, 4)),
            "script": timelines(max_len=6, max_dt=3, values=DOMAIN, conforming=True),
            "subs": st.lists(st.fixed_dictionaries({"at": st.integers(0, 12), "ops": _chain(max_ops), "unsub": st.one_of(st.none(), st.integers(1, 8))}), min_size=1, max_size=3),
        }
    )
    return st.tuples(base, st.integers(0, 15), _u, st.sampled_from(["now", "now", None])).map(prep)


SUBJ_KINDS = [
    {"kind": "behavior", "init": H, "buf": None, "win": None},
    {"kind": "behavior", "init": A, "buf": None, "win": None},
    {"kind": "replay", "init": A, "buf": None, "win": None},
    {"kind": "replay", "init": A, "buf": 1, "win": None},
    {"kind": "replay", "init": A, "buf": None, "win": 2},
    {"kind": "async", "init": A, "buf": None, "win": None},
    {"kind": "subject", "init": A, "buf": None, "win": None},
]
SUBJ_SCRIPTS = {
    "mix": [[0, "N", H], [2, "N", A], [4, "N", H], [5, "C", None]],
    "tail": [[0, "N", A], [2, "N", H], [2, "C", None]],
    "err": [[1, "N", H], [3, "E", "e1"]],
    "open": [[1, "N", H], [4, "N", H]],
}
SUBJ_OPS = [[], [["delay", {"d": 1}]], [["skip_last", {"n": 1}]], [["pairwise", {}]], [["take_last", {"n": 1}]], [["buffer_with_count", {"n": 2, "s": None}]], [["take_last_buffer", {"n": 1}]], [["sample", {"d": 2}]]]


def _each_subject_cases(tier):
    for ki, k in enumerate(SUBJ_KINDS):
        for atom, pair in ATOMS.items():
            hero = TRUTHY_OF[pair]
            u = {"num": atom if pair == "num" else None, "pairs": [] if pair == "num" else [pair]}
            for sn, script in SUBJ_SCRIPTS.items():
                for oi, ops_ in enumerate(SUBJ_OPS):
                    c = dict(k)
                    c["script"] = script
                    c["subs"] = [{"at": at, "ops": ops_, "unsub": None} for at in (0, 4, 9)]
                    yield {"s": _subst(c, hero, None), "u": u, "inner": None}


def _run_subject_once(c, N, inner):
    lab = _Lab()
    k = c["kind"]
    if k == "behavior":
        subj = BehaviorSubject(val(c["init"]))
    elif k == "replay":
        subj = ReplaySubject(c["buf"], lab.rel(c["win"]) if c["win"] else None, lab.sched)
    elif k == "async":
        subj = AsyncSubject()
    elif k == "subject":
        subj = Subject()
    else:
        raise HarnessError(k)

    def mk(kind, payload):
        def act():
            lab.step()
            if kind == "N":
                subj.on_next(val(payload))
            elif kind == "E":
                subj.on_error(Tagged(payload))
            else:
                subj.on_completed()

        return act

    for t, kind, payload in c["script"]:
        lab.at(t + 1, mk(kind, payload))
    probes = []
    for i, s in enumerate(c["subs"]):
        B = _Builder(lab, norm=N, prefix=f"s{i}:")
        o = subj
        for name, args in s["ops"]:
            o = B.build_op(name, args)(o)
        p = lab.probe(f"p{i}", inner={"mode": inner} if inner else None)
        probes.append(p)
        lab.at(s["at"], (lambda p=p, o=o: p.subscribe(o)))
        if s["unsub"] is not None:
            lab.at(s["at"] + s["unsub"], p.dispose)
    lab.run()
    return lab, probes


def _run_subject(case):
    sig = _sigma(case["u"])
    N = _collapser(sig)
    ct = case["s"]
    cf = _rename(ct, sig)
    labT, PT = _run_subject_once(ct, N, case.get("inner"))
    if labT.inconclusive:
        return SKIP(labT.inconclusive)
    if labT.escaped is not None:
        if _from_library(labT.escaped):
            return SKIP("truthy-run-escaped")  # the reference run itself misbehaves: some other property's business
        raise labT.escaped
    labF, PF = _run_subject_once(cf, N, case.get("inner"))
    if labF.inconclusive:
        return SKIP(labF.inconclusive)
    names = [n for s in ct["subs"] for n, _ in s["ops"]]
    sigtag = f"{ct['kind']}+{_culprits(names)}"
    if labF.escaped is not None:
        e = labF.escaped
        return FAIL(f"falsy-run-raises:{type(e).__name__}|{sigtag}", f"truthy run fine, falsy run let {e!r} escape; case={case}")
    changed_names = set(sig)
    emitted = [p for t, k, p in ct["script"] if k == "N"]
    changed = any(p in changed_names for p in emitted) or (ct["kind"] == "behavior" and ct["init"] in changed_names)
    got = sum(len(p.values()) for p in PT)
    cls = [f"kind:{ct['kind']}"] + ["falsy:" + f for f in sig.values()]
    if changed:
        cls.append("sigma-changed-an-emitted-value")
    if any(p.tree() != q.tree() for p, q in zip(PT, PF)):
        cls.append("sigma-visible-in-output")
    late = any(s["at"] > (ct["script"][0][0] + 1 if ct["script"] else 0) for s in ct["subs"])
    if late:
        cls.append("late-subscriber")
    for i, (p, q) in enumerate(zip(PT, PF)):
        d = _first_diff(_view(p.tree(), N), _view(q.tree(), N), f"p{i}")
        if d:
            return FAIL(f"diverges|{sigtag}", f"{d}; sigma={sig}; truthy={p.trace()[:12]} falsy={q.trace()[:12]}; case={case}", classes=cls)
    return OK(changed and got >= 1, cls)


def checks(tier):
    q = tier == "quick"
    return [
        Check("each_op", _run_pipeline, cases=_each_cases, shards={"quick": 8, "thorough": 16}, exhaustive=True),
        Check("impure_eq", _run_pipeline, cases=_impure_eq_cases, shards={"quick": 8, "thorough": 16}, exhaustive=True),
        Check("pipelines", _run_pipeline, strategy=_pipe_cases(4 if q else 6), examples={"quick": 1600, "thorough": 16 * 12000}, shards={"quick": 8, "thorough": 16}),
        Check("per_op", _run_pipeline, strategy=_per_op_cases(), examples={"quick": 1200, "thorough": 16 * 8000}, shards={"quick": 8, "thorough": 16}),
        Check("each_subject", _run_subject, cases=_each_subject_cases, shards={"quick": 8, "thorough": 16}, exhaustive=True),
        Check("subjects", _run_subject, strategy=_subject_cases(2 if q else 3), examples={"quick": 800, "thorough": 16 * 6000}, shards={"quick": 8, "thorough": 16}),
    ]
