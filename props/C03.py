"""C03 Unsubscribing silences the subscriber and frees its sources."""
from __future__ import annotations

from hypothesis import strategies as st

import reactivex
from reactivex import operators as ops
from reactivex.disposable import Disposable
from reactivex.scheduler import CurrentThreadScheduler

from vlib.core import FAIL, OK, SKIP, Check
from vlib.lab import BudgetExceeded, SpinGuard, timelines
from vlib.pipes import OPS, op_names
from vlib.values import NAMES, Tagged, val
from vlib.relsub import INF, Diverged, DProbe, OBuilder, TLab, all_inners, gw_index, live_during, release_deadline, slot_index

from props.C02 import mk_lab, cases, cases_forced, cases_gbu, cases_inner, make_gbu, recursion_seen

PROPERTY_ID = "C03"
LEVEL = "exploration"
RULE = (
    "Pipelines as in C02 (shared operator table incl. self-contained multicast forms, conforming cold/hot/sync logged "
    "sources, single non-raising subscriber with a generated policy for Observable-valued elements; three generators: "
    "free pipelines, pipelines with an Observable-producing operator, pipelines with an early-ending operator) plus a "
    "family of creation functions that run user code (on_error_resume_next over source factories, concat of defer "
    "factories, concat_with_iterable/catch_with_iterable/from_iterable over lazily pulled logged generators, for_in, "
    "generate, generate_with_relative_time, if_then, case, using) followed by 0-2 operators; plus the family 'trampoline' (see below). For each case a reference run records the set E of clock values at "
    "which any scheduled action ran and the number of top-level probe callbacks; then the case is re-run once per "
    "dispose point: for every t in E u {t-1, t+1} (t >= 0, up to one tick past the natural end, at most 14 instants) "
    "in three queue positions - 'first' (the dispose action is enqueued for t before anything is built, so it "
    "precedes every source message and timer of instant t), 'mid' (enqueued right after subscribe() returned: after "
    "the work queued during subscription, before work queued later), 'last' (the action re-enqueues itself while "
    "other uncancelled work for the same instant is pending) - and from inside the probe's k-th callback for every "
    "k < 10. Oracle per run, relative to the moment dispose() returned (seq = global event counter): (a) the probe "
    "records no notification; (b) lab.cb_log has no entry with a later seq; (c) snapshot taken synchronously after "
    "dispose(): no pipeline-opened source subscription is open; (d) at the end of the run none is open and every one "
    "was closed by the first instant at which no inner subscriber is live; (e) no source subscription is opened with "
    "a later seq. Exceptions: [live inner] while a subscriber of a group/window observable is still live, callbacks "
    "and source subscriptions owned by the root or by operators at or upstream of the last group/window operator may "
    "continue (as the property grants); subscriptions an inner probe opened itself on a raw source element are the "
    "subscriber's own and are not judged; callbacks running during dispose() have smaller seq. [in flight] when "
    "dispose() is called from inside a subscriber callback, handler activations already on the Python stack may run "
    "to their end: an event of (b)/(e) in the same synchronous stack is excused if no *new* notification delivery "
    "(AutoDetachObserver.on_* activation absent from the stack at dispose) encloses it ('tail'), or if the new "
    "delivery comes out of a harness source emitting inside its own subscribe() ('sync-emission': no handle exists "
    "yet); a subscription excused this way, or one whose subscribe() was in progress at dispose, must be closed "
    "before the stack unwinds; pulls of a lazily consumed iterable ('.next' slots) are never excused. "
    "[subscribe_on] upstream of subscribe_on the documented behaviour is unsubscription by a scheduled action: there "
    "(b),(c),(e) are required by the end of the dispose instant instead of synchronously. "
    "Family 'trampoline' ('a single thread'): trees of synchronous library sources built WITHOUT a scheduler (of, "
    "from_iterable over a logged generator, from_callable with a logged supplier, range, return_value, empty, throw, "
    "generate with logged callbacks, logged harness sources emitting inside subscribe, defer with a logged factory, "
    "concat/merge/on_error_resume_next/catch of those) followed by 0-3 (quick) / 0-5 operators (scheduler-free "
    "operators of the shared table, flat_map/concat_map/switch_map to such trees, merge/concat/on_error_resume_next/"
    "catch with such a tree, subscribe_on(CurrentThreadScheduler)), subscribed without a scheduler from inside a "
    "CurrentThreadScheduler action so that the whole run happens on the trampoline and subscribe() returns its handle "
    "first; dispose points = inside the probe's k-th callback for every k (incl. the terminal callback, i.e. the "
    "release done by take/first); same clauses (a)-(e); a work item that a run loop already active at dispose starts "
    "later is never a 'tail'. Non-trivial there: the callback was an on_next and something followed it in the "
    "undisturbed run ('cut'). "
    "Dispose issued by the pipeline's own user code ('ucb' points): for up to 8 (16 thorough) (slot, k) pairs of the "
    "reference run's callback log - teardown actions (finally_action) first, then mappers, predicates, factories ... - "
    "the subscriber's dispose() is called from inside the k-th invocation of that user callback (k < 3), i.e. also "
    "re-entrantly while an operator is disposing / replacing a subscription; same clauses; while a library dispose() "
    "or subscribe() is in progress on the stack, clause (c) is required when the stack has unwound, and deliveries to "
    "observers wired by a subscribe() still in progress are excused. Family 'teardown' puts user teardown code on the "
    "subscription an operator replaces: finally_action before timeout(d, other)/retry/repeat/catch/"
    "on_error_resume_next/take_until/switch_map/amb/delay_subscription/subscribe_on, and local variants of switch_map, "
    "throttle_with_mapper, window_when and timeout_with_mapper whose inner/duration/closing observables carry a "
    "finally_action. "
    "Inner subscriptions as the judged subscription: in every run (and in extra runs that dispose the j-th inner "
    "group/window subscriber, j < 3 (4 thorough), as the last action of up to 4 (8) instants of its life) an inner probe "
    "gets no notification after its own dispose() returned, and when the outer subscriber had already ended and no "
    "other group/window subscriber is live, no pipeline-opened source subscription is open synchronously after that "
    "dispose (upstream of subscribe_on: by the end of the instant). One case in four runs on HistoricalScheduler "
    "(datetime clock, timedelta arguments). Thorough raises the bounds to 24 instants / 16 callbacks / depth 6. "
    "Non-trivial run: at the moment of dispose the top probe had no terminal and >=1 pipeline-opened source "
    "subscription was open; a case is non-trivial if it has such a run. Distinct = distinct case JSON. Classes count "
    "runs (labels run:<position>:<kind>[+exemption...]) as well as cases."
)
ASSUMPTIONS = [
    "single thread, virtual time (TestScheduler); the thread-based schedulers are C30-C35's business",
    "clause (e) reads 'every source subscription opened for it is closed at that instant' as also forbidding a subscription that is opened on the subscriber's behalf after that instant (outside the in-flight stack)",
    "in-flight exemption: the tail of operator handlers that were already executing when dispose() was called from a callback may still call their own user function / subscribe a source once (observed for expand, group_by(_until), group_join/window_toggle/join, window_when, buffer_when); a new notification delivery or a later scheduled action may not",
    "a dispose requested from a callback that runs inside the top-level subscribe() can only be carried out when subscribe() returns (there is no handle before); notifications in between are not judged",
    "runs that hit the same-instant spin guard, the work budget or the stack-depth guard are discarded and counted",
]

MAX_INSTANTS = 14
MAX_CB = 10
MAX_INNER = 3
MAX_UCB = 8
MAX_INNER_INSTANTS = 4
REQUEUE_LIMIT = 30


def _pending_now(lab):
    """Is uncancelled work for the current instant still queued?"""
    sch = lab.sched
    now = sch.now
    for item, _ in sch._queue.items:
        if item.duetime <= now and not item.is_cancelled():
            return True
    return False


def run_variant(case, variant, make):
    """variant: None (reference) | ["first"|"mid"|"last", t] | ["cb", k].  make(lab) -> observable."""
    lab = mk_lab(case)
    holder = {}
    kind = variant[0] if variant else None

    def disposer():
        holder["p"].dispose()

    if kind == "first":
        lab.at(variant[1], disposer)
    if kind == "ucb":
        lab.dispose_in = (variant[1], variant[2])
    try:
        o = make(lab)
        p = DProbe(lab, "p", inner=case["inner"], dispose_at_cb=variant[1] if kind == "cb" else None)
        lab.probes.append(p)
        holder["p"] = p
        p.subscribe(o)
    except (RecursionError, Diverged):
        lab.inconclusive = "recursion"
        return lab, holder.get("p")
    if lab.inconclusive:
        return lab, p
    if kind == "mid":
        lab.at(variant[1], disposer)
    elif kind == "inner":
        # the judged subscription is the j-th inner (group/window) subscription: disposed as the last action of instant t
        left_i = [REQUEUE_LIMIT]

        def last_inner():
            if left_i[0] > 0 and _pending_now(lab):
                left_i[0] -= 1
                lab.at(lab.now(), last_inner)
                return
            qs = all_inners(p)
            if variant[1] < len(qs) and qs[variant[1]].live_now():
                qs[variant[1]].dispose()

        lab.at(variant[2], last_inner)
    elif kind == "last":
        left = [REQUEUE_LIMIT]

        def last():
            if left[0] > 0 and _pending_now(lab):
                left[0] -= 1
                lab.at(lab.now(), last)
            else:
                p.dispose()

        lab.at(variant[1], last)
    lab.run()
    if lab.inconclusive is None and recursion_seen(lab):
        lab.inconclusive = "recursion"
    return lab, p


def _culprit(pc, owner):
    if owner is None:
        return ",".join(sorted(set(op_names(pc)))[:4]) or pc["root"]["f"]
    if owner < 0:
        return pc["root"]["f"] if pc["root"]["f"] != "single" else "source"
    return pc["ops"][owner][0]


def judge(case, variant, lab, p, pc, G):
    """Returns (label, failure|None) for one disposed run. failure = (sig, msg)."""
    if lab.inconclusive:
        return "inconclusive", None
    if lab.escaped is not None:
        return "escaped", None
    if p.disposed_seq is None:
        return "dispose-not-reached", None
    ds, dt = p.disposed_seq, p.disposed_tick
    term = p.terminal()
    ended = term is not None and term[3] < ds
    if ended:
        label = "post-end"
    elif p.open_before:
        label = "nt"
    else:
        label = "no-open-source"
    inners = [q for q in all_inners(p) if not q.raw]
    exempt_used = [False]

    def shareable(owner, tick):
        ok = G is not None and owner <= G and any(live_during(q, tick) for q in inners)
        if ok:
            exempt_used[0] = True
        return ok

    def fail(clause, owner, detail):
        return (f"{clause}|{_culprit(pc, owner)}", f"{detail}; dispose {variant} returned at t={dt} seq={ds}; case={case}")

    cont_used = set()
    S = None  # subscribe_on: "un-subscriptions happen on the specified scheduler" - upstream of it the release is
    for i_, (n_, _a) in enumerate(pc["ops"]):  # a scheduled action of the same virtual instant, not synchronous
        if n_.startswith("subscribe_on"):
            S = i_

    def continuation(key, seq, strict=False):
        """Tail of a handler activation that was already on the stack when dispose() was called from a callback,
        or synchronous emission of a harness source from inside its subscribe()."""
        k = lab.continuations.get(key)
        ok = k is not None and lab.in_window(ds, seq) and not strict
        if ok:
            cont_used.add(k)
        return ok

    def deferred_unsub(owner, tick):
        ok = S is not None and owner <= S and tick == dt
        if ok:
            cont_used.add("subscribe_on")
        return ok

    # (a)
    if p.after_dispose:
        e = p.after_dispose[0]
        return label, fail("notified-after-dispose", None, f"probe got {e[1]} {e[2]} at t={e[0]} seq={e[3]}")
    # (b)
    for idx, (tick, seq, slot, args) in enumerate(lab.cb_log):
        if seq > ds:
            _, opname, cbname = slot.split(".", 2)
            oi = -1 if opname == pc["root"]["f"] else slot_index(slot)  # root-form callbacks (defer factory, ...) are upstream of everything
            if not shareable(oi, tick) and not continuation(("cb", idx), seq, strict=cbname == "next") and not deferred_unsub(oi, tick):
                f = fail("callback-after-dispose", oi, f"user callback {slot}{args} ran at t={tick} seq={seq}")
                return label, (f"callback-after-dispose|{opname}", f[1])
    # (c)
    for s, i in p.open_after or ():
        if p.live_after and any(not q.raw for q in p.live_after) and G is not None and s.owner <= G:
            exempt_used[0] = True  # may be shared with a live group/window subscriber; (d) bounds its release
            continue
        if S is not None and s.owner <= S:
            cont_used.add("subscribe_on")  # released by a scheduled action of this instant; (d) bounds its release
            continue
        if (s.name, i) in p.in_progress or p.subscribing:
            # a subscribe() call (of this source, or of an operator that already subscribed it and has not yet
            # returned its own disposable) was on the stack when dispose() was called from a callback: nobody held
            # the handle yet; it must go before the synchronous stack has unwound
            us = s.sub_seq[i][1]
            if us is None or not lab.in_window(ds, us):
                return label, fail("open-after-dispose", s.owner, f"source {s.name} subscription #{i} {s.subs[i]} (a subscribe() was in progress at dispose) not closed when the stack unwound")
            cont_used.add("subscribe-in-progress")
            continue
        return label, fail("open-after-dispose", s.owner, f"source {s.name} subscription #{i} {s.subs[i]} still open right after dispose() returned")
    # (d), (e)
    for s in lab.sources:
        po = getattr(s, "probe_owned", ())
        for i, (a, b) in enumerate(s.subs):
            if i in po:
                continue
            os_, us = s.sub_seq[i]
            if os_ > ds and not shareable(s.owner, a) and not deferred_unsub(s.owner, a):
                if not (continuation(("sub", s.name, i), os_) and us is not None and lab.in_window(ds, us)):
                    return label, fail("subscribed-after-dispose", s.owner, f"source {s.name} subscription #{i} {s.subs[i]} was opened after dispose() returned (seq {os_})")
            t0 = release_deadline(max(a, dt), inners)
            if t0 == INF:
                exempt_used[0] = True
                continue
            if b is None or b > t0:
                return label, fail("open-at-end" if b is None else "closed-late", s.owner, f"source {s.name} subscription #{i} {s.subs[i]}; no inner subscriber live from t={t0}")
    for k in sorted(cont_used):
        label += "+" + k
    if exempt_used[0]:
        label += "+live-inner"
    return label, None


def dispose_points(lab0, p0):
    E = {t for t in lab0.ticks if t < 100} | {0}  # 100/200/1000 are TestScheduler.start()'s own create/subscribe/dispose actions
    term = p0.terminal()
    hi = (term[0] + 1) if term is not None else (max(E) + 1)
    pts = sorted(t for t in E if t <= hi)
    near = sorted({t + d for t in E for d in (-1, 1) if 0 <= t + d <= hi} - set(pts))
    ticks = pts[:MAX_INSTANTS]
    room = MAX_INSTANTS - len(ticks)
    if room > 0:
        ticks = sorted(ticks + near[:room])
    out = []
    for t in ticks:
        for pos in ("first", "mid", "last"):
            out.append([pos, t])
    for k in range(min(len(p0.events), MAX_CB)):
        out.append(["cb", k])
    # dispose issued by the pipeline's own user code (teardown action, mapper, predicate, factory ...): k-th call of a slot
    counts = {}
    for e in lab0.cb_log:
        counts[e[2]] = counts.get(e[2], 0) + 1
    slots = sorted(counts, key=lambda sl: (0 if "finally_action" in sl else 1))  # stable: order of first use otherwise
    ucb = []
    for sl in slots:
        for k in range(min(counts[sl], 3)):
            ucb.append(["ucb", sl, k])
    out += ucb[:MAX_UCB]
    for j, q in enumerate(all_inners(p0)[:MAX_INNER]):
        if q.raw or q.sub_tick is None:
            continue
        e = q.end_tick()
        live = [t for t in pts if q.sub_tick <= t <= (e if e is not None else hi)]
        for t in live[:MAX_INNER_INSTANTS]:
            out.append(["inner", j, t])
    return out


def judge_inner(case, lab, p, pc):
    """Inner (group/window) subscriptions as the judged subscription: after an inner subscriber's dispose() returned it
    gets no notification; if the outer subscriber had already ended and no other group/window subscriber is live,
    nothing is shared any more and every pipeline-opened source subscription is closed synchronously.
    Returns (classes, failure|None)."""
    cls = []
    if lab.inconclusive or lab.escaped is not None:
        return cls, None
    S = None
    for i_, (n_, _a) in enumerate(pc["ops"]):
        if n_.startswith("subscribe_on"):
            S = i_
    pt = p.terminal()
    for q in all_inners(p):
        if q.raw or q.disposed_seq is None:
            continue
        if q.after_dispose:
            e = q.after_dispose[0]
            return cls, (f"inner-notified-after-dispose|{_culprit(pc, None)}", f"inner probe {q.name} got {e[1]} {e[2]} at t={e[0]} after its dispose (t={q.disposed_tick}); case={case}")
        qt = q.terminal()
        if qt is not None and qt[3] < q.disposed_seq:
            continue  # had already terminated
        top_ended = (pt is not None and pt[3] < q.disposed_seq) or (p.disposed_seq is not None and p.disposed_seq < q.disposed_seq)
        others = [x for x in (q.live_after or ()) if not x.raw]
        if not top_ended or others:
            cls.append("inner-dispose:still-shared")
            continue
        cls.append("inner-dispose:last-subscriber")
        for s, i in q.open_after or ():
            if S is not None and s.owner <= S:
                continue
            return cls, (f"open-after-last-inner-dispose|{_culprit(pc, s.owner)}", f"source {s.name} subscription #{i} {s.subs[i]} still open right after the last live subscriber ({q.name}) disposed at t={q.disposed_tick}; outer subscriber had ended; case={case}")
    return cls, None


def run_case(case, make, pc):
    lab0, p0 = run_variant(case, None, make)
    if lab0.inconclusive:
        return SKIP(lab0.inconclusive)
    if lab0.escaped is not None:
        return SKIP("escaped:" + type(lab0.escaped).__name__)
    G = gw_index(pc)
    only = case.get("only")
    variants = [only] if only else dispose_points(lab0, p0)
    cls = []
    if case.get("clock") == "hist":
        cls.append("case:clock:hist")
    nt = False
    c_, f_ = judge_inner(case, lab0, p0, pc)
    cls += c_
    if f_ is not None:
        return FAIL(f_[0], f_[1] + " [reference run]", classes=cls)
    for v in variants:
        lab, p = run_variant(case, v, make)
        if p is None:
            continue
        c_, f_ = judge_inner(case, lab, p, pc)
        cls += c_
        if f_ is not None:
            return FAIL(f_[0], f_[1] + f" [variant {v}]", classes=cls)
        if v[0] == "inner":
            cls.append("run:inner")
            cls.append("runs")
            continue
        label, failure = judge(case, v, lab, p, pc, G)
        cls.append(f"run:{v[0]}:{label}")
        cls.append("runs")
        if label.startswith("nt"):
            nt = True
            cls.append("runs-nontrivial")
        if failure is not None:
            return FAIL(failure[0], failure[1], classes=cls)
    if all_inners(p0):
        cls.append("case:inner:" + case["inner"]["mode"])
    cls.append("case:nontrivial" if nt else "case:trivial")
    return OK(nt, cls)


def _run(case):
    pc = case["pipe"]
    return run_case(case, lambda lab: OBuilder(lab).build(pc), pc)


def _run_gbu(case):
    """group_by_until whose duration observable is derived from the group it is given (see props/C02.py)."""
    return run_case(case, make_gbu(case), case["pipe"])


# ---------------------------------------------------------------------------------------
# user teardown code on the subscription that an operator replaces (local operator variants; the shared grammar's
# inner/duration/closing observables are raw sources without teardown)

TD_LOCAL = ("switch_map_fin", "throttle_mapper_fin", "window_when_fin", "timeout_mapper_fin")


def _build_td_op(B, name, a):
    B._owner = B.opi
    B.cur = name
    owner = B._owner
    fin = B.fn("inner_finally", lambda: None)
    specs = a["os"]

    def inner(*xs):
        return B._mk(specs[B.h(*xs) % len(specs)], owner, True).pipe(ops.finally_action(fin))

    if name == "switch_map_fin":
        o = ops.switch_map(B.fn("mapper", inner))
    elif name == "throttle_mapper_fin":
        o = ops.throttle_with_mapper(B.fn("throttle_duration_mapper", inner))
    elif name == "timeout_mapper_fin":
        o = ops.timeout_with_mapper(None, B.fn("timeout_duration_mapper", inner), B._mk(a["o"], owner, False))
    elif name == "window_when_fin":
        cnt = [0]

        def closing():
            cnt[0] += 1
            return inner(cnt[0])

        o = ops.window_when(B.fn("closing_mapper", closing))
    else:
        raise AssertionError(name)
    B.opi += 1
    return o


def make_td(case):
    pc = case["pipe"]

    def make(lab):
        B = OBuilder(lab)
        o = B.build_root(pc["root"])
        for name, args in pc["ops"]:
            o = (_build_td_op(B, name, args) if name in TD_LOCAL else B.build_op(name, args))(o)
        return o

    return make


def _run_td(case):
    r = run_case(case, make_td(case), case["pipe"])
    r.classes = tuple(r.classes) + ("teardown:" + "+".join(n for n, _ in case["pipe"]["ops"] if n in TD_LOCAL or n in ("timeout", "finally_action")),)
    return r


def cases_teardown():
    from vlib.pipes import s_inners, s_src
    from props.C02 import inner_policies, s_clock

    src = st.fixed_dictionaries({"kind": st.sampled_from(["cold", "hot", "cold"]), "tl": timelines(max_len=5, max_dt=3, min_len=1, terminal=(None, "C", "E"))})
    pre = st.lists(st.sampled_from(["map", "filter", "do_action"]).flatmap(lambda n: st.tuples(st.just(n), OPS[n].args).map(list)), max_size=1)
    replacer = st.one_of(
        st.tuples(st.integers(1, 4), s_src(("cold", "cold", "hot"))).map(lambda t: [["finally_action", {}], ["timeout", {"d": t[0], "o": t[1]}]]),
        s_inners().map(lambda os_: [["switch_map_fin", {"os": os_}]]),
        s_inners().map(lambda os_: [["throttle_mapper_fin", {"os": os_}]]),
        s_inners().map(lambda os_: [["window_when_fin", {"os": os_}]]),
        st.tuples(s_inners(), s_src(("cold", "cold", "hot"))).map(lambda t: [["timeout_mapper_fin", {"os": t[0], "o": t[1]}]]),
        st.sampled_from(["retry", "repeat", "catch", "on_error_resume_next", "take_until", "switch_map", "amb", "delay_subscription", "subscribe_on"]).flatmap(
            lambda n: OPS[n].args.map(lambda a: [["finally_action", {}], [n, a]])
        ),
    )
    tail = st.lists(st.sampled_from(["map", "observe_on", "take", "finally_action"]).flatmap(lambda n: st.tuples(st.just(n), OPS[n].args).map(list)), max_size=1)
    return st.fixed_dictionaries({"src": src, "pre": pre, "rep": replacer, "tail": tail, "inner": inner_policies(), "clock": s_clock}).map(
        lambda c: {"pipe": {"root": {"f": "single", "srcs": [c["src"]]}, "ops": c["pre"] + c["rep"] + c["tail"]}, "inner": c["inner"], "clock": c["clock"]}
    )


# ---------------------------------------------------------------------------------------
# creation functions taking source *factories* (not in the shared grammar)


def _run_factories(case):
    """Creation functions that take user code: source factories, iterables pulled lazily, generate callbacks, using.
    Callbacks are logged user callbacks with slots '0.<form>.<name>'; pulls of a lazily consumed iterable are logged
    as '0.<form>.next' and judged strictly (synchronous producers must poll their disposed flag)."""
    form = case["form"]
    pc = {"root": {"f": form, "srcs": []}, "ops": case.get("ops", [])}

    def make(lab):
        B = OBuilder(lab)
        B.cur = form

        def src(spec, dynamic=True):
            return B._mk(spec, -1, dynamic)

        def gen(xs, conv):
            pull = B.fn("next", lambda i: None)
            for i, x in enumerate(xs):
                pull(i)
                yield conv(x)

        specs = [it["src"] for it in case["items"]]
        if form == "on_error_resume_next":  # documented: a source may be a factory taking the previous error
            f = B.fn("factory", lambda spec, *a: src(spec))
            o = reactivex.on_error_resume_next(*[(lambda *a, sp=it["src"]: f(sp)) if it["factory"] else src(it["src"], False) for it in case["items"]])
        elif form == "concat":
            f = B.fn("factory", lambda spec: src(spec))
            o = reactivex.concat(*[reactivex.defer(lambda sch, sp=it["src"]: f(sp)) if it["factory"] else src(it["src"], False) for it in case["items"]])
        elif form == "concat_with_iterable":
            o = reactivex.concat_with_iterable(gen(specs, src))
        elif form == "catch_with_iterable":
            o = reactivex.catch_with_iterable(gen(specs, src))
        elif form == "for_in":
            f = B.fn("mapper", lambda i: src(specs[i]))
            o = reactivex.for_in(list(range(len(specs))), f)
        elif form == "from_iterable":
            o = reactivex.from_iterable(gen(case["vals"], val))
        elif form == "generate":
            n = len(case["vals"])
            o = reactivex.generate(0, B.fn("condition", lambda i: i < n), B.fn("iterate", lambda i: i + 1))
        elif form == "if_then":
            o = reactivex.if_then(B.fn("condition", lambda: len(case["vals"]) % 2 == 1), src(specs[0], False), src(specs[1], False))
        elif form == "case":
            o = reactivex.case(B.fn("mapper", lambda: len(case["vals"]) % 3), {i: src(sp, False) for i, sp in enumerate(specs[:2])}, src(specs[-1], False))
        elif form == "generate_with_relative_time":
            n = len(case["vals"])
            o = reactivex.generate_with_relative_time(
                0, B.fn("condition", lambda i: i < n), B.fn("iterate", lambda i: i + 1), B.fn("time_mapper", lambda i: lab.rel(1 + i % 2))
            )
        elif form == "using":
            res = Disposable(B.fn("resource_dispose", lambda: None))
            o = reactivex.using(B.fn("resource_factory", lambda: res), B.fn("observable_factory", lambda r: src(specs[0])))
        else:
            raise AssertionError(form)
        for name, args in pc["ops"]:
            o = B.build_op(name, args)(o)
        return o

    r = run_case(case, make, pc)
    r.classes = tuple(r.classes) + ("form:" + form,)
    return r


_FORMS = ["on_error_resume_next", "on_error_resume_next", "concat", "concat_with_iterable", "catch_with_iterable", "for_in", "from_iterable", "generate", "using",
          "if_then", "case", "generate_with_relative_time"]


def _factory_cases():
    src = st.fixed_dictionaries({"kind": st.sampled_from(["cold", "cold", "sync"]), "tl": timelines(max_len=3, max_dt=3, terminal=("C", "E", "E", None))})
    item = st.fixed_dictionaries({"factory": st.booleans(), "src": src})
    tail = st.lists(st.sampled_from(["merge", "observe_on", "delay", "map", "take", "flat_map", "share"]).flatmap(lambda n: st.tuples(st.just(n), OPS[n].args).map(list)), max_size=2)
    return st.fixed_dictionaries(
        {
            "form": st.sampled_from(_FORMS),
            "items": st.lists(item, min_size=2, max_size=3),
            "vals": st.lists(st.sampled_from(NAMES), min_size=1, max_size=4),
            "ops": tail,
            "inner": st.just({"mode": "now", "d": 0, "unsub": None}),
        }
    )


# ---------------------------------------------------------------------------------------
# 'a single thread': everything on the CurrentThreadScheduler trampoline, no scheduler argument anywhere


TRAMP_OPS = ["map", "filter", "take", "take", "first", "take_while", "skip", "scan", "start_with", "distinct", "ignore_elements", "to_list",
             "do_action", "finally_action", "share", "repeat", "retry", "map_indexed", "default_if_empty", "pairwise", "take_last", "skip_last"]


def _tramp_source(lab, B, node, slotp, owner):
    """Build a synchronous library source (no scheduler argument) with logged user code. node is JSON."""
    k = node[0]

    def fn(name, f):
        return lab.fn(f"{slotp}.{name}", f) if not hasattr(lab, "note_event") else _hook(lab, lab.fn(f"{slotp}.{name}", f))

    def sub(n):
        return _tramp_source(lab, B, n, slotp, owner)

    if k == "of":
        return reactivex.of(*[val(v) for v in node[1]])
    if k == "from_iterable":
        pull = fn("from_iterable.next", lambda i: None)

        def gen():
            for i, v in enumerate(node[1]):
                pull(i)
                yield val(v)

        return reactivex.defer(lambda sch: reactivex.from_iterable(gen()))
    if k == "from_callable":
        return reactivex.from_callable(fn("from_callable.supplier", lambda v=node[1]: val(v)))
    if k == "range":
        return reactivex.range(node[1])
    if k == "return_value":
        return reactivex.return_value(val(node[1]))
    if k == "empty":
        return reactivex.empty()
    if k == "throw":
        return reactivex.throw(Tagged(node[1]))
    if k == "generate":
        n = node[1]
        return reactivex.generate(0, fn("generate.condition", lambda i: i < n), fn("generate.iterate", lambda i: i + 1))
    if k == "sync":  # logged harness source emitting inside subscribe(); open-ended when it has no terminal
        return B._mk({"kind": "sync", "tl": [[0, m[0], m[1]] for m in node[1]]}, owner, True)
    if k == "if_then":
        return reactivex.if_then(fn("if_then.condition", lambda: node[1]), sub(node[2]), sub(node[3]))
    if k == "case":
        return reactivex.case(fn("case.mapper", lambda: node[1]), {i: sub(n) for i, n in enumerate(node[2])}, sub(node[3]))
    if k == "for_in":
        return reactivex.for_in(list(range(len(node[1]))), fn("for_in.mapper", lambda i: sub(node[1][i])))
    if k == "using":
        res = Disposable(fn("using.resource_dispose", lambda: None))
        return reactivex.using(fn("using.resource_factory", lambda: res), fn("using.observable_factory", lambda r: sub(node[1])))
    if k == "defer":
        f = fn("defer.factory", lambda: sub(node[1]))
        return reactivex.defer(lambda sch: f())
    if k in ("concat", "merge", "on_error_resume_next", "catch"):
        return getattr(reactivex, k)(*[sub(n) for n in node[1]])
    raise AssertionError(k)


def _hook(lab, w):
    def hooked(*args):
        lab.note_event(("cb", len(lab.cb_log)))
        return w(*args)

    return hooked


def _tramp_build(lab, case):
    B = OBuilder(lab)
    o = _tramp_source(lab, B, case["root"], "0.root", -1)
    for name, a in case["ops"]:
        i = B.opi
        if name in ("flat_map_s", "concat_map_s", "switch_map_s"):
            B._owner, B.cur = i, name
            nodes = a["ss"]
            m = B.fn("mapper", lambda x, i=i, name=name: _tramp_source(lab, B, nodes[B.h(x) % len(nodes)], f"{i}.{name}", i))
            o = {"flat_map_s": ops.flat_map, "concat_map_s": ops.concat_map, "switch_map_s": ops.switch_map}[name](m)(o)
            B.opi += 1
        elif name in ("merge_s", "concat_s", "on_error_resume_next_s", "catch_s"):
            other = _tramp_source(lab, B, a["s"], f"{i}.{name}", i)
            o = {"merge_s": ops.merge, "concat_s": ops.concat, "on_error_resume_next_s": ops.on_error_resume_next, "catch_s": ops.catch}[name](other)(o)
            B.opi += 1
        elif name == "subscribe_on_ct":
            o = ops.subscribe_on(CurrentThreadScheduler.singleton())(o)
            B.opi += 1
        else:
            o = B.build_op(name, a)(o)
    return o


def _tramp_variant(case, k):
    lab = TLab()
    o = _tramp_build(lab, case)
    p = DProbe(lab, "p", inner=None, dispose_at_cb=k)
    lab.probes.append(p)

    def main(s, st_=None):
        # subscribing from inside a trampoline action: subscribe() returns its handle before any queued work runs,
        # which is what makes single-threaded cancellation from a callback possible
        p.subscribe(o, scheduler=None)

    try:
        CurrentThreadScheduler.singleton().schedule(main)
    except (RecursionError, Diverged):
        lab.inconclusive = "recursion"
    except SpinGuard:
        lab.inconclusive = "spin"
    except BudgetExceeded:
        lab.inconclusive = "budget"
    except Exception as e:  # noqa
        lab.escaped = e
    return lab, p


def _run_tramp(case):
    lab0, p0 = _tramp_variant(case, None)
    if lab0.inconclusive:
        return SKIP(lab0.inconclusive)
    if lab0.escaped is not None:
        return SKIP("escaped:" + type(lab0.escaped).__name__)
    pc = {"root": {"f": "root", "srcs": []}, "ops": case["ops"]}
    last_seq = lab0.seq
    cls = []
    nt = False
    ks = [case["only"][1]] if case.get("only") else range(min(len(p0.events), MAX_CB))
    for k in ks:
        lab, p = _tramp_variant(case, k)
        label, failure = judge(case, ["cb", k], lab, p, pc, None)
        if label.split("+")[0] in ("nt", "no-open-source") and p0.events[k][3] < last_seq - 1 and p0.events[k][1] == "N":
            # something (a notification, a callback, a subscription) followed this callback in the undisturbed run
            label = "cut" + label[len(label.split("+")[0]):]
            nt = True
            cls.append("runs-nontrivial")
        cls.append(f"run:cb:{label}")
        cls.append("runs")
        if failure is not None:
            return FAIL(failure[0], failure[1], classes=cls)
    cls.append("case:nontrivial" if nt else "case:trivial")
    return OK(nt, cls)


def _tramp_cases(max_depth=2, max_ops=3):
    v = st.sampled_from(["i1", "i2", "i3", "sa", "none", "i0"])
    vs = st.lists(v, min_size=0, max_size=3)
    leaf = st.one_of(
        vs.map(lambda x: ["of", x]),
        vs.map(lambda x: ["from_iterable", x]),
        v.map(lambda x: ["from_callable", x]),
        v.map(lambda x: ["from_callable", x]),
        st.integers(0, 3).map(lambda n: ["range", n]),
        v.map(lambda x: ["return_value", x]),
        st.just(["empty"]),
        st.sampled_from(["e1", "e2"]).map(lambda t: ["throw", t]),
        st.integers(0, 3).map(lambda n: ["generate", n]),
        st.lists(st.one_of(v.map(lambda x: ["N", x]), ), max_size=2).flatmap(
            lambda ns: st.sampled_from([[], [["C", None]], [["E", "e3"]]]).map(lambda t: ["sync", ns + t])
        ),
    )
    node = st.recursive(
        leaf,
        lambda ch: st.one_of(
            ch.map(lambda n: ["defer", n]),
            ch.map(lambda n: ["using", n]),
            st.tuples(st.just("if_then"), st.booleans(), ch, ch).map(list),
            st.tuples(st.just("case"), st.integers(0, 2), st.lists(ch, min_size=1, max_size=2), ch).map(list),
            st.lists(ch, min_size=1, max_size=3).map(lambda ns: ["for_in", ns]),
            st.tuples(st.sampled_from(["concat", "merge", "merge", "on_error_resume_next", "catch"]), st.lists(ch, min_size=1, max_size=3)).map(list),
        ),
        max_leaves=5,
    )
    plain = st.sampled_from(TRAMP_OPS).flatmap(lambda n: st.tuples(st.just(n), OPS[n].args).map(list))
    special = st.one_of(
        st.tuples(st.sampled_from(["flat_map_s", "flat_map_s", "concat_map_s", "switch_map_s"]), st.lists(node, min_size=1, max_size=2).map(lambda ss: {"ss": ss})).map(list),
        st.tuples(st.sampled_from(["merge_s", "concat_s", "on_error_resume_next_s", "catch_s"]), node.map(lambda s: {"s": s})).map(list),
        st.just(["subscribe_on_ct", {}]),
    )
    return st.fixed_dictionaries({"root": node, "ops": st.lists(st.one_of(plain, special), max_size=max_ops)})


def checks(tier):
    global MAX_INSTANTS, MAX_CB, MAX_INNER, MAX_INNER_INSTANTS, MAX_UCB
    q = tier == "quick"
    MAX_INSTANTS, MAX_CB, MAX_INNER, MAX_INNER_INSTANTS, MAX_UCB = (14, 10, 3, 4, 8) if q else (24, 16, 4, 8, 16)
    return [
        Check("pipelines", _run, strategy=cases(4 if q else 6), examples={"quick": 320, "thorough": 16 * 1000}, shards={"quick": 8, "thorough": 16}),
        Check("inners", _run, strategy=cases_inner(4 if q else 6), examples={"quick": 320, "thorough": 16 * 1000}, shards={"quick": 8, "thorough": 16}),
        Check("enders", _run, strategy=cases_forced(3 if q else 5), examples={"quick": 200, "thorough": 16 * 600}, shards={"quick": 8, "thorough": 16}),
        Check("gbu_self", _run_gbu, strategy=cases_gbu(), examples={"quick": 120, "thorough": 16 * 600}, shards={"quick": 8, "thorough": 16}),
        Check("teardown", _run_td, strategy=cases_teardown(), examples={"quick": 240, "thorough": 16 * 600}, shards={"quick": 8, "thorough": 16}),
        Check("trampoline", _run_tramp, strategy=_tramp_cases(2, 3 if q else 5), examples={"quick": 1200, "thorough": 16 * 3000}, shards={"quick": 8, "thorough": 16}),
        Check("factories", _run_factories, strategy=_factory_cases(), examples={"quick": 200, "thorough": 16 * 600}, shards={"quick": 8, "thorough": 16}),
    ]
