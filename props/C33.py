"""C33 Cancelling an asyncio-scheduled action is effective from any thread (Engine DET, real asyncio loop).

A REAL asyncio event loop object (`asyncio.new_event_loop()`, never the global one) runs `run_forever()` on a
controlled logical thread T0.  Three instance attributes of that loop object are replaced so that the loop is
deterministic under vlib/det.py: `time` (-> DET fake clock), `_selector` (-> a selector whose `select(timeout)`
never blocks the OS thread: it parks T0 cooperatively on a wake-up event until fake-now + timeout) and
`_write_to_self` (-> sets that event, this is what `call_soon_threadsafe` uses to wake the loop).  Everything
else -- `run_forever`, `_run_once`, `call_soon(_threadsafe)`, `call_later/call_at`, `Handle/TimerHandle`,
`is_running`, the C-level running-loop thread state -- is the unmodified stdlib code, and asyncio/base_events.py
and asyncio/events.py are line-traced (yield points) like the reactivex sources.

Logical thread T1 (the "director", a foreign thread) interprets the case's op list: schedule on the scheduler /
dispose the returned disposable / sleep on the fake clock / start and stop the loop.  Ops marked "L" are posted to
the loop with `loop.call_soon_threadsafe` and therefore execute on the loop thread from another loop callback.
"""
from __future__ import annotations

import asyncio
import asyncio.base_events as _be
import asyncio.events as _ev
import itertools
import logging
import math
import threading
from datetime import timedelta, timezone

from hypothesis import strategies as st

from vlib import det
from vlib.core import FAIL, OK, SKIP, Check, HarnessError

PROPERTY_ID = "C33"
LEVEL = "exploration"
RULE = (
    "A case is a program for a foreign 'director' thread T1 plus a schedule for (T0 = thread running a real asyncio loop's "
    "run_forever(), T1). Ops: ['sched', now|rel|abs, ms, F|L] (schedule / schedule_relative(ms/1000 s) / schedule_absolute(now+ms) on "
    "AsyncIOThreadSafeScheduler ('ts') or AsyncIOScheduler ('plain')), ['dispose', ref, F|L] (dispose() of a not yet disposed item), "
    "['sleep', ms] (fake clock), ['start'] / ['stop'] (T0 enters run_forever / loop.stop() and wait until it returned); F = on T1, "
    "L = posted with call_soon_threadsafe, i.e. executed on the loop thread from another loop callback; 'cur' = the asyncio state of "
    "T1 itself: none | same (T1 called asyncio.set_event_loop(<the scheduler's loop>) although the loop runs in T0) | other (another "
    "loop is T1's current loop) | other-running (T1 is inside another running loop); the loop is initially not "
    "running, so ops before the first 'start' exercise 'loop not running'; the plain scheduler is only touched on the loop thread "
    "or while the loop is not running (an F op on a running loop is executed as L). The loop is the stdlib loop with fake time, a "
    "cooperative non-blocking selector and a cooperative self-wakeup; yield points are source lines of reactivex, "
    "asyncio/base_events.py and asyncio/events.py. Schedules are 2-thread priority schedules: an initial priority (T0 or T1 runs "
    "whenever it can) and d priority flips at chosen steps; 'enum' runs, for 121 enumerated programs, BOTH initial priorities and "
    "EVERY effective position of one flip (quick) / additionally of two flips for 65 of them (thorough); 'gen' draws programs (2-9 ops with at least one schedule followed by a dispose, delays 0-5 ms, "
    "negative abs) and <=3 flips. Oracle per run, on the sequentially consistent event log: every action start happens on T0 with "
    "the OS thread id of the running loop and get_running_loop() is the loop; start clock >= schedule-call clock + delay; NO action "
    "start after the dispose() of that item returned; a never-disposed action ran by the time the loop has run past its due time; "
    "no action ran twice; no deadlock (dispose() blocking forever while the loop runs), no exception escaped from the library "
    "calls or loop callbacks. Non-trivial: in some explored run a dispose() began while the item's handle chain was in flight: "
    "immediate handle queued but not yet run, stage-1 handle of a relative schedule queued but stage 2 not begun, or stage 2 "
    "(loop.call_later) executing during dispose(). Distinct = distinct case JSON. "
    "Absolute due times are given as aware UTC datetime ('abs'), aware non-UTC datetimes ('abs+0530', 'abs-0800') or POSIX timestamp "
    "('absf') of the same instant. 'enum3'/'gen3': cases with 'ops2' add a second foreign thread T2 (bare worker thread) that, once the "
    "loop runs, schedules and disposes concurrently with T1 -- also items T1 scheduled (negative ref = own items only); T1 then never "
    "stops the loop before T2 finished. Their schedules name a favoured thread (runs whenever it can; otherwise the engine's default: "
    "current thread, else lowest id) that changes at d change points; enum3 runs all 3 initial favourites x every change point where "
    "the newly favoured thread is runnable (d=1) for 6 (quick) / 14 (thorough) programs, gen3 draws programs and <=3 change points. "
    "Same oracle per item."
)
ASSUMPTIONS = [
    "each disposable is disposed at most once (overlapping dispose() calls on one disposable from two threads are outside the quantifier)",
    "the loop is started/stopped only between director ops, so it never starts or stops while a dispose() is in progress (property text)",
    "the plain AsyncIOScheduler is used on the loop thread or while the loop is not running (its documented domain)",
    "C-level atomicity of CPython (GIL build): a source line is the unit of interleaving; stdlib code other than asyncio/base_events.py and asyncio/events.py is atomic",
    "loop.time / loop._selector / loop._write_to_self of the real loop object are harness replacements (fake clock, cooperative wait); self-pipe I/O is not exercised",
    "bounds: 2 logical threads (3 in enum3/gen3), <=9 ops per thread, <=1 (quick) / <=2 (thorough, 2-thread programs) exhaustive priority flips, <=3 drawn",
    "naive datetimes are not used as absolute due times (their meaning is not defined by the property)",
]

_TRACE = (_be.__file__, _ev.__file__)
MAX_STEPS = 4000
RUN_KW = dict(extra_trace=_TRACE, reuse_threads=True, max_steps=MAX_STEPS, wall_timeout=300.0, stall_timeout=120.0)  # wall-clock backstops only: generous, the shared machine can be heavily overloaded


class _CoopSelector:
    """Stands in for loop._selector: select() never blocks the OS thread; T0 parks on `wake` (fake clock)."""

    def __init__(self, real, wake):
        self._real, self._wake = real, wake

    def select(self, timeout=None):
        if det.aborting():  # run is being torn down: leave run_forever
            raise det.Abort()
        w = self._wake
        if w.is_set():  # a wake-up byte is pending: the real selector would return the self-pipe at once
            w.clear()
            return []
        if timeout is not None and timeout <= 0:
            return []
        if timeout is not None:
            timeout = math.ceil(timeout * 1e6 - 1e-4) / 1e6  # whole fake microseconds, never early
        w.wait(timeout)
        w.clear()
        return []

    def __getattr__(self, name):
        return getattr(self._real, name)


class _World:
    """Fresh loop + scheduler + the two logical threads for one run of a case."""

    def __init__(self, case):
        from reactivex.scheduler.eventloop import AsyncIOScheduler, AsyncIOThreadSafeScheduler

        self.case = case
        self.loop = loop = asyncio.new_event_loop()
        self.wake = det.CEvent()
        self._real_selector = loop._selector
        loop._selector = _CoopSelector(self._real_selector, self.wake)
        loop._write_to_self = self.wake.set
        loop.time = lambda: det.clock_us() / 1e6
        self.go, self.running_evt, self.stopped = det.CEvent(), det.CEvent(), det.CEvent()
        self.first_iter = False
        self.finished = False
        self.aborted = False
        self.running = False  # the director's knowledge (exact: it alone starts/stops the loop, synchronously)
        self.loop_errors = []
        self.items = []
        self.skipped = 0
        self.other = None
        self.t2_go, self.t2_done = det.CEvent(), det.CEvent()
        self.three = "ops2" in case
        real_once = loop._run_once

        def run_once():
            if self.first_iter:  # run_forever has set _thread_id and the running-loop thread state by now
                self.first_iter = False
                self.running_evt.set()
            real_once()

        loop._run_once = run_once
        real_call_later = loop.call_later

        def call_later(delay, callback, *args, **kw):  # observation only: marks "stage 2 / timer registration in flight"
            k = _item_of(callback)
            det.log("cl-enter", k)
            try:
                return real_call_later(delay, callback, *args, **kw)
            finally:
                det.log("cl-exit", k)

        loop.call_later = call_later
        loop.set_exception_handler(self._on_loop_exception)
        self.sch = AsyncIOThreadSafeScheduler(loop) if case["sch"] == "ts" else AsyncIOScheduler(loop)

    # ---- loop plumbing -------------------------------------------------------------------------
    def _on_loop_exception(self, loop, context):
        e = context.get("exception")
        if isinstance(e, det.Abort):  # Handle._run swallowed the unwinding of an aborted run
            self.aborted = True
            loop.stop()
            return
        if isinstance(e, HarnessError):
            self.loop_errors.append(e)
            return
        self.loop_errors.append(e if e is not None else RuntimeError(str(context.get("message"))))

    def close(self):
        loop = self.loop
        try:
            loop._selector = self._real_selector
            for n in ("_write_to_self", "time", "_run_once", "call_later"):
                loop.__dict__.pop(n, None)
            loop.set_exception_handler(None)  # breaks the loop <-> _World reference cycle
            if loop.is_running():
                raise HarnessError("loop still running after the run")
            loop.close()
            if self.other is not None:
                self.other.close()
        finally:
            self.loop = self.other = None

    # ---- T0: the loop thread -------------------------------------------------------------------
    def t0(self):
        if asyncio._get_running_loop() is not None:
            raise HarnessError("pooled worker thread still has a running loop set")
        while True:
            self.go.wait()
            self.go.clear()
            if self.finished or self.aborted:
                return
            self.first_iter = True
            self.loop.run_forever()
            if self.aborted:
                return
            self.stopped.set()

    # ---- T1: the director ----------------------------------------------------------------------
    def _start(self):
        if not self.running:
            self.go.set()
            self.running_evt.wait()
            self.running_evt.clear()
            self.running = True
            det.log("loop-started")
            self.t2_go.set()

    def _stop(self):
        if self.running:
            self.loop.call_soon_threadsafe(self.loop.stop)
            self.stopped.wait()
            self.stopped.clear()
            self.running = False
            det.log("loop-stopped")

    def _post(self, fn):
        self.loop.call_soon_threadsafe(fn)

    def _make_action(self, k):
        loop = self.loop

        def action(scheduler, state):
            det.yield_point("action")
            det.log("start", k, det.clock_us(), threading.get_ident() == loop._thread_id, asyncio._get_running_loop() is loop, state == k)
            return None

        action._c33_k = k
        return action

    def _do_sched(self, k):
        it = self.items[k]
        kind, ms = it["kind"], it["ms"]
        it["call_us"] = det.clock_us()
        it["due_us"] = it["call_us"] + (max(0, ms) * 1000 if kind != "now" else 0)
        it["on"] = "loop" if det.current_tid() == 0 else "foreign"
        it["by"] = det.current_tid()
        it["running_at_sched"] = self.running
        det.log("scall", k)
        action = self._make_action(k)
        if kind == "now":
            d = self.sch.schedule(action, state=k)
        elif kind == "rel":
            d = self.sch.schedule_relative(ms / 1000.0 if ms % 2 else timedelta(milliseconds=ms), action, state=k)
        else:  # the same instant in four spellings of AbsoluteTime: aware UTC / aware non-UTC datetimes, POSIX timestamp
            inst = self.sch.now + timedelta(milliseconds=ms)
            form = kind[3:]
            if form == "+0530":
                inst = inst.astimezone(timezone(timedelta(hours=5, minutes=30)))
            elif form == "-0800":
                inst = inst.astimezone(timezone(timedelta(hours=-8)))
            elif form == "f":
                inst = inst.timestamp()
            elif form:
                raise HarnessError(f"bad kind {kind}")
            d = self.sch.schedule_absolute(inst, action, state=k)
        it["disp"] = d
        det.log("sret", k)

    def _do_dispose(self, k, where):
        it = self.items[k]
        if it["disp"] is None:  # posted schedule op has not executed yet: nothing to dispose (schedule dependent)
            it["dreq"] = False
            self.skipped += 1
            det.log("dskip", k)
            return
        it["dwhere"] = where if where == "L" else ("F" if self.running else "F-stopped")
        it["dby"] = det.current_tid()
        det.log("dcall", k)
        it["disp"].dispose()
        det.log("dret", k)

    def t1(self):
        """The director.  case["cur"] says what this foreign thread's own asyncio state is: "none" (no current loop),
        "same" (it called asyncio.set_event_loop(<the scheduler's loop>), the loop nevertheless RUNS in T0), "other" (its
        current loop is another, idle loop), "other-running" (it is itself inside another running loop)."""
        cur = self.case.get("cur", "none")
        if asyncio._get_running_loop() is not None:
            raise HarnessError("pooled worker thread still has a running loop set")
        try:
            if cur == "same":
                asyncio.set_event_loop(self.loop)
            elif cur in ("other", "other-running"):
                self.other = asyncio.new_event_loop()
                asyncio.set_event_loop(self.other)
                if cur == "other-running":
                    asyncio._set_running_loop(self.other)
            elif cur != "none":
                raise HarnessError(f"bad cur {cur}")
            self._direct()
        finally:  # pooled OS threads: leave no per-thread asyncio state behind
            asyncio._set_running_loop(None)
            asyncio.set_event_loop(None)

    def t2(self):
        """Second foreign thread (cases with "ops2"): a bare worker thread without any asyncio state of its own that
        schedules and disposes -- also items scheduled by T1 -- while the loop runs.  It begins once the director has
        started the loop; the director does not stop the loop before T2 has finished (no stop during a dispose())."""
        if asyncio._get_running_loop() is not None:
            raise HarnessError("pooled worker thread still has a running loop set")
        try:
            self.t2_go.wait()
            self._interpret(self.case["ops2"], 2)
        finally:
            asyncio._set_running_loop(None)
            asyncio.set_event_loop(None)
            self.t2_done.set()

    def _interpret(self, ops, me):
        plain = self.case["sch"] == "plain"
        for op in ops:
            name = op[0]
            if name == "sched":
                _, kind, ms, where = op
                k = len(self.items)
                self.items.append({"kind": kind, "ms": ms, "disp": None, "dreq": False, "call_us": None, "due_us": None, "dwhere": None, "owner": me})
                if where == "L" or (plain and self.running):
                    self._post(lambda k=k: self._do_sched(k))
                else:
                    self._do_sched(k)
            elif name == "dispose":
                _, ref, where = op
                cand = [i for i, it in enumerate(self.items) if not it["dreq"]]
                if ref < 0:  # negative ref: only items this thread scheduled itself
                    cand = [i for i in cand if self.items[i]["owner"] == me]
                    ref = -ref - 1
                if not cand:
                    continue
                k = cand[ref % len(cand)]
                self.items[k]["dreq"] = True
                if where == "L" or (plain and self.running):
                    self._post(lambda k=k: self._do_dispose(k, "L"))
                else:
                    self._do_dispose(k, "F")
            elif name == "sleep":
                det.CEvent().wait(op[1] / 1000.0)
            elif name == "start" and me == 1:
                self._start()
            elif name == "stop" and me == 1:
                if not self.three:  # with a second foreign thread the loop keeps running until the epilogue
                    self._stop()
            elif name not in ("start", "stop"):
                raise HarnessError(f"bad op {op}")

    def _direct(self):
        case = self.case
        max_ms = max([op[2] for op in case["ops"] + case.get("ops2", []) if op[0] == "sched"] + [0])
        self._interpret(case["ops"], 1)
        # epilogue: the loop runs until every live timer is overdue, then stops; T0 ends
        self._start()
        if self.three:
            self.t2_done.wait()
        det.CEvent().wait((max_ms + 5) / 1000.0)
        det.log("epilogue")
        self._stop()
        self.finished = True
        self.go.set()


def _item_of(callback):
    for cell in getattr(callback, "__closure__", None) or ():
        try:
            v = cell.cell_contents
        except ValueError:
            continue
        k = getattr(v, "_c33_k", None)
        if k is not None:
            return k
    return None


# ---------------------------------------------------------------------------------------------
# running one (case, priority schedule) pair
# ---------------------------------------------------------------------------------------------
def _entries(first, flips, n):
    """Dense det schedule for a 2-thread priority schedule: `first` has priority until the first flip."""
    if flips and isinstance(flips[0], (list, tuple)):  # 3-thread form: [[step, tid]...] = `tid` is favoured from `step` on
        at = {}
        for c, t in flips:
            at.setdefault(int(c), int(t))
        out = []
        prio = first
        for s in range(n):
            prio = at.get(s, prio)
            out.append((s, prio))
        return out
    fl = sorted(set(int(c) for c in flips))
    out = []
    prio = first
    j = 0
    for s in range(n):
        while j < len(fl) and fl[j] == s:
            prio ^= 1
            j += 1
        out.append((s, prio))
    return out


def _run(case, first, flips, n_entries=1000):
    """One run of the case under the priority schedule (first, flips).  Returns (RunResult, _World)."""
    c0 = det.clock_us()
    while True:
        w = _World(case)
        threads, names = [w.t0, w.t1], ["T0-loop", "T1-director"]
        if "ops2" in case:
            threads.append(w.t2)
            names.append("T2-foreign")
        try:  # (det switches cyclic GC off during a run: no BaseEventLoop.__del__ of an older loop on a controlled thread)
            res = det.run_program(threads, _entries(first, flips, n_entries), names=names, clock_us=c0, **RUN_KW)
        finally:
            det.set_clock_us(c0)
            w.close()
        for e in w.loop_errors:
            if isinstance(e, HarnessError):
                raise e
        if res.steps <= n_entries or n_entries >= MAX_STEPS:
            return res, w
        n_entries = MAX_STEPS  # the priority table did not cover the whole run: again with a full one


def _fp(res):
    """Run fingerprint without object addresses (det's own includes the repr of the blocked-on graph)."""
    return (tuple(res.owners), tuple(res.labels), repr(res.events), sorted(res.deadlock["blocked"]) if res.deadlock else None,
            tuple(sorted((k, type(v).__name__) for k, v in res.exceptions.items())), res.clock_us, res.budget_exceeded)  # fmt: skip


def _describe(res):
    sw = [f"@{s}:T{a}->T{b} at {res.labels[s]}" for s, a, b in res.switches()]
    return f"steps={res.steps} clock={res.clock_us}us switches: " + "; ".join(sw[:40])


def _run_checked(case, first, flips):
    r1, _ = _run(case, first, flips)
    r2, w2 = _run(case, first, flips)
    if _fp(r1) != _fp(r2):
        raise HarnessError(f"non-deterministic run first={first} flips={flips} case={case}:\n  {_describe(r1)}\n  {_describe(r2)}")
    return r2, w2


def _both(res, after=-1):
    return [s for s in range(after + 1, res.steps) if len(res.choices[s]) > 1]


def _alts(res, after=-1):
    """3-thread programs: every [step, tid] with tid runnable at that step but not the thread that ran it."""
    return [[s, t] for s in range(after + 1, res.steps) for t in res.choices[s] if t != res.owners[s]]


# ---------------------------------------------------------------------------------------------
# oracle
# ---------------------------------------------------------------------------------------------
def _judge(case, w, res):
    """Returns (violation | None, classes).  violation = (sig, detail)."""
    classes = set()
    sch = case["sch"]
    if res.exceptions:
        tid, e = sorted(res.exceptions.items())[0]
        return (f"escaped:{type(e).__name__}|{sch}", f"thread {tid}: {e!r}"), classes
    if w.loop_errors:
        e = w.loop_errors[0]
        import re

        return (f"loop-callback-raised:{type(e).__name__}|{sch}", re.sub(r" at 0x[0-9a-f]+", "", f"{e!r}")), classes
    if res.deadlock:
        waiting = [it for it in w.items if it.get("dwhere")]
        import re

        graph = {t: re.sub(r"@[0-9a-f]+", "", d) for t, d in sorted(res.deadlock["blocked"].items())}
        return (f"deadlock|{sch}", f"{graph} (loop running per director: {w.running}; dispose() calls so far: {[it['dwhere'] for it in waiting]})"), classes
    if not res.complete:
        return None, {"inconclusive"}
    ev = res.events
    pos = {}
    starts = {}
    for i, (_, tid, pl) in enumerate(ev):
        if not isinstance(pl, tuple):
            continue
        if pl[0] == "start":
            starts.setdefault(pl[1], []).append((i, tid, pl))
        else:
            pos.setdefault(pl, i)
    for k, it in enumerate(w.items):
        var = f"{sch}:{it['kind']}"
        ss = starts.get(k, [])
        for i, tid, pl in ss:
            _, _, us, ident_ok, running_ok, state_ok = pl
            if tid != 0 or not ident_ok or not running_ok:
                return (f"off-loop-thread|{var}", f"item {k} started on logical thread {tid} (loop thread id match={ident_ok}, running loop is the loop={running_ok})"), classes
            if not state_ok:
                return (f"wrong-state|{var}", f"item {k} got a foreign state"), classes
            if it["due_us"] is not None and us < it["due_us"]:
                return (f"early|{var}", f"item {k} ({it['kind']} {it['ms']} ms, scheduled at {it['call_us']} us) started at {us} us < due {it['due_us']} us"), classes
        if len(ss) > 1:
            return (f"ran-twice|{var}", f"item {k} started {len(ss)} times"), classes
        dcall, dret = pos.get(("dcall", k)), pos.get(("dret", k))
        if dret is not None:
            late = [i for i, _, _ in ss if i > dret]
            if late:
                return (
                    f"start-after-dispose|{var}:dispose-{it['dwhere']}" + (f":cur-{case['cur']}" if case.get("cur", "none") != "none" else ""),
                    f"item {k} ({it['kind']} {it['ms']} ms, scheduled on the {it.get('on')} thread, loop running at schedule: {it.get('running_at_sched')}) started at event {late[0]} "
                    f"after its dispose() (called {it['dwhere']}) had returned at event {dret}",
                ), classes
        if dcall is None and it["disp"] is not None and not ss:
            return (f"never-ran|{var}", f"item {k} ({it['kind']} {it['ms']} ms) was never disposed and never ran although the loop ran until {res.clock_us} us (due {it['due_us']})"), classes
        # ---- measurement classes
        classes.add(f"kind:{it['kind']}")
        if ss:
            classes.add("action-ran")
        if dcall is not None:
            classes.add(f"dispose:{it['dwhere']}")
            if it.get("dby") in (1, 2) and it.get("by") in (1, 2) and it["dby"] != it["by"]:
                classes.add("dispose:by-other-foreign-thread")
            started_before = any(i < dcall for i, _, _ in ss)
            during = any(dcall < i < (dret if dret is not None else 1 << 60) for i, _, _ in ss)
            two_stage = sch == "ts" and it["kind"] != "now" and it["ms"] > 0
            cl_in, cl_out = pos.get(("cl-enter", k)), pos.get(("cl-exit", k))
            if during:
                classes.add("start-during-dispose")
            if started_before:
                classes.add("dispose-after-start")
            elif two_stage:
                end = dret if dret is not None else 1 << 60
                if cl_in is None or dcall < cl_in:
                    classes.add("inflight:stage1" + ("" if it["dwhere"] != "F-stopped" else "-stopped"))
                    if cl_in is not None and cl_in < end:
                        classes.add("stage2-ran-during-dispose")
                elif cl_out is None or dcall < cl_out:
                    classes.add("inflight:stage2")
                else:
                    classes.add("dispose-pending-timer")
            elif it["kind"] == "now" or it["ms"] <= 0:
                classes.add("inflight:queued" + ("" if it["dwhere"] != "F-stopped" else "-stopped"))
            else:
                classes.add("dispose-pending-timer")
            if it["dwhere"] == "F" and sch == "ts":
                classes.add("marshalled")
    if w.skipped:
        classes.add("dispose-skipped")
    classes.add(f"cur:{case.get('cur', 'none')}")
    if w.three:
        classes.add("threads:3")
        spans = [(pos[("dcall", k)], pos.get(("dret", k), 1 << 60), it["dby"]) for k, it in enumerate(w.items) if ("dcall", k) in pos and it["dwhere"] == "F"]
        if any(a[2] != b[2] and a[0] < b[1] and b[0] < a[1] for a in spans for b in spans):
            classes.add("two-marshalled-disposes-overlap")
    return None, classes


def _nontrivial(classes):
    return any(c.startswith("inflight:") for c in classes)


# ---------------------------------------------------------------------------------------------
# check body
# ---------------------------------------------------------------------------------------------
_selftest_done = [False]


def _selftest():
    if _selftest_done[0]:
        return
    import reactivex.scheduler.eventloop.asynciothreadsafescheduler as tsmod
    from reactivex.scheduler.eventloop import AsyncIOScheduler

    if tsmod.Future is not det.CFuture:
        raise HarnessError("concurrent.futures.Future in asynciothreadsafescheduler is not cooperative under det.patched()")
    loop = asyncio.new_event_loop()
    try:
        if AsyncIOScheduler(loop).now != det.now():
            raise HarnessError("scheduler clock is not the DET fake clock")
    finally:
        loop.close()
    _selftest_done[0] = True


def _verdict(case, first, flips, res, w):
    bad, classes = _judge(case, w, res)
    if bad is None:
        return None, classes
    res2, w2 = _run_checked(case, first, flips)  # the failing pair must fail the same way again
    bad2, _ = _judge(case, w2, res2)
    if bad2 is None or bad2[0] != bad[0]:
        raise HarnessError(f"verdict not reproducible first={first} flips={flips}: {bad} vs {bad2}; case={case}")
    events = [(i, tid, pl) for i, (_, tid, pl) in enumerate(res2.events)]
    return (bad[0], f"{bad[1]}; priority schedule: first=T{first} flips at steps {flips}; events={events}; {_describe(res2)}; case={case}"), classes


def run_case(case):
    sched = case["sched"]
    lg = logging.getLogger("asyncio")
    lvl = lg.level
    lg.setLevel(logging.CRITICAL)
    try:
        with det.patched():
            _selftest()
            if sched["mode"] == "all":
                return _run_all(case, sched["K"])
            three = "ops2" in case
            first = sched["first"] % (3 if three else 2)
            if sched["mode"] == "exact":
                flips = [([int(c[0]), int(c[1])] if three else int(c)) for c in sched["flips"]]
            elif three:
                base, _ = _run(case, first, [])
                alts = _alts(base)
                by_step = {}
                for p in sched["flips"]:
                    if alts:
                        c, t = alts[int(p) % len(alts)]
                        by_step.setdefault(c, t)
                flips = [[c, by_step[c]] for c in sorted(by_step)]
            else:
                base, _ = _run(case, first, [])
                both = _both(base)
                flips = sorted({both[int(p) % len(both)] for p in sched["flips"]}) if both else []
            if sum(c[0] if three else c for c in flips) % 4 == 0:
                res, w = _run_checked(case, first, flips)
            else:
                res, w = _run(case, first, flips)
            v, classes = _verdict(case, first, flips, res, w)
            cl = sorted(classes) + [f"sch:{case['sch']}", f"flips:{len(flips)}", f"first:T{first}"]
            if v:
                return FAIL(v[0], v[1], classes=cl)
            if not res.complete:
                return SKIP("budget")
            return OK(_nontrivial(classes), cl)
    finally:
        lg.setLevel(lvl)


_CLAUSE_RANK = ["start-after-dispose", "early", "off-loop-thread", "never-ran", "ran-twice", "wrong-state", "deadlock"]


def _rank(sig):
    clause = sig.split("|")[0]
    return _CLAUSE_RANK.index(clause) if clause in _CLAUSE_RANK else len(_CLAUSE_RANK)


def _run_all(case, K):
    """Both initial priorities x every effective placement of <=K priority flips (breadth first).  All schedules are
    run even after a failure so that the most specific clause is the one reported (others are listed)."""
    seen = set()
    runs = 0
    incomplete = 0
    found = {}  # sig -> (first, flips)
    three = "ops2" in case
    cands = _alts if three else _both
    for first in (0, 1, 2) if three else (0, 1):
        level = [[]]
        for k in range(K + 1):
            nxt = []
            for flips in level:
                if runs == 0:
                    res, w = _run_checked(case, first, flips)
                else:
                    res, w = _run(case, first, flips)
                runs += 1
                bad, classes = _judge(case, w, res)
                if bad is not None:
                    found.setdefault(bad[0], (first, flips))
                    if len(found) >= 4 or runs > 3000:
                        break
                    continue
                incomplete += not res.complete
                seen |= classes
                if k < K:
                    last = -1 if not flips else (flips[-1][0] if three else flips[-1])
                    nxt.extend(flips + [c] for c in cands(res, last))
            level = nxt
    if found:
        sig = min(found, key=lambda s_: (_rank(s_), s_))
        first, flips = found[sig]
        res, w = _run(case, first, flips)
        v, classes = _verdict(case, first, flips, res, w)
        if v is None or v[0] != sig:
            raise HarnessError(f"verdict not reproducible first={first} flips={flips}: {sig} vs {v}; case={case}")
        others = sorted(s_ for s_ in found if s_ != sig)
        return FAIL(v[0], v[1] + (f"; other signatures among the explored schedules: {others}" if others else ""), classes=sorted(classes) + ["exhaustive"])
    if incomplete:
        return SKIP("budget")
    cl = sorted(seen) + ["exhaustive", f"K{K}", f"sch:{case['sch']}"] + [f"runs>={b}" for b in (100, 1000, 10000) if runs >= b]
    return OK(_nontrivial(seen), cl)


# ---------------------------------------------------------------------------------------------
# enumerated programs and generators
# ---------------------------------------------------------------------------------------------
def _programs():
    """[(sch, ops, k2[, cur])]; k2 = also explored with two flips in the thorough tier; cur = the director thread's own asyncio state."""
    S_ts = [["sched", "now", 0, "F"], ["sched", "rel", 2, "F"], ["sched", "abs", 2, "F"], ["sched", "now", 0, "L"], ["sched", "rel", 2, "L"]]
    S_f = S_ts[:3]
    D = [["dispose", 0, "F"], ["dispose", 0, "L"]]
    out = []
    for s in S_ts:  # loop running, dispose right away
        for d in D:
            out.append(("ts", [["start"], s, d], True))
    for s in S_ts:  # dispose before / exactly at / after the due time
        for ms in (1, 2, 3):
            for d in D:
                out.append(("ts", [["start"], s, ["sleep", ms], d], s[3] == "F" or ms == 1))
    for s in S_f:  # loop not running
        out.append(("ts", [s, D[0], ["start"]], True))
        out.append(("ts", [s, ["start"], D[0]], True))
        out.append(("ts", [s, ["start"], D[1]], False))
        out.append(("ts", [s, D[1], ["start"]], False))
    for s in S_ts:  # stopped again, then restarted
        out.append(("ts", [["start"], s, ["stop"], D[0], ["start"]], True))
        out.append(("ts", [["start"], s, ["sleep", 1], ["stop"], D[0], ["start"]], False))
    for a, b in itertools.product([S_ts[0], S_ts[1]], repeat=2):  # a neighbour that must still run
        for ref in (0, 1):
            out.append(("ts", [["start"], a, b, ["dispose", ref, "F"]], ref == 0))
    for s in S_f:  # the foreign thread's own asyncio state: scheduler's loop as *current* loop, another loop current / running
        for cur in ("same", "other-running"):
            out.append(("ts", [["start"], s, D[0]], True, cur))
            out.append(("ts", [["start"], s, ["sleep", 1], D[0]], False, cur))
        out.append(("ts", [["start"], s, D[0]], True, "other"))
        out.append(("ts", [s, D[0], ["start"]], False, "same"))
    S_pl = [["sched", "now", 0, "F"], ["sched", "rel", 2, "F"], ["sched", "abs", 2, "F"]]
    for s in S_pl:  # plain scheduler: before the loop starts, and on the loop thread
        out.append(("plain", [s, D[0], ["start"]], True))
        out.append(("plain", [s, ["start"], D[0]], True))
        out.append(("plain", [["start"], s, D[0]], True))
        out.append(("plain", [["start"], s], False))
        for ms in (1, 2, 3):
            out.append(("plain", [["start"], s, ["sleep", ms], D[0]], False))
        out.append(("plain", [["start"], s, ["stop"], D[0], ["start"]], False))
    for form in ("+0530", "-0800", "f"):  # the same due instant as aware non-UTC datetime / POSIX timestamp
        s = ["sched", "abs" + form, 2, "F"]
        out.append(("ts", [["start"], s, D[0]], False))
        out.append(("ts", [["start"], s], False))
        out.append(("plain", [["start"], s], False))
    return out


def _programs3(tier):
    """Programs with a second foreign thread: [(ops of T1, ops of T2)], all on the thread-safe scheduler."""
    now, rel = ["sched", "now", 0, "F"], ["sched", "rel", 2, "F"]
    own, any0 = ["dispose", -1, "F"], ["dispose", 0, "F"]
    out = [
        ([["start"], rel], [any0]),  # T2 disposes what T1 scheduled
        ([["start"], now], [any0]),
        ([["start"], rel, own], [rel, own]),  # two marshalled cancellations in flight
        ([["start"], now, own], [now, own]),
        ([["start"], rel, ["sleep", 1], own], [now, own]),
        ([["start"], ["sched", "rel", 2, "L"], now], [["sleep", 1], any0, any0]),
    ]
    if tier == "thorough":
        out += [
            ([["start"], rel, own], [now, own]),
            ([["start"], now, own], [rel, own]),
            ([rel, ["start"], own], [rel, own]),
            ([["start"], rel, ["dispose", 0, "L"]], [rel, own]),
            ([["start"], ["sched", "abs", 2, "F"], own], [["sched", "abs+0530", 2, "F"], own]),
            ([["start"], rel, rel], [any0, any0]),
            ([["start"], rel, ["sleep", 2], own], [rel, ["sleep", 2], own]),
            ([["start"], now, now, own], [["dispose", 1, "F"]]),
        ]
    return out


def _enum3(tier):
    for ops, ops2 in _programs3(tier):
        yield {"sch": "ts", "ops": ops, "ops2": ops2, "sched": {"mode": "all", "K": 1}}


def _enum(tier):
    for K in (1, 2) if tier == "thorough" else (1,):
        for sch, ops, k2, *cur in _programs():
            if K == 2 and not k2:
                continue
            case = {"sch": sch, "ops": ops, "sched": {"mode": "all", "K": K}}
            if cur:
                case["cur"] = cur[0]
            yield case


_where = st.sampled_from(["F", "F", "L"])
_op = st.one_of(
    st.tuples(st.just("sched"), st.just("now"), st.just(0), _where),
    st.tuples(st.just("sched"), st.just("rel"), st.integers(0, 5), _where),
    st.tuples(st.just("sched"), st.just("rel"), st.integers(1, 3), _where),
    st.tuples(st.just("sched"), st.just("abs"), st.integers(-2, 5), _where),
    st.tuples(st.just("sched"), st.sampled_from(["abs+0530", "abs-0800", "absf"]), st.integers(-2, 5), _where),
    st.tuples(st.just("dispose"), st.integers(0, 3), _where),
    st.tuples(st.just("dispose"), st.integers(0, 3), _where),
    st.tuples(st.just("dispose"), st.integers(0, 3), _where),
    st.tuples(st.just("sleep"), st.integers(1, 6)),
    st.tuples(st.just("start")),
    st.tuples(st.just("stop")),
).map(list)


_sched_op = st.one_of(_op.filter(lambda o: o[0] == "sched"))
_dispose_op = st.tuples(st.just("dispose"), st.integers(0, 3), _where).map(list)
_mid_op = st.one_of(st.tuples(st.just("sleep"), st.integers(1, 4)).map(list), _op)


def _assemble(t):
    started, pre, s, mid, d, post = t
    return ([["start"]] if started else []) + pre + [s] + mid + [d] + post


_gen = st.fixed_dictionaries(
    {
        "sch": st.sampled_from(["ts", "ts", "ts", "plain"]),
        "cur": st.sampled_from(["none", "none", "same", "same", "other", "other-running"]),
        "ops": st.tuples(
            st.sampled_from([True, True, False]), st.lists(_op, max_size=2), _sched_op, st.lists(_mid_op, max_size=2), _dispose_op, st.lists(_op, max_size=2)
        ).map(_assemble),
        "sched": st.fixed_dictionaries(
            {
                "mode": st.just("prio"),
                "first": st.integers(0, 1),
                "flips": st.sampled_from([1, 1, 2, 1, 3, 2, 3, 0]).flatmap(lambda n: st.lists(st.integers(0, 4095), min_size=n, max_size=n)),
            }
        ),
    }
)


_op2 = st.one_of(
    _op.filter(lambda o: o[0] == "sched"),
    st.tuples(st.just("dispose"), st.integers(-2, 3), st.sampled_from(["F", "F", "F", "L"])).map(list),
    st.tuples(st.just("dispose"), st.integers(-2, 3), st.just("F")).map(list),
    st.tuples(st.just("sleep"), st.integers(1, 4)).map(list),
)
_gen3 = st.fixed_dictionaries(
    {
        "sch": st.sampled_from(["ts", "ts", "ts", "ts", "plain"]),
        "cur": st.sampled_from(["none", "same", "other-running"]),
        "ops": st.tuples(
            st.sampled_from([True, True, False]), st.lists(_op, max_size=1), _sched_op, st.lists(_mid_op, max_size=2), st.lists(_op2, max_size=2), st.lists(_op, max_size=1)
        ).map(lambda t: ([["start"]] if t[0] else []) + t[1] + [t[2]] + t[3] + t[4] + t[5]),
        "ops2": st.tuples(st.lists(_op2, max_size=2), st.tuples(st.just("dispose"), st.integers(-2, 3), st.just("F")).map(list), st.lists(_op2, max_size=1)).map(
            lambda t: t[0] + [t[1]] + t[2]
        ),
        "sched": st.fixed_dictionaries(
            {
                "mode": st.just("prio"),
                "first": st.sampled_from([0, 2, 1]),
                "flips": st.sampled_from([1, 2, 1, 3, 2, 3, 0]).flatmap(lambda n: st.lists(st.integers(0, 4095), min_size=n, max_size=n)),
            }
        ),
    }
)


def checks(tier):
    return [
        Check("enum", run_case, cases=_enum, shards={"quick": 8, "thorough": 16}, exhaustive=True),
        Check("gen", run_case, strategy=_gen, examples={"quick": 4000, "thorough": 16 * 8000}, shards={"quick": 8, "thorough": 16}),
        Check("enum3", run_case, cases=_enum3, shards={"quick": 8, "thorough": 16}, exhaustive=True),
        Check("gen3", run_case, strategy=_gen3, examples={"quick": 600, "thorough": 16 * 3000}, shards={"quick": 8, "thorough": 16}),
    ]
