"""C36 Time values convert consistently between float seconds, aware datetimes and timedeltas."""
from __future__ import annotations

import importlib
import inspect
import math
import os
import pkgutil
from datetime import datetime, timedelta, timezone
from fractions import Fraction

from hypothesis import strategies as st

from vlib.core import FAIL, OK, Check, HarnessError

PROPERTY_ID = "C36"
LEVEL = "exploration"
RULE = (
    "conv: a pair (a, b) of time values of one kind - float seconds (|t| <= 2**32 s; microsecond-aligned k/10**6, "
    "non-aligned incl. near-half-microsecond values and 1-ulp neighbours, python ints), timedelta (integer microseconds, "
    "|t| <= 2**32 s) or aware datetime (epoch +- 2**32 s, tz offsets -12:00..+14:00 incl. half/quarter hours and "
    "arbitrary minutes) - b is independent, equal, +-1us or +-1ulp from a. Conversions are called through a generated "
    "Scheduler class. Oracle (closed form on integer microseconds / Fractions): identity on same-type input; exact "
    "results and exact round trips to_datetime.to_seconds, to_timedelta.to_seconds, to_datetime.to_timedelta (both "
    "directions) for aligned values; a non-aligned float lands on one of its two neighbouring microseconds (this is "
    "order preservation between the aligned neighbours); a<=b => conv(a)<=conv(b) for all six conversions, strict for "
    "distinct aligned values; datetime results are timezone-aware. Non-trivial: a value has a non-zero sub-second "
    "part. wide: the same three kinds over everything a datetime can represent (years 1..9999, up to 2.5e11 s): "
    "datetime<->timedelta conversions and their round trips stay exact (integer arithmetic) and strictly monotone; "
    "whatever passes through float seconds is judged with the stated tolerance of 1 us + 1 ulp of the seconds value "
    "(2x for a there-and-back trip), float -> datetime/timedelta within 1 us of the exact value, and order is "
    "preserved (weakly) by every conversion; non-trivial = |t| > 2**32 s. now: every Scheduler subclass found by introspection x constructor/singleton x clock values x process "
    "time zone (host zone, TZ=XXX-5:30, TZ=YYY+8 via time.tzset(), restored afterwards); oracle: now is a datetime "
    "with utcoffset() == 0. Distinct = distinct case JSON. atheris (thorough): the conv "
    "strategy+oracle driven by libFuzzer through hypothesis.fuzz_one_input."
)
ASSUMPTIONS = [
    "exact float round trips are only demanded for |t| <= 2**32 s, where a double still resolves microseconds; beyond that (check 'wide') a tolerance of 1 us + 1 ulp is stated",
    "datetimes are timezone-aware (naive datetimes cannot be subtracted from the UTC epoch and are outside the quantifier)",
    "HistoricalScheduler is given UTC initial clocks only (with a non-UTC aware clock its now keeps the caller's tzinfo)",
    "event-loop/main-loop schedulers are constructed around inert stub loop objects; only their now property is read",
    "the now check switches the process time zone (os.environ['TZ'] + time.tzset()) around the reads and restores it; shards are single-threaded",
    "the platform's datetime.fromtimestamp/timedelta(seconds=) float rounding (CPython: round-half-even) is part of the trusted base",
]

EPOCH = datetime(1970, 1, 1, tzinfo=timezone.utc)
MAXS = 2**32
MAXUS = MAXS * 10**6
US = timedelta(microseconds=1)

CLASSES = ["Scheduler", "TestScheduler", "HistoricalScheduler", "ImmediateScheduler", "TimeoutScheduler", "VirtualTimeScheduler", "instance"]


def _cls(name):
    import reactivex.scheduler as S
    from reactivex.scheduler.scheduler import Scheduler
    from reactivex.testing import TestScheduler

    if name == "Scheduler":
        return Scheduler
    if name == "TestScheduler":
        return TestScheduler
    if name == "instance":
        return S.ImmediateScheduler()
    return getattr(S, name)


# ---------------------------------------------------------------------------------------
# decoding of JSON-able values


def _dec_float(e):
    """-> (python value, exact Fraction seconds)."""
    if "us" in e:
        x = e["us"] / 10**6  # int/int true division is correctly rounded: the double nearest to k microseconds
        return x, Fraction(x)
    if "hex" in e:
        x = float.fromhex(e["hex"])
        return x, Fraction(x)
    if "int" in e:
        return e["int"], Fraction(e["int"])
    raise HarnessError(f"float enc {e}")


def _aligned_us(fr):
    """k if the float with exact value fr is the double nearest to k/10**6 (k integer) else None."""
    k = round(fr * 10**6)
    if Fraction(k / 10**6) == fr:
        return k
    return None


def _dec_td(e):
    return timedelta(microseconds=e["us"])


def _dec_dt(e):
    tz = timezone.utc if e["off"] is None else timezone(timedelta(minutes=e["off"]))
    return (EPOCH + timedelta(microseconds=e["us"])).astimezone(tz)


def _aware(d):
    return isinstance(d, datetime) and d.tzinfo is not None and d.utcoffset() is not None


def _us_of_td(td):
    return (td.days * 86400 + td.seconds) * 10**6 + td.microseconds


def _us_of_dt(d):
    return _us_of_td(d - EPOCH)


# ---------------------------------------------------------------------------------------


def _run_conv(case):
    S = _cls(case["cls"])
    kind = case["kind"]
    cls = [f"kind:{kind}"]
    if kind == "float":
        return _run_float(S, case, cls)
    if kind == "td":
        return _run_td(S, case, cls)
    if kind == "dt":
        return _run_dt(S, case, cls)
    raise HarnessError(kind)


def _check_dt_result(r, what, case):
    if not isinstance(r, datetime):
        return FAIL(f"type|{what}", f"{what} returned {type(r).__name__} case={case}")
    if not _aware(r):
        return FAIL(f"naive|{what}", f"{what} returned a naive datetime {r!r} case={case}")
    return None


def _run_float(S, case, cls):
    vals = []
    nontrivial = False
    for key in ("a", "b"):
        x, fr = _dec_float(case[key])
        k = _aligned_us(fr)
        if fr.denominator != 1:
            nontrivial = True
        # identity
        s = S.to_seconds(x)
        if s is not x:
            return FAIL("identity|to_seconds", f"to_seconds({x!r}) returned {s!r}, not its argument; case={case}")
        d = S.to_datetime(x)
        bad = _check_dt_result(d, "to_datetime(float)", case)
        if bad:
            return bad
        t = S.to_timedelta(x)
        if not isinstance(t, timedelta):
            return FAIL("type|to_timedelta(float)", f"got {type(t).__name__} case={case}")
        du, tu = _us_of_dt(d), _us_of_td(t)
        exact = fr * 10**6
        lo, hi = math.floor(exact), math.ceil(exact)
        if k is not None:
            cls.append("float:aligned")
            if du != k:
                return FAIL("exact|to_datetime(float)", f"x={x!r} (= {k} us) -> {d.isoformat()} = {du} us; case={case}", classes=cls)
            if tu != k:
                return FAIL("exact|to_timedelta(float)", f"x={x!r} (= {k} us) -> {t!r} = {tu} us; case={case}", classes=cls)
            # round trips float -> dt/td -> float
            if isinstance(x, float):
                back = S.to_seconds(d)
                if back != x:
                    return FAIL("roundtrip|to_seconds.to_datetime", f"x={x!r} -> {d.isoformat()} -> {back!r}; case={case}", classes=cls)
                back = S.to_seconds(t)
                if back != x:
                    return FAIL("roundtrip|to_seconds.to_timedelta", f"x={x!r} -> {t!r} -> {back!r}; case={case}", classes=cls)
        else:
            cls.append("float:non-aligned")
            if abs(exact - lo - Fraction(1, 2)) < Fraction(1, 1000):
                cls.append("float:within-0.001us-of-a-half-microsecond")
            if not (lo <= du <= hi):
                return FAIL("neighbour|to_datetime(float)", f"x={x!r} lies between {lo} and {hi} us but -> {du} us; case={case}", classes=cls)
            if not (lo <= tu <= hi):
                return FAIL("neighbour|to_timedelta(float)", f"x={x!r} lies between {lo} and {hi} us but -> {tu} us; case={case}", classes=cls)
        vals.append((x, fr, k, d, t))
    (xa, fa, ka, da, ta), (xb, fb, kb, db, tb) = vals
    if fa > fb:
        (xa, fa, ka, da, ta), (xb, fb, kb, db, tb) = vals[1], vals[0]
    if fa != fb:
        cls.append("pair:distinct")
        if abs(fa - fb) <= Fraction(2, 10**6):
            cls.append("pair:within-2us")
    if not (da <= db):
        return FAIL("order|to_datetime(float)", f"{xa!r} <= {xb!r} but {da.isoformat()} > {db.isoformat()}; case={case}", classes=cls)
    if not (ta <= tb):
        return FAIL("order|to_timedelta(float)", f"{xa!r} <= {xb!r} but {ta!r} > {tb!r}; case={case}", classes=cls)
    if ka is not None and kb is not None and ka != kb and not (da < db and ta < tb):
        return FAIL("order-strict|float", f"distinct aligned {xa!r} < {xb!r} collapse; case={case}", classes=cls)
    return OK(nontrivial, cls)


def _run_td(S, case, cls):
    out = []
    nontrivial = False
    for key in ("a", "b"):
        td = _dec_td(case[key])
        k = case[key]["us"]
        if k % 10**6:
            nontrivial = True
        if S.to_timedelta(td) is not td:
            return FAIL("identity|to_timedelta", f"to_timedelta({td!r}) did not return its argument; case={case}")
        s = S.to_seconds(td)
        if not isinstance(s, (int, float)) or isinstance(s, bool):
            return FAIL("type|to_seconds(td)", f"got {type(s).__name__}; case={case}")
        d = S.to_datetime(td)
        bad = _check_dt_result(d, "to_datetime(timedelta)", case)
        if bad:
            return bad
        if _us_of_dt(d) != k:
            return FAIL("exact|to_datetime(timedelta)", f"{td!r} -> {d.isoformat()}; case={case}", classes=cls)
        # round trips
        back = S.to_timedelta(s)
        if back != td:
            return FAIL("roundtrip|to_timedelta.to_seconds", f"{td!r} -> {s!r} -> {back!r}; case={case}", classes=cls)
        back = S.to_timedelta(d)
        if back != td:
            return FAIL("roundtrip|to_timedelta.to_datetime", f"{td!r} -> {d.isoformat()} -> {back!r}; case={case}", classes=cls)
        d2 = S.to_datetime(s)
        bad = _check_dt_result(d2, "to_datetime(float)", case)
        if bad:
            return bad
        if d2 != d:
            return FAIL("consistent|to_datetime.to_seconds(td)", f"{td!r}: via seconds {d2.isoformat()} != direct {d.isoformat()}; case={case}", classes=cls)
        out.append((k, td, s, d))
    out.sort(key=lambda r: r[0])
    (ka, ta, sa, da), (kb, tb, sb, db) = out
    if ka != kb:
        cls.append("pair:distinct")
        if kb - ka <= 2:
            cls.append("pair:within-2us")
    if not (sa <= sb and da <= db):
        return FAIL("order|timedelta", f"{ta!r} <= {tb!r} but seconds {sa!r},{sb!r} / datetimes {da.isoformat()},{db.isoformat()}; case={case}", classes=cls)
    if ka != kb and not (sa < sb and da < db):
        return FAIL("order-strict|timedelta", f"distinct {ta!r} < {tb!r} collapse to {sa!r},{sb!r}; case={case}", classes=cls)
    return OK(nontrivial, cls)


def _run_dt(S, case, cls):
    out = []
    nontrivial = False
    for key in ("a", "b"):
        e = case[key]
        d = _dec_dt(e)
        k = e["us"]
        if k % 10**6:
            nontrivial = True
        cls.append("tz:utc" if e["off"] in (None, 0) else "tz:offset")
        if S.to_datetime(d) is not d:
            return FAIL("identity|to_datetime", f"to_datetime({d.isoformat()}) did not return its argument; case={case}")
        s = S.to_seconds(d)
        if not isinstance(s, (int, float)) or isinstance(s, bool):
            return FAIL("type|to_seconds(dt)", f"got {type(s).__name__}; case={case}")
        t = S.to_timedelta(d)
        if not isinstance(t, timedelta):
            return FAIL("type|to_timedelta(dt)", f"got {type(t).__name__}; case={case}")
        if _us_of_td(t) != k:
            return FAIL("exact|to_timedelta(datetime)", f"{d.isoformat()} is {k} us after the epoch -> {t!r}; case={case}", classes=cls)
        back = S.to_datetime(s)
        bad = _check_dt_result(back, "to_datetime(float)", case)
        if bad:
            return bad
        if back != d:
            return FAIL("roundtrip|to_datetime.to_seconds", f"{d.isoformat()} -> {s!r} -> {back.isoformat()}; case={case}", classes=cls)
        back = S.to_datetime(t)
        bad = _check_dt_result(back, "to_datetime(timedelta)", case)
        if bad:
            return bad
        if back != d:
            return FAIL("roundtrip|to_datetime.to_timedelta", f"{d.isoformat()} -> {t!r} -> {back.isoformat()}; case={case}", classes=cls)
        if S.to_seconds(t) != s:
            return FAIL("consistent|to_seconds(dt) vs to_seconds(to_timedelta(dt))", f"{d.isoformat()}: {s!r} != {S.to_seconds(t)!r}; case={case}", classes=cls)
        out.append((k, d, s, t))
    out.sort(key=lambda r: r[0])
    (ka, da, sa, ta), (kb, db, sb, tb) = out
    if ka != kb:
        cls.append("pair:distinct")
        if kb - ka <= 2:
            cls.append("pair:within-2us")
        if case["a"]["off"] != case["b"]["off"]:
            cls.append("pair:different-tz")
    if not (sa <= sb and ta <= tb):
        return FAIL("order|datetime", f"{da.isoformat()} <= {db.isoformat()} but seconds {sa!r},{sb!r} / timedeltas {ta!r},{tb!r}; case={case}", classes=cls)
    if ka != kb and not (sa < sb and ta < tb):
        return FAIL("order-strict|datetime", f"distinct {da.isoformat()} < {db.isoformat()} collapse to {sa!r},{sb!r}; case={case}", classes=cls)
    return OK(nontrivial, cls)


# ---------------------------------------------------------------------------------------
# strategies

_BOUND_US = sorted(
    {s * k for s in (1, -1) for k in (0, 1, 2, 499999, 500000, 500001, 999999, 10**6, 10**6 + 1, 86400 * 10**6, 86400 * 10**6 - 1, 2**31 * 10**6, 2**31 * 10**6 + 1, MAXUS - 1, MAXUS)}
)
_us = st.one_of(
    st.integers(-MAXUS, MAXUS),
    st.integers(-5 * 10**6, 5 * 10**6),
    st.sampled_from(_BOUND_US),
    st.builds(lambda s, u: s * 10**6 + u, st.integers(-MAXS, MAXS - 1), st.sampled_from([0, 1, 499999, 500000, 500001, 999999])),
    st.builds(lambda e, d: max(-MAXUS, min(MAXUS, (1 << e) * 10**6 + d)), st.integers(0, 32), st.integers(-3, 3)),
)
_OFFS = [None, 0, 60, -60, 330, 345, -570, 765, 840, -720, 1, -1, 1439, -1439]
_off = st.one_of(st.sampled_from(_OFFS), st.integers(-1439, 1439))


def _clampf(x):
    return max(-float(MAXS), min(float(MAXS), x))


@st.composite
def _float_enc(draw):
    form = draw(st.sampled_from(["us", "us", "half", "ulp", "any", "int", "frac"]))
    if form == "us":
        return {"us": draw(_us)}
    if form == "int":
        return {"int": draw(st.one_of(st.integers(-MAXS, MAXS), st.integers(-100, 100)))}
    if form == "half":
        k = draw(_us)
        return {"hex": _clampf((2 * k + 1) / (2 * 10**6)).hex()}
    if form == "ulp":
        k = draw(_us)
        x = k / 10**6
        n = draw(st.sampled_from([-2, -1, 1, 2]))
        for _ in range(abs(n)):
            x = math.nextafter(x, math.inf if n > 0 else -math.inf)
        return {"hex": _clampf(x).hex()}
    if form == "frac":
        k = draw(_us)
        f = draw(st.sampled_from([1, 2, 3, 4, 5, 6, 7, 8, 9])) / 10
        return {"hex": _clampf((k + f) / 10**6).hex()}
    x = draw(st.floats(-float(MAXS), float(MAXS), allow_nan=False, allow_infinity=False))
    return {"hex": x.hex()}


def _near_float(draw, e):
    x, fr = _dec_float(e)
    x = float(x)
    how = draw(st.sampled_from(["same", "+us", "-us", "+ulp", "-ulp"]))
    if how == "same":
        return dict(e)
    if how in ("+us", "-us"):
        k = round(fr * 10**6) + (1 if how == "+us" else -1)
        return {"us": max(-MAXUS, min(MAXUS, k))}
    y = math.nextafter(x, math.inf if how == "+ulp" else -math.inf)
    return {"hex": _clampf(y).hex()}


@st.composite
def _conv_case(draw):
    kind = draw(st.sampled_from(["float", "float", "td", "dt", "dt"]))
    cls = draw(st.sampled_from(CLASSES))
    near = draw(st.integers(0, 2)) == 0
    if kind == "float":
        a = draw(_float_enc())
        b = _near_float(draw, a) if near else draw(_float_enc())
    elif kind == "td":
        a = {"us": draw(_us)}
        b = {"us": max(-MAXUS, min(MAXUS, a["us"] + draw(st.sampled_from([-1, 0, 1]))))} if near else {"us": draw(_us)}
    else:
        a = {"us": draw(_us), "off": draw(_off)}
        if near:
            b = {"us": max(-MAXUS, min(MAXUS, a["us"] + draw(st.sampled_from([-1, 0, 1])))), "off": draw(_off)}
        else:
            b = {"us": draw(_us), "off": draw(_off)}
    return {"kind": kind, "cls": cls, "a": a, "b": b}


# ---------------------------------------------------------------------------------------
# wide regime: the whole range a datetime can represent (years 1..9999), far beyond 2**32 s.
# Doubles no longer resolve microseconds there, so everything that passes through float seconds is judged with
# a stated tolerance; the datetime <-> timedelta conversions are integer arithmetic and stay exact.

WIDE_LO_S, WIDE_HI_S = -62135500000, 253402200000  # inside datetime.min/max with a day of margin for tz offsets


def _tol_us(seconds_value):
    """Stated tolerance for a value that went through float seconds: one microsecond plus one ulp of the seconds value."""
    return 1 + Fraction(math.ulp(float(seconds_value))) * 10**6


def _run_wide(case):
    S = _cls(case["cls"])
    kind = case["kind"]
    cls = [f"wide:{kind}"]
    rows = []
    nontrivial = False
    for key in ("a", "b"):
        e = case[key]
        if kind == "float":
            x, fr = _dec_float(e)
            k_exact = fr * 10**6
            if abs(fr) > MAXS:
                nontrivial = True
            d, t = S.to_datetime(x), S.to_timedelta(x)
            bad = _check_dt_result(d, "to_datetime(float)", case)
            if bad:
                return bad
            if not isinstance(t, timedelta):
                return FAIL("type|to_timedelta(float)", f"got {type(t).__name__} case={case}")
            du, tu = _us_of_dt(d), _us_of_td(t)
            for what, u in (("to_datetime(float)", du), ("to_timedelta(float)", tu)):
                if abs(u - k_exact) > 1:
                    return FAIL(f"wide:accuracy|{what}", f"x={x!r} is {float(k_exact)} us but -> {u} us (more than 1 us off); case={case}", classes=cls)
            for what, back in (("to_seconds.to_datetime", S.to_seconds(d)), ("to_seconds.to_timedelta", S.to_seconds(t))):
                if abs(Fraction(back) - fr) * 10**6 > _tol_us(x):
                    return FAIL(f"wide:roundtrip|{what}", f"x={x!r} -> {back!r}: off by more than 1 us + 1 ulp; case={case}", classes=cls)
            rows.append((fr, x, d, t))
        else:
            k = e["us"]
            if abs(k) > MAXUS:
                nontrivial = True
            v = _dec_td(e) if kind == "td" else _dec_dt(e)
            if kind == "td":
                if S.to_timedelta(v) is not v:
                    return FAIL("identity|to_timedelta", f"case={case}")
                other = S.to_datetime(v)
                bad = _check_dt_result(other, "to_datetime(timedelta)", case)
                if bad:
                    return bad
                if _us_of_dt(other) != k:
                    return FAIL("wide:exact|to_datetime(timedelta)", f"{v!r} -> {other.isoformat()}; case={case}", classes=cls)
                if S.to_timedelta(other) != v:
                    return FAIL("wide:roundtrip|to_timedelta.to_datetime", f"{v!r} -> {other.isoformat()} -> {S.to_timedelta(other)!r}; case={case}", classes=cls)
            else:
                if S.to_datetime(v) is not v:
                    return FAIL("identity|to_datetime", f"case={case}")
                other = S.to_timedelta(v)
                if not isinstance(other, timedelta) or _us_of_td(other) != k:
                    return FAIL("wide:exact|to_timedelta(datetime)", f"{v.isoformat()} is {k} us after the epoch -> {other!r}; case={case}", classes=cls)
                back = S.to_datetime(other)
                bad = _check_dt_result(back, "to_datetime(timedelta)", case)
                if bad:
                    return bad
                if back != v:
                    return FAIL("wide:roundtrip|to_datetime.to_timedelta", f"{v.isoformat()} -> {other!r} -> {back.isoformat()}; case={case}", classes=cls)
            sec = S.to_seconds(v)
            if isinstance(sec, bool) or not isinstance(sec, (int, float)):
                return FAIL(f"type|to_seconds({kind})", f"got {type(sec).__name__}; case={case}")
            tol = _tol_us(sec)
            if abs(Fraction(sec) * 10**6 - k) > tol:
                return FAIL(f"wide:accuracy|to_seconds({kind})", f"{k} us -> {sec!r} s: off by more than 1 us + 1 ulp; case={case}", classes=cls)
            for what, back_us in (("to_datetime", _us_of_dt(S.to_datetime(sec))), ("to_timedelta", _us_of_td(S.to_timedelta(sec)))):
                if abs(back_us - k) > 2 * tol:
                    return FAIL(f"wide:roundtrip|{what}.to_seconds({kind})", f"{k} us -> {sec!r} s -> {back_us} us: off by more than 2 us + 2 ulp; case={case}", classes=cls)
            rows.append((k, v, sec, other))
    rows.sort(key=lambda r: r[0])
    (ka, _, pa, qa), (kb, _, pb, qb) = rows
    if ka != kb:
        cls.append("pair:distinct")
    if not (pa <= pb and qa <= qb):
        return FAIL(f"wide:order|{kind}", f"a<=b but converted values are out of order: {pa!r},{pb!r} / {qa!r},{qb!r}; case={case}", classes=cls)
    if kind != "float" and ka != kb and not (qa < qb):
        return FAIL(f"wide:order-strict|{kind}", f"distinct values collapse under the exact datetime<->timedelta conversion; case={case}", classes=cls)
    if nontrivial:
        cls.append("wide:beyond-2**32s")
    return OK(nontrivial, cls)


_wide_us = st.one_of(
    st.integers(WIDE_LO_S * 10**6, WIDE_HI_S * 10**6),
    st.builds(lambda s, u: s * 10**6 + u, st.integers(WIDE_LO_S, WIDE_HI_S - 1), st.sampled_from([0, 1, 499999, 500000, 999999])),
    st.builds(lambda e, d, sg: max(WIDE_LO_S * 10**6, min(WIDE_HI_S * 10**6, sg * (1 << e) * 10**6 + d)), st.integers(31, 37), st.integers(-3, 3), st.sampled_from([1, -1])),
    st.sampled_from([WIDE_LO_S * 10**6, WIDE_HI_S * 10**6, MAXUS + 1, -MAXUS - 1, 2 * MAXUS + 1]),
)


@st.composite
def _wide_case(draw):
    kind = draw(st.sampled_from(["float", "td", "dt", "dt"]))
    cls = draw(st.sampled_from(CLASSES))
    near = draw(st.integers(0, 2)) == 0

    def one():
        k = draw(_wide_us)
        if kind == "float":
            if draw(st.booleans()):
                return {"us": k}
            x = draw(st.floats(float(WIDE_LO_S), float(WIDE_HI_S), allow_nan=False))
            return {"hex": x.hex()}
        if kind == "td":
            return {"us": k}
        return {"us": k, "off": draw(_off)}

    a = one()
    if near and "us" in a:
        b = dict(a)
        b["us"] = max(WIDE_LO_S * 10**6, min(WIDE_HI_S * 10**6, a["us"] + draw(st.sampled_from([-1, 0, 1, 1000000]))))
        if kind == "dt":
            b["off"] = draw(_off)
    else:
        b = one()
    return {"kind": kind, "cls": cls, "a": a, "b": b}


# ---------------------------------------------------------------------------------------
# scheduler.now


class _Stub:
    """Inert stand-in for a loop/toolkit module: the schedulers only store it."""

    class Timer:  # WxScheduler subclasses wx.Timer at construction
        pass


def _handler(e):
    return True


def _recipes():
    import reactivex.scheduler as S

    imm = S.ImmediateScheduler
    return {
        "ImmediateScheduler": lambda c: c(),
        "CurrentThreadScheduler": lambda c: c(),
        "CurrentThreadSchedulerSingleton": lambda c: c(),
        "TrampolineScheduler": lambda c: c(),
        "TimeoutScheduler": lambda c: c(),
        "NewThreadScheduler": lambda c: c(),
        "EventLoopScheduler": lambda c: c(),  # its thread is only started by the first schedule()
        "ThreadPoolScheduler": lambda c: c(1),  # executor threads are only started by submit()
        "CatchScheduler": lambda c: c(imm(), _handler),
        "AsyncIOScheduler": lambda c: c(_Stub()),
        "AsyncIOThreadSafeScheduler": lambda c: c(_Stub()),
        "EventletScheduler": lambda c: c(_Stub()),
        "GEventScheduler": lambda c: c(_Stub()),
        "IOLoopScheduler": lambda c: c(_Stub()),
        "TwistedScheduler": lambda c: c(_Stub()),
        "GtkScheduler": lambda c: c(_Stub()),
        "PyGameScheduler": lambda c: c(_Stub()),
        "QtScheduler": lambda c: c(_Stub()),
        "TkinterScheduler": lambda c: c(_Stub()),
        "WxScheduler": lambda c: c(_Stub()),
    }


_VIRTUAL = ("VirtualTimeScheduler", "TestScheduler", "HistoricalScheduler")


def _scheduler_classes():
    import reactivex.scheduler as S
    import reactivex.testing  # noqa: F401  (TestScheduler)
    from reactivex.scheduler.scheduler import Scheduler

    for m in pkgutil.walk_packages(S.__path__, S.__name__ + "."):
        try:
            importlib.import_module(m.name)
        except Exception:  # noqa  optional third-party import missing: class simply not found
            pass

    def subs(c):
        for s in c.__subclasses__():
            yield s
            yield from subs(s)

    out = {}
    for c in subs(Scheduler):
        if c.__module__.startswith("reactivex."):
            out[c.__name__] = c
    return dict(sorted(out.items()))


PROCESS_ZONES = [None, "XXX-5:30", "YYY+8"]  # host zone as is; POSIX TZ strings for UTC+05:30 and UTC-08:00


def _now_cases(tier):
    for tz in PROCESS_ZONES:
        for c in _now_cases_one_zone():
            c["tz"] = tz
            yield c


def _now_cases_one_zone():
    classes = _scheduler_classes()
    rec = _recipes()
    clocks_f = [{"us": 0}, {"us": 1500000}, {"us": -2500001}, {"hex": (0.1).hex()}, {"int": 7}, {"us": MAXUS}, {"hex": (1234.5678915).hex()}]
    clocks_d = [None, {"us": 0, "off": None}, {"us": 1234567, "off": 0}, {"us": -MAXUS, "off": None}, {"us": MAXUS, "off": 0}]
    for name, c in classes.items():
        if inspect.isabstract(c):
            yield {"cls": name, "how": "abstract", "clock": None, "adv": None}
        elif name in _VIRTUAL:
            for ck in clocks_d if name == "HistoricalScheduler" else clocks_f:
                for adv in (None, 0, 2500000):
                    yield {"cls": name, "how": "ctor", "clock": ck, "adv": adv}
        elif name in rec:
            yield {"cls": name, "how": "ctor", "clock": None, "adv": None}
            if hasattr(c, "singleton"):
                yield {"cls": name, "how": "singleton", "clock": None, "adv": None}
            if name != "CatchScheduler":
                yield {"cls": name, "how": "catch-wrapped", "clock": None, "adv": None}
        else:
            yield {"cls": name, "how": "no-recipe", "clock": None, "adv": None}


def _run_now(case):
    """Reads `now` with the process-local time zone switched to case["tz"] (restored afterwards): a now built from
    local time is then visibly not UTC even when the host itself runs on UTC."""
    tz = case.get("tz")
    if tz is None:
        return _run_now_in_zone(case)
    import time

    old = os.environ.get("TZ")
    os.environ["TZ"] = tz
    time.tzset()
    try:
        if datetime.now().astimezone().utcoffset() == timedelta(0):
            raise HarnessError(f"process zone {tz} did not take effect")
        return _run_now_in_zone(case)
    finally:
        if old is None:
            os.environ.pop("TZ", None)
        else:
            os.environ["TZ"] = old
        time.tzset()


def _run_now_in_zone(case):
    classes = _scheduler_classes()
    name, how = case["cls"], case["how"]
    c = classes.get(name)
    if c is None:
        return OK(False, [f"now:class-missing:{name}"])
    if how == "abstract":
        return OK(False, [f"now:abstract:{name}"])
    if how == "no-recipe":
        # a scheduler class this check does not know how to construct without side effects: visible in evidence
        return OK(False, [f"now:NOT-CHECKED-no-recipe:{name}"])
    import reactivex.scheduler as S

    ck = case["clock"]
    if name in _VIRTUAL:
        if name == "HistoricalScheduler":
            s = c() if ck is None else c(_dec_dt(ck))
        else:
            s = c(_dec_float(ck)[0])
    elif how == "singleton":
        s = c.singleton()
    elif how == "catch-wrapped":
        s = S.CatchScheduler(_recipes()[name](c), _handler)
    else:
        s = _recipes()[name](c)
    try:
        reads = [("now", s.now)]
        if case["adv"] is not None:
            s.advance_by(timedelta(microseconds=case["adv"]))
            reads.append(("now after advance_by", s.now))
            s.sleep(timedelta(microseconds=case["adv"]))
            reads.append(("now after sleep", s.now))
    finally:
        ex = getattr(getattr(s, "_scheduler", s), "executor", None)
        if ex is not None:
            ex.shutdown(wait=False)
    for what, now in reads:
        if not isinstance(now, datetime):
            return FAIL(f"now-type|{name}", f"{name}.{what} is {type(now).__name__}; case={case}")
        if now.tzinfo is None or now.utcoffset() is None:
            return FAIL(f"now-naive|{name}", f"{name}.{what} = {now!r} is not timezone-aware; case={case}")
        if now.utcoffset() != timedelta(0):
            return FAIL(f"now-not-utc|{name}", f"{name}.{what} = {now!r} has utcoffset {now.utcoffset()}; case={case}")
    return OK(True, [f"now:{how}", "now:virtual" if name in _VIRTUAL else "now:wall-clock", f"now:process-zone:{case.get('tz') or 'host'}"])


# ---------------------------------------------------------------------------------------
# atheris campaign (thorough only)


def _atheris_cases(tier):
    if tier != "thorough":
        return []
    from vlib import fuzz

    runs = fuzz.scaled(600000)
    return [{"target": "conv", "corpus": "empty", "runs": runs, "seed": fuzz.env_seed()}]


def _run_atheris(case):
    from vlib import fuzz

    return fuzz.run_campaign(PROPERTY_ID, case)


def checks(tier):
    return [
        Check("conv", _run_conv, strategy=_conv_case(), examples={"quick": 20000, "thorough": 16 * 150000}, shards={"quick": 4, "thorough": 16}),
        Check("wide", _run_wide, strategy=_wide_case(), examples={"quick": 6000, "thorough": 16 * 40000}, shards={"quick": 4, "thorough": 16}),
        Check("now", _run_now, cases=_now_cases, shards={"quick": 1, "thorough": 1}, exhaustive=True),
        Check("atheris", _run_atheris, cases=_atheris_cases, shards={"quick": 1, "thorough": 16}),
    ]
