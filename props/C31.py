"""C31 An EventLoopScheduler runs actions serially on one thread, in order (Engine DET: controlled threads + fake clock).

Case = {"eie": exit_if_empty, "threads": [[cmd...], ...] (1-2 scheduling threads), "sched": see vlib/detrun.py}
cmd  = ["now", dur, then] | ["rel", ms, "f"|"td", dur, then] | ["abs", ms, dur, then]      schedule / _relative / _absolute
     | ["absz", ms, utc_offset_hours, dur, then]   schedule_absolute with the same instant EPOCH+ms expressed in another time zone
     | ["per", ms]   schedule_periodic(ms, action) whose returned disposable is disposed at once (only acceptance is of interest)
     | ["cancel", ref] | ["dispose"] | ["sleep", ms] | ["await", n]
`dur` = fake milliseconds the action spends (cooperative wait on the loop thread), `then` = commands the action issues from
inside (one nesting level), `abs ms` is EPOCH+ms (may lie in the past), `cancel ref` disposes the disposable returned by the
(ref mod n)-th schedule call that has returned so far (any thread), no-op while there is none; `await n` blocks the
scheduling thread until n actions have started (at most 20 fake ms) - it makes "schedule while the loop is finishing its
cycle" reachable with a single preemption.
"""
from __future__ import annotations

from datetime import timedelta, timezone

from hypothesis import strategies as st

import reactivex.scheduler.eventloopscheduler as _els
from reactivex.internal.exceptions import DisposedException
from reactivex.scheduler import EventLoopScheduler
from reactivex.scheduler.scheduleditem import ScheduledItem

from vlib import det, detrun
from vlib.core import Check, HarnessError

PROPERTY_ID = "C31"
LEVEL = "exploration"
TIMEOUT = {"quick": 600, "thorough": 3 * 3600}
RULE = (
    "One EventLoopScheduler (exit_if_empty False/True, built with the patched thread factory so its loop thread is a "
    "controlled logical thread) is driven by 1-3 scheduling threads that run generated command lists: schedule / "
    "schedule_relative (float seconds or timedelta; negative, zero and positive delays) / schedule_absolute (past, present, "
    "future; UTC or the same instant in a zone with another UTC offset) / schedule_periodic (disposed again at once; only its "
    "acceptance is judged, like any schedule call, by the dispose clause) with actions that take 0-6 fake ms and may themselves schedule / cancel / dispose, cancel(i) of a previously "
    "returned disposable (also across threads), dispose(), sleep(ms) on the fake clock, await(n) = wait until n actions have "
    "started. Engine DET (vlib/det.py) serialises all "
    "threads with yield points at every source line of reactivex and every primitive operation; time only moves when every "
    "thread is blocked. enum: 30 hand-picked programs + a 12-program busy-loop family (n immediates and a timed item all pending at one collect) + all shape-(1,1)/(2,1)/(2,)/(3,)/(1,1,1) programs over the alphabet {schedule, "
    "schedule_relative(2ms), cancel(0), dispose}, each with exit_if_empty off and on, under EVERY schedule with <=1 preemption "
    "(quick); thorough adds EVERY schedule with <=2 preemptions for the hand-picked and the shape-(1,)/(1,1)/(2,) programs; gen: drawn programs (<=2 threads x <=4 commands or 3 threads x <=2) with <=3 "
    "drawn preemption points. Oracle over the sequentially consistent event log (call/return of every command, start/end of "
    "every action with thread id and fake clock): (serial) no action starts while another is running, every action runs on a "
    "library-started thread, never on a caller, at most once, and without exit_if_empty all on the one loop thread and never "
    "more than one loop thread is created; (immediate order) two immediately-due actions (schedule(), delay <= 0, absolute "
    "time <= now) where A's schedule call returned before B's began start in that order; (timed) an action never starts "
    "before its due time and two timed actions with due(A) < due(B) start in that order; (mixed) an immediately-due action "
    "whose schedule call returned at an instant strictly earlier than the due time of a timed action starts before that timed "
    "action (due-time order across the two kinds: an immediate action is due no later than its submission instant); (cancel) an action whose disposable's "
    "dispose() returned (with no other dispose() of it still in flight) before the action started never starts; the only "
    "excusal is the item's OWN narrow window: if the loop's final is_cancelled() look at this item (observed through a logging "
    "ScheduledItem subclass) is directly followed by its start, with no other item examined, started or finished in between, "
    "the reference point is that look instead of the start - a cancellation completing inside that window is counted (class) "
    "but tolerated; a cancellation that returned while a different action was executing or before the look must prevent the run; (dispose) a schedule* call begun after a dispose() returned raises "
    "DisposedException and its action never runs, and DisposedException is never raised before any dispose() began; "
    "(liveness) if no dispose() was issued, every action whose schedule call returned and that nobody tried to cancel has run "
    "to its end by quiescence - in particular after an exit_if_empty thread exited a later schedule starts a new thread and "
    "the action still runs; (idle exit) with exit_if_empty no loop thread is left waiting at quiescence; no deadlock, no "
    "exception escaping any thread. Actions queued before dispose() are not judged (the statement is silent; the code "
    "abandons the queue but finishes the batch it already collected). "
    "Non-trivial: a scheduling thread's schedule* call was overlapped by the loop thread (the loop thread executed steps of "
    "its collect/execute/wait cycle between the call's first and last step) in the run (gen) / in at least one explored "
    "schedule (enum). Distinct = distinct case JSON."
)
ASSUMPTIONS = [
    "C-level atomicity of CPython (GIL build): a source line is the unit of interleaving; locks/conditions/threads are cooperative replacements (vlib/det.py)",
    "the fake clock only advances when every controlled thread is blocked, so a schedule call sees one instant from entry to return",
    "bounds: <=3 scheduling threads, <=4 commands each (<=2 with three threads), one level of nested commands, <=1/<=2 preemptions exhaustive, <=3 drawn",
    "actions do not raise (an escaping action exception kills the loop thread; that is outside this property)",
    "'cancelled before it starts': a cancel landing between the item's own final is_cancelled() look and its invoke (nothing else examined/run in between) is excused (unlocked check-then-invoke, documented as best effort); every other cancel that returned before the start must prevent it",
    "ties (equal due times of timed actions, an immediate action submitted at or after the instant a timed action is due, calls that overlap each other or a dispose) are not ordered by the oracle",
]

_SCHED_OPS = ("now", "rel", "abs", "absz")


class _ExaminedItem(ScheduledItem):
    """ScheduledItem that logs when the loop examines its cancellation flag (observation only).  The loop checks
    `is_cancelled()` and then invokes without holding a lock, so "cancelled before it starts" is judged against the
    moment of that examination WHEN it is directly followed by the item's start (nothing else examined / run in between):
    a cancellation completing inside that check->invoke window (4 source lines, inherent in
    the check-then-act design and documented as best effort) is not counted as a violation."""

    def is_cancelled(self):
        r = super().is_cancelled()
        det.log(("exam", getattr(self.action, "cid", None), bool(r)))
        return r


def _specs(case):
    out = {}

    def walk(cid, cmd):
        if cmd[0] == "per":
            out[cid] = cmd
        if cmd[0] in _SCHED_OPS:
            out[cid] = cmd
            for j, c in enumerate(cmd[-1]):
                walk(f"{cid}n{j}", c)

    for t, cmds in enumerate(case["threads"]):
        for i, c in enumerate(cmds):
            walk(f"t{t}c{i}", c)
    return out


def _build(case):
    s = EventLoopScheduler(exit_if_empty=bool(case["eie"]))
    bad = det.audit_object(s)
    if bad:
        raise HarnessError(f"scheduler carries real locks: {bad}")
    reg = []
    ctx = {"s": s, "reg": reg, "specs": _specs(case)}
    log, us = det.log, detrun.now_us
    started, waiters = [0], []

    def make_action(cid, dur, then):
        def action(sc, st_):
            log(("start", cid, us()))
            started[0] += 1
            for n, ev in waiters:
                if n <= started[0] and not ev.is_set():
                    ev.set()
            det.yield_point("action")
            if dur:
                detrun.sleep(dur / 1000.0)
            for j, c in enumerate(then):
                exec_cmd(f"{cid}n{j}", c)
            log(("end", cid, us()))

        action.cid = cid
        return action

    def exec_cmd(cid, cmd):
        op = cmd[0]
        if op in _SCHED_OPS:
            action = make_action(cid, cmd[-2], cmd[-1])
            log(("call", cid, us()))
            try:
                if op == "now":
                    d = s.schedule(action)
                elif op == "rel":
                    d = s.schedule_relative(cmd[1] / 1000.0 if cmd[2] == "f" else timedelta(milliseconds=cmd[1]), action)
                elif op == "abs":
                    d = s.schedule_absolute(det.EPOCH + timedelta(milliseconds=cmd[1]), action)
                else:
                    zone = timezone(timedelta(hours=cmd[2]))
                    d = s.schedule_absolute((det.EPOCH + timedelta(milliseconds=cmd[1])).astimezone(zone), action)
            except DisposedException:
                log(("ret", cid, "disposed", us()))
                return
            reg.append((cid, d))
            log(("ret", cid, "ok", us()))
        elif op == "per":

            def paction(state):
                log(("start", cid, us()))
                log(("end", cid, us()))
                return state

            paction.cid = cid
            log(("call", cid, us()))
            try:
                d = s.schedule_periodic(cmd[1] / 1000.0, paction)
            except DisposedException:
                log(("ret", cid, "disposed", us()))
                return
            log(("ret", cid, "ok", us()))
            log(("ccall", cid, cid))
            d.dispose()
            log(("cret", cid, cid))
        elif op == "cancel":
            if reg:
                target, d = reg[cmd[1] % len(reg)]
                log(("ccall", target, cid))
                d.dispose()
                log(("cret", target, cid))
        elif op == "dispose":
            log(("dcall", cid))
            s.dispose()
            log(("dret", cid))
        elif op == "sleep":
            detrun.sleep(cmd[1] / 1000.0)
        elif op == "await":
            if started[0] < cmd[1]:
                ev = det.CEvent()
                waiters.append((cmd[1], ev))
                ev.wait(0.02)
        else:
            raise HarnessError(f"bad command {cmd}")

    def make_thread(t, cmds):
        def body():
            for i, c in enumerate(cmds):
                exec_cmd(f"t{t}c{i}", c)

        return body

    return [make_thread(t, cmds) for t, cmds in enumerate(case["threads"])], ctx


def _judge(case, ctx, res):
    T = len(case["threads"])
    eie = bool(case["eie"])
    cl = set()
    if res.deadlock:
        return ("deadlock", repr(res.deadlock)), False, cl
    if res.exceptions:
        tid, e = sorted(res.exceptions.items())[0]
        return (f"escaped:{type(e).__name__}", f"thread {tid} ({res.names.get(tid)}): {e!r}"), False, cl
    specs = ctx["specs"]
    call, ret, start, end = {}, {}, {}, {}
    cret, ccalled, exam, commit, inflight = {}, set(), {}, {}, {}
    dcalls, drets = [], []
    running = None
    marker = (None, None, None)
    for k, (step, tid, pl) in enumerate(res.events):
        kind = pl[0]
        if kind == "call":
            call[pl[1]] = (k, step, tid, pl[2])
        elif kind == "ret":
            ret[pl[1]] = (k, step, tid, pl[3], pl[2])
        elif kind == "start":
            cid = pl[1]
            if cid in start:
                return ("ran-twice", f"action {cid} started twice"), True, cl
            if running is not None:
                return ("overlap", f"action {cid} (thread {tid}) started while {running} (thread {start[running][1]}) was still running"), True, cl
            if tid is None or tid < T:
                return ("ran-on-caller", f"action {cid} ran on scheduling thread {tid}"), True, cl
            running = cid
            start[cid] = (k, tid, pl[2])
            # the narrow window of THIS item: its own final is_cancelled() look directly followed by its invoke, with no other
            # item examined / started / finished in between; otherwise the start itself is the reference point
            commit[cid] = marker[0] if marker[1:] == ("exam", cid) else k
            marker = (k, "start", cid)
        elif kind == "end":
            running = None
            end[pl[1]] = (k, tid, pl[2])
            marker = (k, "end", pl[1])
        elif kind == "exam":
            exam[pl[1]] = k
            marker = (k, "exam", pl[1])
        elif kind == "ccall":
            ccalled.add(pl[1])
            inflight[pl[1]] = inflight.get(pl[1], 0) + 1
        elif kind == "cret":
            # the cancellation is complete at the first return with no other dispose() of the same disposable in flight
            # (Disposable.dispose is at-most-once: a second concurrent call returns while the first is still cancelling)
            inflight[pl[1]] -= 1
            if inflight[pl[1]] == 0:
                cret.setdefault(pl[1], k)
        elif kind == "dcall":
            dcalls.append(k)
        elif kind == "dret":
            drets.append(k)
    loop_tids = sorted({v[1] for v in start.values()})
    if not eie:
        if len(loop_tids) > 1:
            return ("not-one-thread", f"actions ran on threads {loop_tids} without exit_if_empty"), True, cl
        if res.nthreads - T > 1:
            return ("second-loop-thread", f"{res.nthreads - T} loop threads were started without exit_if_empty"), True, cl
    elif len(loop_tids) > 1:
        cl.add("restart")
    # ---- due times: classification and bounds (microseconds)
    imm, timed, due_lo, due_hi = [], [], {}, {}
    for cid, (k, _, _, t_call) in call.items():
        r = ret.get(cid)
        if r is None or r[4] != "ok":
            continue
        cmd = specs[cid]
        t_ret = r[3]
        if cmd[0] == "per":
            cl.add("periodic-accepted")
            continue
        if cmd[0] == "absz":
            cl.add("abs-nonutc")
        if cmd[0] == "now" or (cmd[0] == "rel" and cmd[1] <= 0):
            imm.append(cid)
            continue
        if cmd[0] == "rel":
            lo, hi = t_call + cmd[1] * 1000, t_ret + cmd[1] * 1000
        else:
            lo = hi = cmd[1] * 1000
        due_lo[cid], due_hi[cid] = lo, hi
        if hi <= t_call:
            imm.append(cid)
        elif lo > t_ret:
            timed.append(cid)
    for cid, (k, tid, t) in start.items():
        if cid in due_lo and t < due_lo[cid]:
            return ("early", f"action {cid} {specs[cid][:2]} started at {t}us, due not before {due_lo[cid]}us"), True, cl
        if cid in due_lo and cid in timed and t > due_hi[cid]:
            cl.add("late-timed")
    ran_imm = [c for c in imm if c in start]
    for a in ran_imm:
        for b in ran_imm:
            if a != b and ret[a][0] < call[b][0]:
                cl.add("imm-pair")
                if start[a][0] > start[b][0]:
                    return ("immediate-order", f"{a} was submitted (returned) before {b} was, but {b} ran first"), True, cl
    ran_timed = [c for c in timed if c in start]
    for a in ran_timed:
        for b in ran_timed:
            if due_hi[a] < due_lo[b]:
                cl.add("timed-pair")
                if start[a][0] > start[b][0]:
                    return ("due-order", f"{a} due {due_hi[a]}us ran after {b} due {due_lo[b]}us"), True, cl
    # mixed: an immediately-due action whose schedule call returned at an instant strictly earlier than the due time of a
    # timed action is earlier in due-time order (its due time is at most its submission instant) and must not be overtaken
    for a in ran_imm:
        for b in ran_timed:
            if ret[a][3] < due_lo[b]:
                cl.add("mixed-pair")
                if start[b][2] > due_hi[b] and start[a][2] >= due_lo[b]:
                    cl.add("mixed-pair-both-pending-at-collect")
                if start[a][0] > start[b][0]:
                    return ("due-order", f"immediately-due {a} (submitted by {ret[a][3]}us) ran after timed {b} due {due_lo[b]}us"), True, cl
    for cid, k in cret.items():
        if cid in start:
            if commit[cid] > k:
                return ("cancelled-ran", f"action {cid} started although the dispose() of its disposable had returned before " + ("the loop's final look at it" if commit[cid] != start[cid][0] else "it started (outside the item's own check->invoke window)")), True, cl
            cl.add("cancel-in-check-invoke-window" if start[cid][0] > k else "cancel-late")
        else:
            cl.add("cancel-hit")
    first_dret = min(drets) if drets else None
    first_dcall = min(dcalls) if dcalls else None
    for cid, (k, _, _, _) in call.items():
        r = ret.get(cid)
        if r is None:
            continue
        if first_dret is not None and k > first_dret:
            cl.add("schedule-after-dispose")
            if specs[cid][0] == "per":
                cl.add("periodic-after-dispose")
            if r[4] != "disposed":
                return ("schedule-after-dispose", f"{cid}: {'schedule_periodic' if specs[cid][0] == 'per' else 'schedule'} call begun after dispose() returned did not raise DisposedException" + (" and its action ran" if cid in start else "")), True, cl
            if cid in start:
                return ("ran-after-dispose", f"{cid} ran"), True, cl
        if r[4] == "disposed" and (first_dcall is None or first_dcall > r[0]):
            return ("spurious-disposed", f"{cid}: DisposedException although no dispose() had begun"), True, cl
        if r[4] == "disposed" and cid in start:
            return ("rejected-ran", f"{cid}: schedule call raised DisposedException but the action ran"), True, cl
        if first_dcall is not None and first_dret is not None and k < first_dret and r[0] > first_dcall:
            cl.add("call-overlaps-dispose")
    if first_dcall is None:
        for cid, r in ret.items():
            if r[4] == "ok" and cid not in ccalled and (cid not in start or cid not in end):
                why = "after an exit_if_empty thread exit" if (eie and start) else ""
                return ("never-ran", f"action {cid} {specs[cid][:2]} was accepted, never cancelled, no dispose was issued, but it did not run by quiescence {why}"), True, cl
    else:
        cl.add("disposed")
    if eie and res.leftover:
        return ("idle-thread-not-exited", f"exit_if_empty: loop thread(s) {res.leftover} still waiting at quiescence"), True, cl
    # ---- non-trivial: a program thread's schedule call was overlapped by loop-thread steps
    nt = False
    own = res.owners
    for cid, (k, step, tid, _) in call.items():
        r = ret.get(cid)
        if r is None or tid is None or tid >= T:
            if tid is not None and tid >= T:
                cl.add("nested-schedule")
            continue
        if any(o >= T for o in own[step:r[1] - 1]):
            nt = True
    if nt:
        cl.add("overlap")
    cl.add(f"T{T}")
    cl.add("eie" if eie else "keep")
    return None, nt, cl


def _run(case):
    orig = _els.ScheduledItem
    _els.ScheduledItem = _ExaminedItem
    try:
        return detrun.drive(case, lambda: _build(case), lambda ctx, res: _judge(case, ctx, res), culprit="EventLoopScheduler")
    finally:
        _els.ScheduledItem = orig


# ------------------------------------------------------------------------------------------------ programs
def _now(dur=0, then=()):
    return ["now", dur, [list(c) for c in then]]


def _rel(ms, dur=0, form="f", then=()):
    return ["rel", ms, form, dur, [list(c) for c in then]]


def _abs(ms, dur=0, then=()):
    return ["abs", ms, dur, [list(c) for c in then]]


_HAND = [
    [[_now(), _now(), _now()]],
    [[_now(), _abs(-1), _rel(0)], [_now()]],
    [[_now(), ["cancel", 0]], [_now()]],
    [[_now(), ["cancel", 1]], [_now(), ["cancel", 0]]],
    [[_rel(3), _rel(1), _rel(2)]],
    [[_rel(3), ["cancel", 0]], [_rel(1)]],
    [[_now(4)], [["sleep", 1], _rel(2), _rel(1, form="td")]],
    [[_now(5), _rel(3), _rel(2), _rel(1)]],
    [[_now(), ["dispose"], _now()], [_now()]],
    [[_now()], [["dispose"], _now()]],
    [[_rel(2), ["dispose"]], [["sleep", 2], _now()]],
    [[_now(), ["sleep", 5], _now()]],
    [[_now(), ["sleep", 3], _rel(2)], [["sleep", 3], _now()]],
    [[_now(0, [_now()]), _now()]],
    [[_now(0, [_rel(1), ["cancel", 0]])], [_now()]],
    [[_now(1, [["dispose"]]), _now()], [_rel(1)]],
    [[_rel(2, 3), _abs(3), _abs(1)], [["sleep", 4], _now()]],
    [[_abs(2), _abs(2), ["cancel", 1]], [["sleep", 2], ["cancel", 0]]],
    [[_now(2, [["cancel", 2]]), _now(), _now()]],  # one batch a,b,c: a's action cancels sibling c
    [[_now(3), _now(), _now()], [["await", 1], ["cancel", 1]]],  # T1 cancels b while a is running
    [[_rel(1, 2), _rel(1), _rel(1, 0, "f", [["cancel", 0]])], [["await", 1], ["cancel", 2]]],
    [[_now(), ["dispose"], ["per", 2]], [["per", 1]]],
    [[["per", 2], _now(0, [["dispose"], ["per", 1]])]],
    [[["absz", 3, -5, 0, []], ["absz", 1, 4, 0, []], _abs(2)], [["sleep", 1], ["absz", 0, -7, 0, []], _now()]],
    [[_now(5), _rel(3)], [["sleep", 1], _now(), ["sleep", 1], _now()]],  # loop busy: two immediates, then a timed item, all pending at one collect
    [[_now()], [["await", 1], _now()]],
    [[_now(), ["await", 1], _now(), ["await", 2], _rel(1)]],
    [[_now(), _now()], [["await", 2], _now(), ["cancel", 2]]],
    [[_rel(1)], [["await", 1], _now(), ["dispose"]]],
    [[_now(0, [_now()])], [["await", 2], _rel(0)]],
]
_ALPHA = [_now(), _rel(2), ["cancel", 0], ["dispose"]]


def _programs(alpha, shape):
    import itertools

    per = [[list(p) for p in itertools.product(alpha, repeat=n)] for n in shape]
    for combo in itertools.product(*per):
        prog = [list(t) for t in combo]
        if not any(c[0] in _SCHED_OPS for t in prog for c in t):
            continue
        yield prog


def _busy_family():
    """The loop is busy for `busy` ms while n immediately-due actions (schedule() / absolute time in the past) are submitted at
    1 ms steps and a timed action falls due before the loop is free again: all of them are pending at one collect pass."""
    for busy, due, n, past in ((5, 3, 2, False), (6, 4, 3, False), (5, 3, 2, True), (6, 2, 3, False)):
        t1 = []
        for i in range(n):
            t1 += [["sleep", 1], (_abs(0) if past and i == 1 else _now())]
        yield [[_now(busy), _rel(due)], t1]
        yield [[_now(busy)], [_rel(due)] + t1]
        yield [[_now(busy), _abs(due), _abs(due + 1)], t1]


def _enum(tier):
    if tier == "quick":
        K = 1
        progs = list(_HAND) + list(_busy_family())
        for shape in ((1, 1), (2,), (3,), (2, 1), (1, 1, 1)):
            progs += list(_programs(_ALPHA, shape))
    else:
        K = 2
        progs = list(_HAND) + list(_busy_family())[:3]
        for shape in ((1,), (1, 1), (2,)):
            progs += list(_programs(_ALPHA, shape))
    for prog in progs:
        for eie in (False, True):
            yield {"eie": eie, "threads": prog, "sched": {"mode": "all", "K": K}}
    if tier != "quick":  # the quick set again with K=1 (the thorough tier is a superset of quick)
        yield from _enum("quick")


_dur = st.sampled_from([0, 0, 0, 0, 1, 3, 6])
_rel_ms = st.sampled_from([-2, 0, 1, 1, 2, 3, 5, 8])
_abs_ms = st.sampled_from([-3, 0, 1, 2, 2, 4, 5, 7, 10])


def _sched_cmd(then):
    return st.one_of(
        st.tuples(st.just("now"), _dur, then),
        st.tuples(st.just("now"), _dur, then),
        st.tuples(st.just("rel"), _rel_ms, st.sampled_from(["f", "td"]), _dur, then),
        st.tuples(st.just("rel"), _rel_ms, st.sampled_from(["f", "td"]), _dur, then),
        st.tuples(st.just("abs"), _abs_ms, _dur, then),
        st.tuples(st.just("absz"), _abs_ms, st.sampled_from([-7, -5, 1, 4]), _dur, then),
    ).map(list)


_other = st.one_of(
    st.tuples(st.just("cancel"), st.integers(0, 5)),
    st.tuples(st.just("cancel"), st.integers(0, 5)),
    st.tuples(st.just("dispose")),
    st.tuples(st.just("sleep"), st.sampled_from([1, 2, 3, 5, 9])),
    st.tuples(st.just("sleep"), st.sampled_from([1, 2, 3, 5, 9])),
    st.tuples(st.just("await"), st.integers(1, 3)),
    st.tuples(st.just("await"), st.integers(1, 3)),
    st.tuples(st.just("per"), st.sampled_from([1, 3])),
).map(list)
_nested = st.lists(st.one_of(_sched_cmd(st.just([])), _sched_cmd(st.just([])), st.tuples(st.just("cancel"), st.integers(0, 5)).map(list), st.just(["dispose"]), st.just(["per", 2])), max_size=2)
_then = st.one_of(st.just([]), st.just([]), st.just([]), _nested)
_cmd = st.one_of(_sched_cmd(_then), _sched_cmd(_then), _other)
_gen = st.fixed_dictionaries(
    {
        "eie": st.booleans(),
        "threads": st.one_of(
            st.lists(st.lists(_cmd, min_size=1, max_size=4), min_size=1, max_size=2),
            st.lists(st.lists(_cmd, min_size=1, max_size=4), min_size=1, max_size=2),
            st.lists(st.lists(_cmd, min_size=1, max_size=2), min_size=3, max_size=3),
        ),
        "sched": detrun.sched_strategy(3),
    }
)


def checks(tier):
    return [
        Check("enum", _run, cases=_enum, shards={"quick": 8, "thorough": 16}, exhaustive=True),
        Check("gen", _run, strategy=_gen, examples={"quick": 6400, "thorough": 16 * 12000}, shards={"quick": 8, "thorough": 16}),
    ]
